"""Evidence writer + structural validator (EVIDENCE.schema.json)."""
import json
import os
import shutil
import subprocess

from . import ROOT

LEVELS = ("exploration", "fault_enumeration", "model_checking", "proof",
          "translation_validation", "other")


def validate(ev):
    errs = []
    for k in ("property_id", "tier", "seed", "level", "coverage", "wall_s"):
        if k not in ev:
            errs.append("missing " + k)
    if errs:
        return errs
    if ev["tier"] not in ("quick", "thorough"):
        errs.append("tier")
    if not isinstance(ev["seed"], int):
        errs.append("seed")
    if ev["level"] not in LEVELS:
        errs.append("level")
    c = ev["coverage"]
    if not isinstance(c, dict):
        return errs + ["coverage"]

    def generic():
        e = []
        if not (isinstance(c.get("evaluations"), int) and c["evaluations"] >= 1):
            e.append("evaluations")
        if not (isinstance(c.get("distinct_nontrivial"), int)
                and c["distinct_nontrivial"] >= 2):
            e.append("distinct_nontrivial")
        if not isinstance(c.get("rule"), str):
            e.append("rule")
        if not (isinstance(c.get("samples"), list) and len(c["samples"]) >= 1):
            e.append("samples")
        return e

    if ev["level"] in ("exploration", "fault_enumeration"):
        errs += generic()
    elif ev["level"] == "model_checking":
        if all(k in c for k in ("states", "transitions",
                                "traces_validated_against_impl", "samples")):
            if not (isinstance(c["states"], int) and c["states"] >= 1):
                errs.append("states")
            if not (isinstance(c["transitions"], int) and c["transitions"] >= 1):
                errs.append("transitions")
            if not (isinstance(c["traces_validated_against_impl"], int)
                    and c["traces_validated_against_impl"] >= 0):
                errs.append("traces")
            if not (isinstance(c["samples"], list) and c["samples"]):
                errs.append("samples")
        else:
            errs += generic()
    if not isinstance(ev["wall_s"], (int, float)):
        errs.append("wall_s")
    return errs


def write(prop, ev):
    errs = validate(ev)
    path = os.path.join(ROOT, "evidence", prop + ".json")
    os.makedirs(os.path.dirname(path), exist_ok=True)
    tmp = path + ".tmp"
    with open(tmp, "w") as f:
        json.dump(ev, f, indent=1, sort_keys=True)
        f.write("\n")
    os.replace(tmp, path)
    # optional second opinion from jsonschema in the tooling venv
    vt = shutil.which("python3-vt")
    schema = "/root/.vp/EVIDENCE.schema.json"
    if vt and os.path.exists(schema) and os.environ.get("VMC_JSONSCHEMA", "1") == "1":
        try:
            r = subprocess.run(
                [vt, "-c",
                 "import json,sys,jsonschema;"
                 "jsonschema.validate(json.load(open(sys.argv[1])),"
                 "json.load(open(sys.argv[2])))", path, schema],
                capture_output=True, text=True, timeout=60)
            if r.returncode != 0:
                errs.append("jsonschema: " + r.stderr.strip().splitlines()[-1][:200])
        except Exception as ex:  # optional step, never fatal
            pass
    return path, errs
