"""Tabular Computus: Easter from golden number and epact (no Gauss/Meeus
closed forms).  Julian: epact table via the 19-year cycle; Gregorian: Clavius'
solar and lunar corrections to the epact."""


def easter_julian(y):
    g = y % 19
    i = (19 * g + 15) % 30          # days from 21 March to the paschal full moon
    j = (y + y // 4 + i) % 7        # weekday of the full moon
    l = i - j
    m = 3 + (l + 40) // 44
    d = l + 28 - 31 * (m // 4)
    return m, d


def easter_gregorian(y):
    g = y % 19 + 1                  # golden number
    c = y // 100 + 1                # century
    x = 3 * c // 4 - 12             # solar correction
    z = (8 * c + 5) // 25 - 5       # lunar correction
    d = 5 * y // 4 - x - 10         # Sunday letter helper
    e = (11 * g + 20 + z - x) % 30  # epact
    if (e == 25 and g > 11) or e == 24:
        e += 1
    n = 44 - e
    if n < 21:
        n += 30
    n = n + 7 - ((d + n) % 7)
    return (4, n - 31) if n > 31 else (3, n)


def easter(y):
    return easter_julian(y) if y <= 1582 else easter_gregorian(y)
