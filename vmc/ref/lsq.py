"""Exact rational least squares via the normal equations."""
from fractions import Fraction


def solve(A, b):
    n = len(A)
    M = [[Fraction(x) for x in row] + [Fraction(bb)] for row, bb in zip(A, b)]
    for i in range(n):
        p = next((r for r in range(i, n) if M[r][i] != 0), None)
        if p is None:
            return None
        M[i], M[p] = M[p], M[i]
        for r in range(n):
            if r != i and M[r][i] != 0:
                f = M[r][i] / M[i][i]
                M[r] = [a - f * c for a, c in zip(M[r], M[i])]
    return [M[i][n] / M[i][i] for i in range(n)]


def det(A):
    n = len(A)
    M = [[Fraction(x) for x in row] for row in A]
    d = Fraction(1)
    for i in range(n):
        p = next((r for r in range(i, n) if M[r][i] != 0), None)
        if p is None:
            return Fraction(0)
        if p != i:
            M[i], M[p] = M[p], M[i]
            d = -d
        d *= M[i][i]
        for r in range(i + 1, n):
            f = M[r][i] / M[i][i]
            M[r] = [a - f * c for a, c in zip(M[r], M[i])]
    return d


def normal(xs, ys, basis):
    """basis: list of callables evaluated in float; returns (A, b, B)."""
    B = [[Fraction(f(x)) for f in basis] for x in xs]
    m = len(basis)
    A = [[sum(B[k][i] * B[k][j] for k in range(len(xs))) for j in range(m)] for i in range(m)]
    b = [sum(B[k][i] * Fraction(ys[k]) for k in range(len(xs))) for i in range(m)]
    return A, b, B


def fit(xs, ys, basis):
    A, b, B = normal(xs, ys, basis)
    sol = solve(A, b)
    return sol, A, B


def conditioning(A):
    """det(A) / prod(diag A): 1 for orthogonal columns, 0 for dependent ones."""
    p = Fraction(1)
    for i in range(len(A)):
        if A[i][i] == 0:
            return Fraction(0)
        p *= A[i][i]
    return abs(det(A)) / p
