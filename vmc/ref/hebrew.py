"""Arithmetic Hebrew calendar (molad of Tishri + the four dehiyyot), after
Dershowitz & Reingold.  Returns day numbers n = JDE + 0.5 (days since
-4712-01-01 0h), the unit used by vmc.ref.calendar."""


def elapsed_days(y):
    months = (235 * y - 234) // 19
    parts = 12084 + 13753 * months
    day = months * 29 + parts // 25920
    if (3 * (day + 1)) % 7 < 3:     # ADU: not on Sunday, Wednesday, Friday
        day += 1
    return day


def delay(y):
    a, b, c = elapsed_days(y - 1), elapsed_days(y), elapsed_days(y + 1)
    if c - b == 356:
        return 2
    if b - a == 382:
        return 1
    return 0


HEBREW_EPOCH_RD = -1373427          # R.D. of the day before 1 Tishri AM 1


def rosh_hashanah_n(am_year):
    rd = HEBREW_EPOCH_RD + elapsed_days(am_year) + delay(am_year)
    return rd + 1721425             # JDE at 0h = rd + 1721424.5


def pesach_n(civil_year):
    """Day number of 15 Nisan in the given civil year: 163 days before the
    following Rosh Hashanah (1 Tishri of AM civil_year + 3761)."""
    return rosh_hashanah_n(civil_year + 3761) - 163
