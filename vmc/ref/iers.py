"""IERS leap-second history as a step automaton over months.  A leap second is
inserted at the end of the month *before* each listed (year, month)."""

INSERTIONS = [(1972, 7), (1973, 1), (1974, 1), (1975, 1), (1976, 1), (1977, 1), (1978, 1),
              (1979, 1), (1980, 1), (1981, 7), (1982, 7), (1983, 7), (1985, 7), (1988, 1),
              (1990, 1), (1991, 1), (1992, 7), (1993, 7), (1994, 7), (1996, 1), (1997, 7),
              (1999, 1), (2006, 1), (2009, 1), (2012, 7), (2015, 7), (2017, 1)]
_SET = set(INSERTIONS)


def initial():
    return (1950, 1, 0)


def nxt(s):
    y, m, c = s
    m += 1
    if m > 12:
        y, m = y + 1, 1
    if (y, m) in _SET:
        c += 1
    return (y, m, c)


def states(y0=1950, y1=2100):
    s = initial()
    out = []
    while s[0] <= y1:
        if s[0] >= y0:
            out.append(s)
        s = nxt(s)
    return out


def eves():
    """(y, m, last day) of the months that end with a leap second."""
    from . import calendar as cal
    out = []
    for (y, m) in INSERTIONS:
        py, pm = (y, m - 1) if m > 1 else (y - 1, 12)
        out.append((py, pm, cal.mlen(py, pm)))
    return out
