"""Exact-rational reference for Angle arithmetic (C03/C04)."""
import decimal
from fractions import Fraction

D = decimal.Decimal
CTX = decimal.Context(prec=80)
PI = D("3.14159265358979323846264338327950288419716939937510582097494459230781640628620899")
F360 = Fraction(360)


def cong_dev(value, exact):
    """|value - exact| modulo 360 as a Fraction in [0, 180]."""
    d = (Fraction(value) - exact) % F360
    return min(d, F360 - d)


def tol_for(exact, base=Fraction(1, 10**9)):
    m = abs(exact)
    return base * (m if m > 1 else 1)


def rad2deg_exact(x):
    """Exact-ish (80 digits) degrees of float radians x, as Fraction."""
    v = CTX.divide(CTX.multiply(D(x), D(180)), PI)
    return Fraction(v)


def pow_exact(base, exp):
    """Real power base**exp as a Fraction (exact for integer exponents, 80
    digits otherwise); None when the real power does not exist or is out of
    reach (overflow guard)."""
    base = Fraction(base)
    exp = Fraction(exp)
    if exp.denominator == 1:
        e = int(exp)
        if base == 0:
            if e < 0:
                return None
            return Fraction(1 if e == 0 else 0)
        if abs(e) > 400:
            if abs(base) == 1:
                return Fraction(1 if (e % 2 == 0 or base > 0) else -1)
            return None
        return base ** e
    if base < 0:
        return None
    if base == 0:
        return Fraction(0) if exp > 0 else None
    try:
        with decimal.localcontext(CTX):
            b = D(base.numerator) / D(base.denominator)
            e = D(exp.numerator) / D(exp.denominator)
            lg = b.ln() * e
            if abs(lg) > 200:
                return None
            v = lg.exp()
        return Fraction(v)
    except (decimal.Overflow, decimal.InvalidOperation):
        return None


def smod(a, b):
    """Sign-magnitude modulo documented by the library: sign(a)*(|a| mod b)
    with floored mod, exact."""
    s = 1 if a >= 0 else -1
    return s * (abs(a) % b)
