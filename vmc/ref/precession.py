"""IAU 1976 precession (Meeus ch. 21) written independently of the library: the accumulated angles as
polynomials in T (centuries from J2000 to the start epoch) and t (centuries of the interval), and the two
rotations in vector form.  Angles in degrees."""
import math


def equatorial_angles(T, t):
    zeta = (2306.2181 + 1.39656 * T - 0.000139 * T * T) * t + (0.30188 - 0.000344 * T) * t * t + 0.017998 * t ** 3
    z = (2306.2181 + 1.39656 * T - 0.000139 * T * T) * t + (1.09468 + 0.000066 * T) * t * t + 0.018203 * t ** 3
    theta = (2004.3109 - 0.85330 * T - 0.000217 * T * T) * t - (0.42665 + 0.000217 * T) * t * t - 0.041833 * t ** 3
    return zeta / 3600.0, z / 3600.0, theta / 3600.0


def ecliptical_angles(T, t):
    eta = (47.0029 - 0.06603 * T + 0.000598 * T * T) * t + (-0.03302 + 0.000598 * T) * t * t + 0.000060 * t ** 3
    pi_ = 174.876384 + (3289.4789 * T + 0.60622 * T * T - (869.8089 + 0.50491 * T) * t + 0.03536 * t * t) / 3600.0
    p = (5029.0966 + 2.22226 * T - 0.000042 * T * T) * t + (1.11113 - 0.000042 * T) * t * t - 0.000006 * t ** 3
    return eta / 3600.0, pi_, p / 3600.0


def _vec(lon, lat):
    lo, la = math.radians(lon), math.radians(lat)
    return (math.cos(la) * math.cos(lo), math.cos(la) * math.sin(lo), math.sin(la))


def _lonlat(v):
    return math.degrees(math.atan2(v[1], v[0])) % 360.0, math.degrees(math.atan2(v[2], math.hypot(v[0], v[1])))


def _rz(v, a):
    c, s = math.cos(math.radians(a)), math.sin(math.radians(a))
    return (c * v[0] - s * v[1], s * v[0] + c * v[1], v[2])


def _ry(v, a):
    c, s = math.cos(math.radians(a)), math.sin(math.radians(a))
    return (c * v[0] + s * v[2], v[1], -s * v[0] + c * v[2])


def _rx(v, a):
    c, s = math.cos(math.radians(a)), math.sin(math.radians(a))
    return (v[0], c * v[1] - s * v[2], s * v[1] + c * v[2])


def equatorial(T, t, ra, dec):
    """R3(z) R2(-theta) R3(zeta) as active rotations of the position vector."""
    zeta, z, theta = equatorial_angles(T, t)
    v = _vec(ra, dec)
    v = _rz(v, zeta)
    v = _ry(v, -theta)
    v = _rz(v, z)
    return _lonlat(v)


def ecliptical(T, t, lon, lat):
    """Rotate to the node of the two ecliptics (longitude Pi), tilt by eta, rotate on by p + Pi."""
    eta, pi_, p = ecliptical_angles(T, t)
    v = _vec(lon, lat)
    v = _rz(v, -pi_)
    v = _rx(v, -eta)
    v = _rz(v, p + pi_)
    return _lonlat(v)


def equatorial_inverse(T, t, ra, dec):
    zeta, z, theta = equatorial_angles(T, t)
    v = _vec(ra, dec)
    v = _rz(v, -z)
    v = _ry(v, theta)
    v = _rz(v, -zeta)
    return _lonlat(v)


def ecliptical_inverse(T, t, lon, lat):
    eta, pi_, p = ecliptical_angles(T, t)
    v = _vec(lon, lat)
    v = _rz(v, -(p + pi_))
    v = _rx(v, eta)
    v = _rz(v, pi_)
    return _lonlat(v)
