"""Tabular (arithmetic) Islamic calendar as a successor machine.  Epoch:
1 Muharram AH 1 = 16 July 622 (Julian) = JDE 1948439.5 = day number 1948440.
Year h is a leap year (355 days) when (11 h + 14) mod 30 < 11; odd months have
30 days, even months 29, the twelfth 30 in a leap year."""

EPOCH_N = 1948440


def leap(h):
    return (11 * h + 14) % 30 < 11


def mlen(h, m):
    if m % 2 == 1 or (m == 12 and leap(h)):
        return 30
    return 29


def ylen(h):
    return 355 if leap(h) else 354


def initial():
    return (1, 1, 1, EPOCH_N)


def nxt(s):
    h, m, d, n = s
    n += 1
    if d < mlen(h, m):
        return (h, m, d + 1, n)
    if m < 12:
        return (h, m + 1, 1, n)
    return (h + 1, 1, 1, n)


def year_starts(h0, h1):
    out = []
    n = EPOCH_N
    for h in range(1, h1 + 1):
        if h >= h0:
            out.append((h, n))
        n += ylen(h)
    return out


def days_of_year(h, n0):
    s = (h, 1, 1, n0)
    while s[0] == h:
        yield s
        s = nxt(s)
