"""Independent two-body positions (heliocentric, equatorial J2000) for C09."""
import math

K = 0.01720209895
SE, CE = 0.397777156, 0.917482062       # obliquity J2000 used by Meeus ch. 33


def kepler_E(e, M):
    """Eccentric anomaly by bisection on M wrapped to (-pi, pi]."""
    M = (M + math.pi) % (2.0 * math.pi) - math.pi
    lo, hi = -math.pi, math.pi
    for _ in range(200):
        mid = (lo + hi) / 2.0
        if mid - e * math.sin(mid) - M > 0:
            hi = mid
        else:
            lo = mid
        if hi - lo < 1e-17:
            break
    return (lo + hi) / 2.0


def barker_s(W):
    """Real root of s^3 + 3 s - W = 0 by bisection."""
    b = max(2.0, abs(W)) + 1.0
    lo, hi = -b, b
    for _ in range(300):
        mid = (lo + hi) / 2.0
        if mid ** 3 + 3.0 * mid - W > 0:
            hi = mid
        else:
            lo = mid
    return (lo + hi) / 2.0


def helio_equ(q, e, i_deg, node_deg, w_deg, dt):
    """Heliocentric equatorial J2000 xyz, dt days from perihelion."""
    i, Om, w = math.radians(i_deg), math.radians(node_deg), math.radians(w_deg)
    if e < 1.0:
        a = q / (1.0 - e)
        n = K / (a * math.sqrt(a))
        E = kepler_E(e, n * dt)
        v = 2.0 * math.atan2(math.sqrt(1.0 + e) * math.sin(E / 2.0), math.sqrt(1.0 - e) * math.cos(E / 2.0))
        r = a * (1.0 - e * math.cos(E))
    else:
        W = 3.0 * K / math.sqrt(2.0) * dt / (q * math.sqrt(q))
        s = barker_s(W)
        v = 2.0 * math.atan(s)
        r = q * (1.0 + s * s)
    u = w + v
    x = r * (math.cos(Om) * math.cos(u) - math.sin(Om) * math.sin(u) * math.cos(i))
    y = r * (math.sin(Om) * math.cos(u) + math.cos(Om) * math.sin(u) * math.cos(i))
    z = r * math.sin(i) * math.sin(u)
    return (x, y * CE - z * SE, y * SE + z * CE)
