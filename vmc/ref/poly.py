"""Exact rational polynomials (coefficient lists, lowest degree first)."""
from fractions import Fraction


def F(x):
    return x if isinstance(x, Fraction) else Fraction(x)


def peval(c, x):
    x = F(x)
    r = Fraction(0)
    for a in reversed(c):
        r = r * x + a
    return r


def pderiv(c):
    return [i * c[i] for i in range(1, len(c))] or [Fraction(0)]


def pmul(a, b):
    r = [Fraction(0)] * (len(a) + len(b) - 1)
    for i, x in enumerate(a):
        for j, y in enumerate(b):
            r[i + j] += x * y
    return r


def padd(a, b):
    n = max(len(a), len(b))
    return [(a[i] if i < len(a) else 0) + (b[i] if i < len(b) else 0) for i in range(n)]


def interpolant(xs, ys):
    """Exact polynomial of degree < n through the points (Lagrange)."""
    xs = [F(x) for x in xs]
    ys = [F(y) for y in ys]
    n = len(xs)
    res = [Fraction(0)]
    for i in range(n):
        num = [Fraction(1)]
        den = Fraction(1)
        for j in range(n):
            if j != i:
                num = pmul(num, [-xs[j], Fraction(1)])
                den *= xs[i] - xs[j]
        res = padd(res, [c * ys[i] / den for c in num])
    return res


def sign(v):
    return (v > 0) - (v < 0)
