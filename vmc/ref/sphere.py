"""Unit-vector algebra on the sphere (independent of pymeeus)."""
import math


def vec(lon_deg, lat_deg):
    lo, la = math.radians(lon_deg), math.radians(lat_deg)
    c = math.cos(la)
    return (c * math.cos(lo), c * math.sin(lo), math.sin(la))


def lonlat(v):
    x, y, z = v
    return math.degrees(math.atan2(y, x)), math.degrees(math.atan2(z, math.hypot(x, y)))


def cross(u, v):
    return (u[1] * v[2] - u[2] * v[1], u[2] * v[0] - u[0] * v[2], u[0] * v[1] - u[1] * v[0])


def dot(u, v):
    return u[0] * v[0] + u[1] * v[1] + u[2] * v[2]


def norm(u):
    return math.sqrt(dot(u, u))


def sep(u, v):
    """Angle between two vectors in degrees, accurate at all separations."""
    return math.degrees(math.atan2(norm(cross(u, v)), dot(u, v)))


def sep_ll(lo1, la1, lo2, la2):
    return sep(vec(lo1, la1), vec(lo2, la2))


def rot_x(v, ang_deg):
    """Coordinates of v in a frame rotated by +ang about the x axis."""
    a = math.radians(ang_deg)
    c, s = math.cos(a), math.sin(a)
    x, y, z = v
    return (x, y * c + z * s, -y * s + z * c)


def rot_y(v, ang_deg):
    a = math.radians(ang_deg)
    c, s = math.cos(a), math.sin(a)
    x, y, z = v
    return (x * c - z * s, y, x * s + z * c)


def rot_z(v, ang_deg):
    a = math.radians(ang_deg)
    c, s = math.cos(a), math.sin(a)
    x, y, z = v
    return (x * c + y * s, -x * s + y * c, z)


def offset(lon, lat, s_deg, pa_deg):
    """Point at angular distance s and position angle pa (from north through
    east) from (lon, lat)."""
    la1, s, p = math.radians(lat), math.radians(s_deg), math.radians(pa_deg)
    sl2 = math.sin(la1) * math.cos(s) + math.cos(la1) * math.sin(s) * math.cos(p)
    cl2y = math.sin(p) * math.sin(s) * math.cos(la1)
    cl2x = math.cos(s) - math.sin(la1) * sl2
    dlo = math.atan2(cl2y, cl2x)
    # latitude via vector to stay accurate near the poles
    x = math.cos(la1) * math.cos(s) - math.sin(la1) * math.sin(s) * math.cos(p)
    y = math.sin(s) * math.sin(p)
    la2 = math.atan2(sl2, math.hypot(x, y))
    return (lon + math.degrees(dlo)) % 360.0, math.degrees(la2)


def position_angle(lo1, la1, lo2, la2):
    """Position angle of point 1 relative to point 2 (as Meeus ch. 17: from
    north through east), degrees in (-180, 180]."""
    da = math.radians(lo1 - lo2)
    d1, d2 = math.radians(la1), math.radians(la2)
    y = math.cos(d1) * math.sin(da)
    x = math.cos(d2) * math.sin(d1) - math.sin(d2) * math.cos(d1) * math.cos(da)
    return math.degrees(math.atan2(y, x))
