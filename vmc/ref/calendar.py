"""Civil-calendar successor machine (the reference model of C01/C16).

Written from the calendar rules only: Julian calendar through 1582-10-04,
Gregorian from 1582-10-15.  A state is (y, m, d, n, w, doy) with n = number of
days since -4712-01-01 (so the JDE at 0h is n - 0.5), w = weekday counter
(0 = Sunday) and doy = day of the year.  No INT(365.25 * ...) arithmetic is used
anywhere: n, w and doy are counters advanced by `next`.
"""

ML = (31, 28, 31, 30, 31, 30, 31, 31, 30, 31, 30, 31)
Y_MIN = -4712
SHORT = ("Jan", "Feb", "Mar", "Apr", "May", "Jun", "Jul", "Aug", "Sep", "Oct",
         "Nov", "Dec")
LONG = ("January", "February", "March", "April", "May", "June", "July",
        "August", "September", "October", "November", "December")


def leap(y):
    """Leap rule in force in year y (Julian before 1582, Gregorian after;
    1582 itself is a common year in both)."""
    if y <= 1582:
        return y % 4 == 0
    return (y % 4 == 0 and y % 100 != 0) or y % 400 == 0


def mlen(y, m):
    if m == 2 and leap(y):
        return 29
    return ML[m - 1]


def ylen(y):
    if y == 1582:
        return 355
    return 366 if leap(y) else 365


# JDE 0.0 (= -4712-01-01 12h) is a Monday: floor(0 + 1.5) mod 7 = 1.
W0 = 1


def initial():
    return (Y_MIN, 1, 1, 0, W0, 1)


def nxt(s):
    y, m, d, n, w, doy = s
    n += 1
    w = (w + 1) % 7
    if y == 1582 and m == 10 and d == 4:
        return (y, m, 15, n, w, doy + 1)
    if d < mlen(y, m):
        return (y, m, d + 1, n, w, doy + 1)
    if m < 12:
        return (y, m + 1, 1, n, w, doy + 1)
    return (y + 1, 1, 1, n, w, 1)


def year_start(y):
    """State of 1 January of year y, obtained by running the counter-only
    model forward year by year (no closed form)."""
    n = 0
    for yy in range(Y_MIN, y):
        n += ylen(yy)
    return (y, 1, 1, n, (W0 + n) % 7, 1)


def year_starts(y0, y1):
    """[(year, n at 1 Jan)] for y0..y1 inclusive, by accumulation."""
    out = []
    n = 0
    for yy in range(Y_MIN, y1 + 1):
        if yy >= y0:
            out.append((yy, n))
        n += ylen(yy)
    return out


def days_of_year(y, n0):
    """All states of year y, given n at 1 January."""
    s = (y, 1, 1, n0, (W0 + n0) % 7, 1)
    while s[0] == y:
        yield s
        s = nxt(s)


def day_number(y, m, d):
    """n of a given civil date (by walking; used for sparse lookups only)."""
    s = year_start(y)
    while (s[1], s[2]) != (m, d):
        s = nxt(s)
        if s[0] != y:
            raise ValueError("no such civil date %r" % ((y, m, d),))
    return s[3]


class Fast(object):
    """Cached year-start table for repeated lookups."""

    def __init__(self, y0=Y_MIN, y1=6001):
        self.tab = dict(year_starts(y0, y1))
        self.y0, self.y1 = y0, y1

    def n(self, y, m, d):
        n = self.tab[y]
        for mm in range(1, m):
            n += mlen(y, mm)
        n += d - 1
        if y == 1582 and (m > 10 or (m == 10 and d >= 15)):
            n -= 10
        return n

    def date(self, n):
        """(y, m, d) of day number n (linear scan over years via bisect)."""
        import bisect
        if not hasattr(self, "_ys"):
            self._ys = sorted(self.tab)
            self._ns = [self.tab[y] for y in self._ys]
        i = bisect.bisect_right(self._ns, n) - 1
        y = self._ys[i]
        r = n - self._ns[i]
        if y == 1582 and r >= 277:   # 1582-10-04 is day index 276 (0-based)
            r += 10
        m = 1
        while r >= mlen(y, m):
            r -= mlen(y, m)
            m += 1
        return y, m, r + 1
