"""Run with the tooling interpreter (python3-vt, numpy): reads {"series": [[order, [[A, B, C], ...]], ...], "t0": .., "t1": ..,
"eps": ..} from argv[1]; for every pair of consecutive rows (k, k+1) of every series lists the zeros t_n of row k in
[t0, t1] (millennia from J2000) at which row k+1 is small as well: |A' cos(B' + C' t_n)| < eps.  Output: JSON list of
[order, k, t_n] on stdout.  A shortlist only - the caller refines every candidate in exact arithmetic."""
import json
import sys
import numpy as np

spec = json.load(open(sys.argv[1]))
t0, t1, eps = spec["t0"], spec["t1"], spec["eps"]
out = []
for order, ser in spec["series"]:
    for k in range(len(ser) - 1):
        A, B, C = ser[k]
        A2, B2, C2 = ser[k + 1]
        if C == 0.0 or A2 == 0.0:
            continue
        # zeros of cos(B + C t): B + C t = pi/2 + n pi
        n_lo = int(np.ceil((B + C * min(t0, t1) - np.pi / 2) / np.pi)) if C > 0 else int(np.ceil((B + C * max(t0, t1) - np.pi / 2) / np.pi))
        n_hi = int(np.floor((B + C * max(t0, t1) - np.pi / 2) / np.pi)) if C > 0 else int(np.floor((B + C * min(t0, t1) - np.pi / 2) / np.pi))
        if n_hi < n_lo:
            continue
        n = np.arange(n_lo, n_hi + 1, dtype=np.float64)
        t = (np.pi / 2 + n * np.pi - B) / C
        v = np.abs(A2 * np.cos(B2 + C2 * t))
        for i in np.nonzero(v < eps)[0]:
            out.append([order, k, float(t[i])])
json.dump(out, sys.stdout)
