"""Floating-point helpers: ulp neighbours, exact rational views, congruence."""
import math
from fractions import Fraction


def ulps(x, k):
    """{x, x +- 1 ulp, ..., x +- k ulp} in ascending order, finite only."""
    out = [x]
    lo = hi = x
    for _ in range(k):
        lo = math.nextafter(lo, -math.inf)
        hi = math.nextafter(hi, math.inf)
        out.append(lo)
        out.append(hi)
    return sorted(set(v for v in out if math.isfinite(v)))


def frac(x):
    return Fraction(x)


def cong_dist(a, b, mod=360):
    """Distance between a and b modulo ``mod`` (exact for Fractions)."""
    d = (a - b) % mod
    if d > mod / 2:
        d = mod - d
    return d


def fcong(a, b, mod=360.0):
    d = math.fmod(a - b, mod)
    if d < 0:
        d += mod
    if d > mod / 2:
        d = mod - d
    return d


def finite(x):
    return isinstance(x, (int, float)) and math.isfinite(x)
