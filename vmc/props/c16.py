"""C16 - weekday, day of year, fractional year, sidereal time (shape S for the
calendar part: the same successor machine as C01 with w and doy counters;
shape L for sidereal time)."""
import datetime
import math
from fractions import Fraction

from ..engine import Clause, chunks
from ..ref import calendar as cal
from . import c01

from pymeeus.Epoch import Epoch
from pymeeus.Coordinates import true_obliquity, nutation_longitude

PROPERTY = "C16"
LEVEL = "model_checking"
RULE = ("every state (y,m,d,n,w,doy) of the civil-calendar successor machine "
        "-4712..6000 is replayed on Epoch.dow/get_doy/doy/doy2date/year/leap; "
        "sidereal time on the JDE lattice (every 0h/12h of every 50th day of "
        "[0,5.4e6] plus boundary instants +- offsets +- ulps); non-trivial = "
        "March or later in a leap year, any day of a year <= 0 or of 1582 or of "
        "a Julian century year, first/last day of a month; for sidereal time "
        "every lattice point")
ASSUMPTIONS = ["reference calendar model as in C01",
               "IAU 1982 GMST expression (Meeus 12.4) evaluated in exact rationals",
               "tolerance of the day-to-day and within-day sidereal advance: 1e-8 day "
               "(the T^2 term moves the daily advance by up to 4.7e-9 day at the ends "
               "of the range; observed maximum is reported in the evidence)"]
Y0, Y1 = -4712, 6000
FRACS = (0.0, 0.5, 0.999)


def bound(tier):
    b = "all civil days -4712..6000 x day fractions {0,0.5,0.999}; sidereal lattice"
    if tier == "thorough":
        b += " (dense: every 5th day); TLC cross-model with weekday/day-of-year counters"
    return b


def check_state(y, m, d, n, w, doy, prev_year=None):
    out = []   # (site, msg)
    for f in FRACS:
        try:
            got = Epoch(y, m, d + f).dow()
            if got != w or not isinstance(got, int):
                out.append(("dow", "Epoch(%d,%d,%r).dow() = %r, model %d"
                            % (y, m, d + f, got, w)))
        except Exception as ex:
            out.append(("dow", "Epoch(%d,%d,%r).dow() raised %r" % (y, m, d + f, ex)))
    # the first instant of the civil day, 1e-8 day (0.9 ms) before its end, and the last *representable* instant
    # of the day - except for JDE < 16384 and on the days on which JDE + 2 crosses a power of two, where the sum
    # JDE + 1.5 of the stated formula itself rounds up in double precision.
    probes = [n - 0.5, n + 0.5 - 1e-8]
    if n >= 16384 and (n + 2).bit_length() == (n - 1).bit_length():
        probes.append(math.nextafter(n + 0.5, 0.0))
    for j in probes:
        try:
            e = Epoch(j)
            got = e.dow()
            # (the constructor re-derives a bare JDE through the calendar and may hand back the neighbouring double:
            # the weekday is judged for the instant the object holds)
            if got != (w if e._jde < n + 0.5 else (w + 1) % 7):
                out.append(("dow_edge", "Epoch(%r).dow() = %r, model %d for the civil day %d-%d-%d"
                            % (j, got, w, y, m, d)))
        except Exception as ex:
            out.append(("dow_edge", "Epoch(%r).dow() raised %r" % (j, ex)))
    if y > 1582:
        pw = (datetime.date(y, m, d).weekday() + 1) % 7
        if pw != w:
            out.append(("dow_gregorian", "model weekday %d != datetime weekday %d" % (w, pw)))
    try:
        g = Epoch.get_doy(y, m, d)
        if g != doy:
            out.append(("get_doy", "get_doy(%d,%d,%d) = %r, model %d" % (y, m, d, g, doy)))
    except Exception as ex:
        out.append(("get_doy", "get_doy(%d,%d,%d) raised %r" % (y, m, d, ex)))
    try:
        e = Epoch(y, m, d)
        g = e.doy()
        if g != doy:
            out.append(("doy", "Epoch(%d,%d,%d).doy() = %r, model %d" % (y, m, d, g, doy)))
    except Exception as ex:
        out.append(("doy", "Epoch(%d,%d,%d).doy() raised %r" % (y, m, d, ex)))
    try:
        r = Epoch.doy2date(y, doy)
        if tuple(r) != (y, m, d):
            out.append(("doy2date", "doy2date(%d,%d) = %r, model %r" % (y, doy, r, (y, m, d))))
    except Exception as ex:
        out.append(("doy2date", "doy2date(%d,%d) raised %r" % (y, doy, ex)))
    # the same day with a time of day: day of year <-> date in both directions on EVERY civil day
    try:
        r = Epoch.doy2date(y, doy + 0.75)
        if (r[0], r[1]) != (y, m) or abs(r[2] - (d + 0.75)) > 1e-9:
            out.append(("doy2date", "doy2date(%d,%r) = %r, model %r" % (y, doy + 0.75, r, (y, m, d + 0.75))))
        # the last instants of the day: 5e-11 day and one ulp before the next whole day number
        for x in (doy + 1 - 5e-11, math.nextafter(float(doy + 1), 0.0)):
            r = Epoch.doy2date(y, x)
            if (r[0], r[1]) != (y, m) or not (d + 0.999 < r[2] <= d + 1.0):
                out.append(("doy2date", "doy2date(%d,%r) = %r, model %r" % (y, x, r, (y, m, d + (x - doy)))))
        g = Epoch.get_doy(y, m, d + 0.75)
        if abs(g - (doy + 0.75)) > 1e-9:
            out.append(("get_doy", "get_doy(%d,%d,%r) = %r, model %r" % (y, m, d + 0.75, g, doy + 0.75)))
    except Exception as ex:
        out.append(("doy2date", "doy2date / get_doy with a time of day raised %r at (%d,%d,%d)" % (ex, y, m, d)))
    try:
        e = Epoch(y, m, d)
        yr = e.year()
        if not (math.floor(yr) == y):
            out.append(("year", "Epoch(%d,%d,%d).year() = %r: integer part is not the year"
                        % (y, m, d, yr)))
        if prev_year is not None and not (yr > prev_year):
            out.append(("year", "year() not increasing: %r after %r at %r"
                        % (yr, prev_year, (y, m, d))))
        yr2 = Epoch(y, m, d + 0.999).year()
        if not (yr2 > yr and math.floor(yr2) == y):
            out.append(("year", "year() at day+0.999 = %r vs %r at 0h (%r)"
                        % (yr2, yr, (y, m, d))))
    except Exception as ex:
        out.append(("year", "Epoch(%d,%d,%d).year() raised %r" % (y, m, d, ex)))
    try:
        lf = Epoch(y, m, d).leap()
        sl = Epoch.is_leap(y)
        if lf != cal.leap(y) or sl != cal.leap(y):
            out.append(("leap", "leap()=%r is_leap=%r model %r (%d)" % (lf, sl, cal.leap(y), y)))
    except Exception as ex:
        out.append(("leap", "leap() raised %r at %r" % (ex, (y, m, d))))
    return out


def nontrivial(y, m, d):
    return (y <= 0 or y == 1582 or (y < 1582 and y % 100 == 0) or
            (m >= 3 and cal.leap(y)) or d == 1 or d == cal.mlen(y, m))


def run_walk(block, ctx):
    for (y, n0) in block:
        prev_year = None
        if y > Y0:
            try:
                prev_year = Epoch(y - 1, 12, 31.999).year()
            except Exception:
                prev_year = None
        for (yy, m, d, n, w, doy) in cal.days_of_year(y, n0):
            ctx.evals += 1
            ctx.states += 1
            ctx.transitions += 1
            msgs = check_state(yy, m, d, n, w, doy, prev_year)
            for site, msg in msgs:
                ctx.viol({"y": yy, "m": m, "d": d, "n": n, "w": w, "doy": doy,
                          "prev_year": prev_year, "julian_century": yy < 1582 and yy % 100 == 0},
                         msg, site=site)
            try:
                prev_year = Epoch(yy, m, d + 0.999).year()
            except Exception:
                prev_year = None
            if nontrivial(yy, m, d):
                ctx.nt_count += 1
            ctx.outcome((w, doy))
        ctx.traces += 1
        ctx.obs(y, prev_year)
    y = block[0][0]
    ctx.sample({"y": y, "m": 1, "d": 1, "n": block[0][1],
                "w": (cal.W0 + block[0][1]) % 7, "doy": 1})


def replay_walk(case):
    return [m for _, m in check_state(case["y"], case["m"], case["d"], case["n"],
                                      case["w"], case["doy"], case.get("prev_year"))]


def check_frac(y, m, d, doy, f):
    out = []
    try:
        g = Epoch.get_doy(y, m, d + f)
        if abs(g - (doy + f)) > 1e-9:
            out.append(("get_doy", "get_doy(%d,%d,%r) = %r, model %r" % (y, m, d + f, g, doy + f)))
    except Exception as ex:
        out.append(("get_doy", "get_doy(%d,%d,%r) raised %r" % (y, m, d + f, ex)))
    try:
        r = Epoch.doy2date(y, doy + f)
        if (r[0], r[1]) != (y, m) or abs(r[2] - (d + f)) > 1e-9:
            out.append(("doy2date", "doy2date(%d,%r) = %r, model %r"
                        % (y, doy + f, r, (y, m, d + f))))
    except Exception as ex:
        out.append(("doy2date", "doy2date(%d,%r) raised %r" % (y, doy + f, ex)))
    try:
        g = Epoch(y, m, d + f).doy()
        if abs(g - (doy + f)) > 1e-8:
            out.append(("doy", "Epoch(%d,%d,%r).doy() = %r, model %r" % (y, m, d + f, g, doy + f)))
    except Exception as ex:
        out.append(("doy", "Epoch(%d,%d,%r).doy() raised %r" % (y, m, d + f, ex)))
    return out


def run_frac(block, ctx):
    for (y, n0) in block:
        for (yy, m, d, n, w, doy) in cal.days_of_year(y, n0):
            if d != 1 and d != cal.mlen(yy, m):
                continue
            for f in (0.25, 0.5, 0.999):
                ctx.evals += 1
                ctx.states += 1
                ctx.transitions += 1
                ctx.nt_count += 1
                for site, msg in check_frac(yy, m, d, doy, f):
                    ctx.viol({"y": yy, "m": m, "d": d, "doy": doy, "f": f,
                              "julian_century": yy < 1582 and yy % 100 == 0},
                             msg, site=site)
            ctx.outcome(doy)
        ctx.obs(y)
    ctx.sample({"y": block[0][0], "m": 1, "d": 1, "doy": 1, "f": 0.25})


def replay_frac(case):
    return [m for _, m in check_frac(case["y"], case["m"], case["d"], case["doy"], case["f"])]


# ---------------------------------------------------------------------------
# sidereal time

def gmst_iau82(j):
    """IAU 1982 mean sidereal time at Greenwich in turns, exact rational
    evaluation of Meeus (12.4) at float JDE j."""
    J = Fraction(j)
    T = (J - Fraction(2451545)) / 36525
    deg = (Fraction("280.46061837") + Fraction("360.98564736629") * (J - 2451545)
           + Fraction("0.000387933") * T * T - T * T * T / 38710000)
    return (deg / 360) % 1


def cdist1(a, b):
    d = (a - b) % 1
    return min(d, 1 - d)


RATE = 1.00273790935


def check_sidereal(j):
    out = []
    try:
        e = Epoch(j)
        th = e.mean_sidereal_time()
    except Exception as ex:
        return [("mean", "Epoch(%r).mean_sidereal_time() raised %r" % (j, ex), None)]
    if not (isinstance(th, float) and 0.0 <= th < 1.0):
        out.append(("range", "mean_sidereal_time(%r) = %r not in [0,1)" % (j, th), None))
        return out
    ref = gmst_iau82(j)
    dev = float(cdist1(Fraction(th), ref))
    if dev > 1e-7:
        out.append(("iau82", "mean_sidereal_time(%r) = %r, IAU 1982 %r (dev %.3g day)"
                    % (j, th, float(ref), dev), dev))
    # advance over one day and within the day
    for dt in (1.0, 0.25, 0.5):
        j2 = j + dt
        if j2 > 5.4e6 + 2:
            continue
        try:
            th2 = Epoch(j2).mean_sidereal_time()
        except Exception as ex:
            out.append(("advance", "mean_sidereal_time(%r) raised %r" % (j2, ex), None))
            continue
        exact_dt = Fraction(j2) - Fraction(j)
        dev = float(cdist1(Fraction(th2) - Fraction(th), Fraction(RATE) * exact_dt))
        # within one UT day the advance is the stated rate times the elapsed time and nothing else: judged to 2e-11
        # day on the instants the two objects actually hold (the constructor may hand back the neighbouring double)
        jh, jh2 = e.jde(), Epoch(j2).jde()
        if math.floor(jh - 0.5) == math.floor(jh2 - 0.5):
            dev2 = float(cdist1(Fraction(th2) - Fraction(th), Fraction(RATE) * (Fraction(jh2) - Fraction(jh))))
            if dev2 > 2e-11:
                out.append(("advance_within_day", "theta(%r)-theta(%r), both in one UT day, deviates %.3g from %r turns/day"
                            % (j2, j, dev2, RATE), dev2))
        if dev > 1e-8:
            out.append(("advance", "theta(%r)-theta(%r) deviates %.3g from %r turns/day"
                        % (j2, j, dev, RATE), dev))
    # apparent sidereal time
    try:
        eps = true_obliquity(e)
        dpsi = nutation_longitude(e)
        ap = e.apparent_sidereal_time(eps, dpsi)
        corr = (float(dpsi) * 3600.0 * math.cos(math.radians(float(eps))) / 15.0) / 86400.0
        dev = abs((ap - th) - corr)
        if dev > 1e-12:
            out.append(("apparent", "apparent-mean at %r = %r, equation of equinoxes %r"
                        % (j, ap - th, corr), dev))
        if abs(ap - th) * 86400.0 >= 1.2:
            out.append(("eqeq_size", "equation of the equinoxes %r s >= 1.2 s at %r"
                        % ((ap - th) * 86400.0, j), abs(ap - th) * 86400.0))
        ap2 = e.apparent_sidereal_time(float(eps), float(dpsi))
        if ap2 != ap:
            out.append(("apparent", "Angle and float arguments disagree at %r" % j, None))
    except Exception as ex:
        out.append(("apparent", "apparent_sidereal_time raised %r at %r" % (ex, j), None))
    return out


# -- sidereal time at its two seams: 0h UT (where the day term restarts) and theta = 0 (where it wraps) ------------

SEAM_YEARS = [-4000, -1000, 0, 1000, 1582, 1900, 1987, 2000, 2024, 2100, 3000, 5000]
SEAM_UT = [-300.0, -235.0, -120.0, -30.0, -1.0, -1e-3, 0.0, 1e-3, 0.01, 0.1, 0.5, 1.0, 30.0]       # seconds from 0h UT
SEAM_WRAP = [-1.0, -0.01, -1e-4, 1e-4, 0.001, 0.01, 0.5, 1.0, 2.0]                                  # seconds from theta = 0


def wrap_neighbours(j0, th0):
    """The two adjacent doubles between which the library's mean sidereal time wraps on the day starting at j0
    (located by bisection on the library's own function), with 3 more doubles on each side."""
    tw = j0 + (1.0 - th0) / RATE
    lo, hi = tw - 2e-6, tw + 2e-6
    if not (0.0 <= lo and hi <= 5.4e6):
        return []
    f = lambda t: Epoch(t).mean_sidereal_time()
    try:
        if not (f(lo) > 0.5 > f(hi)):
            return []
        while math.nextafter(lo, math.inf) < hi:
            mid = lo + (hi - lo) / 2.0
            if f(mid) > 0.5:
                lo = mid
            else:
                hi = mid
    except Exception:
        return [tw]
    out = [lo, hi]
    a, b = lo, hi
    for _ in range(3):
        a = math.nextafter(a, -math.inf)
        b = math.nextafter(b, math.inf)
        out += [a, b]
    return out


def seam_instants(y):
    """For year y: around 0h UT of every day whose sidereal time at 0h UT lies within 0.015 turn of the
    wrap (the only days on which the sum of the 0h value and the day term can reach 1 before midnight)
    and of every 10th day; around the instant at which the sidereal time passes 0, every 20th day; and, every
    day, the last doubles before and the first doubles after the wrap."""
    n0 = c01.cal_fast().n(y, 1, 1)
    n1 = c01.cal_fast().n(y + 1, 1, 1)
    pts = []
    for k, n in enumerate(range(n0, n1)):
        j0 = n - 0.5
        th0 = float(gmst_iau82(j0))
        if th0 > 0.985 or th0 < 0.015 or k % 10 == 0:
            pts += [j0 + d / 86400.0 for d in SEAM_UT]
        pts += wrap_neighbours(j0, th0)
        if k % 20 == 0:
            t_wrap = j0 + (1.0 - th0) / RATE
            pts += [t_wrap + d / 86400.0 for d in SEAM_WRAP]
    return [p for p in pts if 0.0 <= p <= 5.4e6]


def run_sidereal_seams(block, ctx):
    for y in block:
        pts = seam_instants(y)
        for j in pts:
            ctx.evals += 1
            ctx.nt_count += 1
            for site, msg, dev in check_sidereal(j):
                ctx.viol({"jde": j, "year": y}, msg, dev=dev, site="seam_" + site)
        ctx.outcome((y, len(pts)))
        ctx.obs(y, len(pts))
    ctx.sample({"year": block[0], "instants": len(seam_instants(block[0]))})


def jde_lattice(tier):
    from .c02 import boundary_instants, OFFSETS_S
    from ..fp import ulps
    pts = set()
    for b in boundary_instants("quick"):
        for off in OFFSETS_S:
            for sg in (1, -1):
                x = b + sg * off / 86400.0
                for v in ulps(x, 1):
                    if 0.0 <= v <= 5.4e6:
                        pts.add(v)
    step = 5 if tier == "thorough" else 50
    d = 0
    while d <= 5400000:
        pts.add(float(d))
        pts.add(d + 0.5)
        d += step
    return sorted(pts)


def run_sidereal(block, ctx):
    for j in block:
        ctx.evals += 1
        ctx.nt_count += 1
        res = check_sidereal(j)
        for site, msg, dev in res:
            ctx.viol({"jde": j}, msg, dev=dev, site=site)
        ctx.obs(j, len(res))
    ctx.outcome(len(block))
    ctx.sample({"jde": block[0]})


def replay_sidereal(case):
    return [m for _, m, _ in check_sidereal(case["jde"])]


def run_tlc(window, ctx):
    y0 = window
    s0 = cal.year_start(y0)
    states = c01.tlc_states(y0, y0 + 39, s0[3], s0[4])
    states.sort(key=lambda s: s["n"])
    for s in states:
        ctx.evals += 1
        ctx.states += 1
        ctx.transitions += 1
        for site, msg in check_state(s["y"], s["m"], s["d"], s["n"], s["w"], s["doy"]):
            ctx.viol({"y": s["y"], "m": s["m"], "d": s["d"], "n": s["n"], "w": s["w"],
                      "doy": s["doy"], "julian_century": s["y"] < 1582 and s["y"] % 100 == 0},
                     msg, site=site)
        if nontrivial(s["y"], s["m"], s["d"]):
            ctx.nt_count += 1
        ctx.outcome((s["w"], s["doy"]))
    ctx.traces += 1
    ctx.obs(y0, len(states))
    ctx.sample({"tlc_window": [y0, y0 + 39], "states": len(states), "last": states[-1]})


def clauses(tier):
    ys = cal.year_starts(Y0, Y1)
    lat = jde_lattice(tier)
    out = [
        Clause("walk", chunks(ys, 128), run_walk, replay_walk, floor=100000, shape="S"),
        Clause("fractional_days", chunks(ys, 32), run_frac, replay_frac, floor=100000, shape="S"),
        Clause("sidereal", chunks(lat, 64), run_sidereal, replay_sidereal, floor=10000, shape="L"),
        Clause("sidereal_seams", [[y] for y in (SEAM_YEARS if tier != "thorough" else
                                                sorted(set(SEAM_YEARS + list(range(-4700, 6000, 100)))))],
               run_sidereal_seams, replay_sidereal, floor=5000, shape="L"),
    ]
    # the weekday / day-of-year / year / sidereal views of ONE Epoch object over histories of observers and
    # in-place mutators (set, +=, -=): shared with C02, whose clause compares all views with a fresh object
    from . import c02
    for cl in c02.clauses(tier):
        if cl.name == "object_history":
            out.append(cl)
    if tier == "thorough" and c01.tlc_available():
        out.append(Clause("tlc_cross_model", c01.TLC_WINDOWS, run_tlc, replay_walk,
                          floor=100, shape="S"))
    return out
