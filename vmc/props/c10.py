"""C10 - UTC <-> TT and the leap-second history (shape S: step automaton over
months, every state replayed)."""
import math
from fractions import Fraction

from ..engine import Clause, chunks
from ..ref import calendar as cal
from ..ref import iers

from pymeeus.Epoch import Epoch

PROPERTY = "C10"
LEVEL = "model_checking"
RULE = ("every state (year, month, count) of the IERS leap-second automaton "
        "1950-01..2100-12 is replayed on leap_seconds(); each state x day {1,15,last} x "
        "time {0h,12h,23:59:59} on the utc=True constructor and read-back; each state x "
        "override 0..60 both ways; Delta-T for every (year, month) -2000..3000; "
        "non-trivial = states from 1972 on (conversion active) and every Delta-T month")
ASSUMPTIONS = ["IERS Bulletin C list of 27 insertions through 2017-01-01",
               "the count valid for a civil instant is the number of insertions at or "
               "before the start of its month (an insertion happens at the end of the "
               "previous month)"]
TIMES = [(0, 0, 0.0), (12, 0, 0.0), (23, 59, 59.0)]
# UTC times at which the TT instant lies seconds either side of TT midnight (offset 42 .. 69 s), and civil instants
# milliseconds either side of a civil midnight
SEAM_TIMES = [(23, 58, 40.0), (23, 58, 52.0), (23, 58, 58.0), (23, 59, 4.0), (23, 59, 10.0), (23, 59, 16.5), (23, 59, 25.0),
              (23, 59, 59.995), (23, 59, 59.9975), (0, 0, 0.0015), (0, 0, 0.004)]
_FAST = None


def fast():
    global _FAST
    if _FAST is None:
        _FAST = cal.Fast(1900, 2200)
    return _FAST


def bound(tier):
    return ("all 1812 automaton states x 3 days x 3 times; overrides 0..60 x all states; "
            "Delta-T all months -2000..3000 (complete in both tiers)")


def civil_seconds(y, m, d, h, mi, s):
    """Seconds since day number 0, exact."""
    return Fraction(fast().n(y, m, d)) * 86400 + h * 3600 + mi * 60 + Fraction(s)


def check_table(y, m, c, prev):
    out = []
    try:
        g = Epoch.leap_seconds(y, m)
    except Exception as ex:
        return ["leap_seconds(%d,%d) raised %r" % (y, m, ex)]
    if g != c:
        out.append("leap_seconds(%d,%d) = %r, IERS history gives %d" % (y, m, g, c))
    if prev is not None and g < prev:
        out.append("leap_seconds decreases at (%d,%d): %r after %r" % (y, m, g, prev))
    return out


def check_offset(y, m, d, t, c):
    h, mi, s = t
    out = []
    try:
        a = Epoch(y, m, d, h, mi, s, utc=True)
        b = Epoch(y, m, d, h, mi, s)
        got = (Fraction(a.jde()) - Fraction(b.jde())) * 86400
    except Exception as ex:
        return [("offset", "Epoch(%r, utc=True) raised %r" % ((y, m, d, h, mi, s), ex), None)]
    exp = Fraction("42.184") + c if y >= 1972 else Fraction(0)
    dev = abs(float(got - exp))
    if dev > 1e-3:
        out.append(("offset", "utc=True offset at %r = %.4f s, expected %.3f s"
                    % ((y, m, d, h, mi, s), float(got), float(exp)), dev))
    # read back
    try:
        yy, mm, dd, hh, mmi, ss = a.get_full_date(utc=True)
        diff = civil_seconds(yy, mm, dd, hh, mmi, ss) - civil_seconds(y, m, d, h, mi, s)
        dev = abs(float(diff))
        if dev > 1e-3:
            out.append(("readback", "get_full_date(utc=True) of Epoch(%r, utc=True) = %r (%.4f s off)"
                        % ((y, m, d, h, mi, s), (yy, mm, dd, hh, mmi, ss), float(diff)), dev))
    except Exception as ex:
        out.append(("readback", "get_full_date(utc=True) at %r raised %r" % ((y, m, d, h, mi, s), ex), None))
    # the same through get_date (year, month, day with decimals)
    try:
        yy, mm, dd = a.get_date(utc=True)
        diff = (Fraction(fast().n(yy, mm, int(dd))) * 86400 + (Fraction(dd) - int(dd)) * 86400
                - civil_seconds(y, m, d, h, mi, s))
        dev = abs(float(diff))
        if dev > 2e-3:
            out.append(("readback", "get_date(utc=True) of Epoch(%r, utc=True) = %r (%.4f s off)"
                        % ((y, m, d, h, mi, s), (yy, mm, dd), float(diff)), dev))
    except Exception as ex:
        out.append(("readback", "get_date(utc=True) at %r raised %r" % ((y, m, d, h, mi, s), ex), None))
    return out


def check_override(y, m, c, k):
    """An explicit leap_seconds value replaces the table value, on construction and on read-back,
    whether or not utc=True is given next to it."""
    out = []
    for args in ((y, m, 15, 12, 0, 0.0), (y, m, 15, 0, 0, 0.0)):
        out += _check_override_at(args, y, m, c, k)
    return out


def _check_override_at(args, y, m, c, k):
    out = []
    exp = Fraction("42.184") + Fraction(k) if y >= 1972 else Fraction(0)
    for lab, kw in (("", {"leap_seconds": k}), ("+utc", {"leap_seconds": k, "utc": True})):
        try:
            a = Epoch(*args, **kw)
            b = Epoch(*args)
            got = (Fraction(a.jde()) - Fraction(b.jde())) * 86400
        except Exception as ex:
            out.append(("override", "Epoch(%r, **%r) raised %r" % (args, kw, ex), None))
            continue
        dev = abs(float(got - exp))
        if dev > 1e-3:
            out.append(("override" + lab, "%r offset at %r = %.4f s, expected %.3f s"
                        % (kw, args, float(got), float(exp)), dev))
        for lab2, kw2 in (("", {"leap_seconds": k}), ("+utc", {"leap_seconds": k, "utc": True})):
            if lab != lab2 and lab:
                continue
            try:
                yy, mm, dd, hh, mmi, ss = a.get_full_date(**kw2)
                diff = civil_seconds(yy, mm, dd, hh, mmi, ss) - civil_seconds(*args)
                dev = abs(float(diff))
                if dev > 1e-3:
                    out.append(("override_readback" + lab2, "get_full_date(**%r) of Epoch(%r, **%r) "
                                "is %.4f s off" % (kw2, args, kw, float(diff)), dev))
                y3, m3, d3 = a.get_date(**kw2)
                diff = (Fraction(fast().n(y3, m3, int(d3))) * 86400 + (Fraction(d3) - int(d3)) * 86400
                        - civil_seconds(*args))
                if abs(float(diff)) > 2e-3:
                    out.append(("override_readback" + lab2, "get_date(**%r) of Epoch(%r, **%r) = %r is %.4f s off"
                                % (kw2, args, kw, (y3, m3, d3), float(diff)), abs(float(diff))))
            except Exception as ex:
                out.append(("override_readback" + lab2, "get_full_date(**%r) raised %r" % (kw2, ex), None))
    return out


# -- the leap-second API as a state machine ---------------------------------------------------

API_OPS = [
    ("last", lambda: Epoch.get_last_leap_second()),
    ("ls_2017", lambda: Epoch.leap_seconds(2017, 1)),
    ("ls_2040", lambda: Epoch.leap_seconds(2040, 7)),
    ("ls_1972_6", lambda: Epoch.leap_seconds(1972, 6)),
    ("ls_1960", lambda: Epoch.leap_seconds(1960, 1)),
    ("read_local", lambda: Epoch(2457754.5).get_full_date(local=True)),
    ("tt2ut", lambda: Epoch.tt2ut(2017, 1)),
    ("build_utc", lambda: Epoch(2017, 1, 1, utc=True).jde()),
    ("read_utc", lambda: Epoch(2457754.5).get_full_date(utc=True)),
    ("build_override", lambda: Epoch(2017, 1, 1, leap_seconds=3).jde()),
]
_API_EXPECT = None


def api_view():
    """What a user can see of the leap-second history: the whole step function at the insertion
    months and around them, the last insertion, and one construction/read-back each side of it."""
    v = []
    for (y, m) in iers.INSERTIONS:
        py, pm = (y, m - 1) if m > 1 else (y - 1, 12)
        v.append(Epoch.leap_seconds(y, m))
        v.append(Epoch.leap_seconds(py, pm))
    v.append(Epoch.leap_seconds(1971, 12))
    v.append(Epoch.leap_seconds(2100, 12))
    v.append(tuple(Epoch.get_last_leap_second()))
    v.append(Epoch(2017, 1, 1, utc=True).jde())
    v.append(Epoch(2016, 12, 1, utc=True).jde())
    v.append(tuple(Epoch(2457754.5).get_full_date(utc=True)))
    return tuple(v)


def api_expected():
    v = []
    for (y, m) in iers.INSERTIONS:
        c = sum(1 for ym in iers.INSERTIONS if ym <= (y, m))
        v.append(c)
        v.append(c - 1)
    v.append(0)
    v.append(len(iers.INSERTIONS))
    return tuple(v)


def check_api_history(hist):
    """Run the operations of ``hist`` in order; after each, everything visible of the leap-second
    history must be what the IERS list gives and what it was before the history started."""
    ops = dict(API_OPS)
    first = api_view()
    exp = api_expected()
    out = []
    if first[:len(exp)] != exp:
        out.append("leap-second view before the history differs from the IERS list: %r" % (first[:len(exp)],))
    if first[len(exp)][:3] != (2016, 12, 31) and first[len(exp)][:2] != (2017, 1):
        out.append("get_last_leap_second() = %r" % (first[len(exp)],))
    for i, name in enumerate(hist):
        try:
            ops[name]()
        except Exception as ex:
            out.append("operation %s raised %r" % (name, ex))
            break
        v = api_view()
        if v != first:
            bad = [j for j in range(len(v)) if v[j] != first[j]]
            out.append("after %r the leap-second history reads differently at view positions %r "
                       "(e.g. %r instead of %r)" % (hist[:i + 1], bad[:4], v[bad[0]], first[bad[0]]))
            break
    return out


def run_api(block, ctx):
    import importlib
    import pymeeus.Epoch as EM
    for hist in block:
        ctx.evals += len(hist) + 1
        ctx.traces += 1
        ctx.transitions += len(hist)
        ctx.states += 1
        if len(set(hist)) > 1 or len(hist) == 1:
            ctx.nt_count += 1
        msgs = check_api_history(hist)
        for msg in msgs:
            ctx.viol({"history": list(hist)}, msg, site="api_history")
        if msgs:
            importlib.reload(EM)        # do not let one broken history poison the next
            globals()["Epoch"] = EM.Epoch
        ctx.outcome(hist[-1] if hist else "")
        ctx.obs(hist, not msgs)
    ctx.sample({"history": list(block[0])})


def check_forms(y, m, c):
    """Every way of handing the civil date to Epoch (positional, one tuple, one list, datetime,
    constructor or set()) applies the same UTC -> TT offset, with utc=True and with an override."""
    import datetime
    out = []
    d, h = 15, 12
    fd = d + h / 24.0
    for kwn, kw in (("utc", {"utc": True}), ("override", {"leap_seconds": c + 1})):
        try:
            ref = Epoch(y, m, d, h, 0, 0.0, **kw).jde()
        except Exception as ex:
            out.append(("forms", "Epoch(%r, **%r) raised %r" % ((y, m, d, h, 0, 0.0), kw, ex), None))
            continue
        forms = [("day_fraction", lambda: Epoch(y, m, fd, **kw)),
                 ("tuple", lambda: Epoch((y, m, fd), **kw)),
                 ("list", lambda: Epoch([y, m, fd], **kw)),
                 ("tuple6", lambda: Epoch((y, m, d, h, 0, 0.0), **kw)),
                 ("set_args", lambda: _set(Epoch(), (y, m, fd), kw)),
                 ("set_tuple", lambda: _set(Epoch(), ((y, m, fd),), kw)),
                 ("set_list", lambda: _set(Epoch(2000, 1, 1.0), ([y, m, fd],), kw)),
                 ("jde_float", lambda: Epoch(Epoch(y, m, d, h, 0, 0.0).jde(), **kw)),
                 ("set_jde_float", lambda: _set(Epoch(), (Epoch(y, m, d, h, 0, 0.0).jde(),), kw)),
                 ("epoch_object", lambda: Epoch(Epoch(y, m, d, h, 0, 0.0), **kw)),
                 ("datetime", lambda: Epoch(datetime.datetime(y, m, d, h), **kw)),
                 ("datetime_microseconds", lambda: Epoch(datetime.datetime(y, m, d, h, 0, 0, 250000), **kw) - 0.25 / 86400.0),
                 ("date_noon", lambda: Epoch(datetime.date(y, m, d), **kw) + 0.5)]
        for lab, mk in forms:
            try:
                j = mk().jde()
            except Exception as ex:
                out.append(("forms", "%s form of %r with %r raised %r" % (lab, (y, m, fd), kw, ex), None))
                continue
            dev = abs(j - ref) * 86400.0
            if dev > 1e-3:
                out.append(("forms", "%s form of %r with %r gives JDE %r, positional form %r (%.3f s)"
                            % (lab, (y, m, fd), kw, j, ref, dev), dev))
    return out


def _set(e, args, kw):
    e.set(*args, **kw)
    return e


def run_states(block, ctx):
    prev = None
    for (y, m, c) in block:
        ctx.states += 1
        ctx.transitions += 1
        ctx.evals += 1
        if y >= 1972:
            ctx.nt_count += 1
        for msg in check_table(y, m, c, prev):
            ctx.viol({"y": y, "m": m, "count": c}, msg, site="table")
        try:
            prev = Epoch.leap_seconds(y, m)
        except Exception:
            prev = None
        L = cal.mlen(y, m)
        for d in (1, 15, L):
            for t in TIMES:
                ctx.evals += 1
                for site, msg, dev in check_offset(y, m, d, t, c):
                    ctx.viol({"y": y, "m": m, "d": d, "h": t[0], "count": c,
                              "last_day": d == L}, msg, dev=dev, site=site)
        if y >= 1971:
            for d in (1, 11, L):
                for t in SEAM_TIMES:
                    ctx.evals += 1
                    for site, msg, dev in check_offset(y, m, d, t, c):
                        ctx.viol({"y": y, "m": m, "d": d, "h": t[0], "mi": t[1], "s": t[2], "count": c,
                                  "last_day": d == L}, msg, dev=dev, site=site)
        ctx.evals += 18
        for site, msg, dev in check_forms(y, m, c):
            ctx.viol({"y": y, "m": m, "count": c, "forms": True}, msg, dev=dev, site=site)
        for k in list(range(0, 61)) + [0.25, 27.5, 59.75]:        # (a count need not be whole: both directions alike)
            ctx.evals += 2
            for site, msg, dev in check_override(y, m, c, k):
                ctx.viol({"y": y, "m": m, "count": c, "override": k}, msg, dev=dev, site=site)
        ctx.outcome(c)
        ctx.obs(y, m, prev)
    ctx.traces += 1
    y, m, c = block[0]
    ctx.sample({"y": y, "m": m, "count": c})


def replay_states(case):
    y, m, c = case["y"], case["m"], case["count"]
    if case.get("forms"):
        return [x[1] for x in check_forms(y, m, c)]
    if "override" in case:
        return [x[1] for x in check_override(y, m, c, case["override"])]
    if "d" in case and "mi" in case:
        return [x[1] for x in check_offset(y, m, case["d"], (case["h"], case["mi"], case["s"]), c)]
    if "d" in case:
        t = [t for t in TIMES if t[0] == case["h"]][0]
        return [x[1] for x in check_offset(y, m, case["d"], t, c)]
    return check_table(y, m, c, None)


# -- Delta T -----------------------------------------------------------------

JOINTS = [500, 1600, 1700, 1800, 1860, 1900, 1920, 1941, 1961, 1986, 2005, 2050, 2150]


def check_dt(y, m):
    out = []
    try:
        v = Epoch.tt2ut(y, m)
    except Exception as ex:
        return [("finite", "tt2ut(%d,%d) raised %r" % (y, m, ex), None)]
    if not (isinstance(v, float) and math.isfinite(v)):
        out.append(("finite", "tt2ut(%d,%d) = %r" % (y, m, v), None))
        return out
    if 1972 <= y <= 2018:
        c = sum(1 for ym in iers.INSERTIONS if ym <= (y, m))
        dev = abs(v - (42.184 + c))
        if dev > 3.5:
            out.append(("utc", "tt2ut(%d,%d) = %.3f, 42.184 + leap seconds = %.3f"
                        % (y, m, v, 42.184 + c), dev))
    if m == 1 and y in JOINTS:
        a = Epoch.tt2ut(y - 1, 12)
        if abs(v - a) >= 1.0:
            out.append(("joint", "Delta-T jumps %.3f s between %d-12 and %d-01" % (v - a, y - 1, y),
                        abs(v - a)))
    return out


def run_dt(block, ctx):
    for y in block:
        for m in range(1, 13):
            ctx.evals += 1
            ctx.nt_count += 1
            ctx.states += 1
            ctx.transitions += 1
            for site, msg, dev in check_dt(y, m):
                ctx.viol({"y": y, "m": m}, msg, dev=dev, site=site)
        ctx.outcome(round(Epoch.tt2ut(y, 6)))
        ctx.obs(y)
    ctx.sample({"y": block[0], "m": 1, "tt2ut": Epoch.tt2ut(block[0], 1)})


def run_days(block, ctx):
    """Thorough: every civil day of the given years x 4 times of day."""
    st = dict(((y, m), c) for (y, m, c) in iers.states(1950, 2100))
    for y in block:
        for m in range(1, 13):
            c = st[(y, m)]
            L = cal.mlen(y, m)
            for d in range(1, L + 1):
                for t in ((0, 0, 0.0), (12, 0, 0.0), (23, 59, 59.0), (23, 59, 59.9)):
                    ctx.evals += 1
                    ctx.states += 1
                    ctx.transitions += 1
                    if y >= 1972:
                        ctx.nt_count += 1
                    for site, msg, dev in check_offset(y, m, d, t, c):
                        ctx.viol({"y": y, "m": m, "d": d, "h": t[0], "s": t[2], "count": c, "last_day": d == L},
                                 msg, dev=dev, site=site)
        ctx.obs(y)
    ctx.traces += 1
    ctx.outcome(len(block))
    ctx.sample({"year": block[0]})


# -- thorough: independent TLA+ model of the leap-second automaton enumerated by TLC ------------------

def leap_tlc_states(y0, y1):
    import os
    import re
    import shutil
    import subprocess
    import tempfile
    from .. import ROOT
    tmp = tempfile.mkdtemp(prefix="vmc_tlc_")
    try:
        shutil.copy(os.path.join(ROOT, "models", "LeapSeconds.tla"), tmp)
        with open(os.path.join(tmp, "LeapSeconds.cfg"), "w") as f:
            f.write("CONSTANTS\n Y0 = %d\n Y1 = %d\nSPECIFICATION Spec\nINVARIANT TypeOK\n" % (y0, y1))
        dump = os.path.join(tmp, "states")
        r = subprocess.run(["tlc", "-workers", "1", "-noGenerateSpecTE", "-deadlock", "-metadir",
                            os.path.join(tmp, "meta"), "-dump", dump, "LeapSeconds"], cwd=tmp, env=dict(os.environ, JAVA_TOOL_OPTIONS="-Djava.io.tmpdir=" + tmp), capture_output=True,
                           text=True, timeout=1200)
        if "Model checking completed. No error has been found" not in r.stdout:
            raise RuntimeError("TLC failed:\n" + r.stdout[-2000:] + r.stderr[-500:])
        return [dict((k, int(v)) for k, v in re.findall(r"/\\ (\w+) = (-?\d+)", blk))
                for blk in open(dump + ".dump").read().split("State ")[1:]]
    finally:
        shutil.rmtree(tmp, ignore_errors=True)


def run_table_pairs(block, ctx):
    """Every ordered pair of automaton states: leap_seconds(y1, m1) then leap_seconds(y2, m2) (and the Delta-T of
    the second month after the Delta-T of the first): the second answer must be the table / polynomial value of
    its own month (3.3 million pairs)."""
    st = iers.states(1950, 2100)
    ls = Epoch.leap_seconds
    dt_ref = dict(((y, m), Epoch.tt2ut(y, m)) for (y, m, c) in st)
    for (y1, m1, c1) in block:
        bad = 0
        for (y2, m2, c2) in st:
            ls(y1, m1)
            g = ls(y2, m2)
            if g != c2:
                bad += 1
                if bad <= 2:
                    ctx.viol({"y": y2, "m": m2, "count": c2, "after": [y1, m1]}, "leap_seconds(%d,%d) right after "
                             "leap_seconds(%d,%d) = %r, IERS history gives %d" % (y2, m2, y1, m1, g, c2), site="table_pair")
        for (y2, m2, c2) in st[::7]:
            Epoch.tt2ut(y1, m1)
            if Epoch.tt2ut(y2, m2) != dt_ref[(y2, m2)]:
                bad += 1
                if bad <= 4:
                    ctx.viol({"y": y2, "m": m2, "count": c2, "after": [y1, m1]}, "tt2ut(%d,%d) right after tt2ut(%d,%d) "
                             "differs from its value in isolation" % (y2, m2, y1, m1), site="table_pair")
        ctx.evals += 2 * len(st) + 2 * len(st[::7])
        ctx.transitions += len(st)
        ctx.nt_count += len(st)
        ctx.outcome(bad)
    ctx.traces += len(block)
    ctx.obs(block[0], block[-1])
    ctx.sample({"first": list(block[0][:2]), "second": "every state 1950-01..2100-12"})


def run_tlc(window, ctx):
    y0, y1 = window
    states = sorted(leap_tlc_states(y0, y1), key=lambda s: (s["y"], s["m"]))
    ref = dict(((y, m), c) for (y, m, c) in iers.states(y0, y1))
    prev = None
    for s in states:
        y, m, c = s["y"], s["m"], s["c"]
        ctx.states += 1
        ctx.transitions += 1
        ctx.evals += 4
        if y >= 1972:
            ctx.nt_count += 1
        if ref.get((y, m)) != c:
            ctx.viol({"y": y, "m": m, "count": c}, "TLA+ model count %d at (%d,%d), Python model %r"
                     % (c, y, m, ref.get((y, m))), site="tlc_model")
        for msg in check_table(y, m, c, prev):
            ctx.viol({"y": y, "m": m, "count": c}, msg, site="table")
        prev = c
        L = cal.mlen(y, m)
        for d, t in ((1, TIMES[0]), (15, TIMES[1]), (L, TIMES[1])):
            for site, msg, dev in check_offset(y, m, d, t, c):
                ctx.viol({"y": y, "m": m, "d": d, "h": t[0], "count": c, "last_day": d == L}, msg, dev=dev, site=site)
        ctx.outcome(c)
    if len(states) != len(ref):
        ctx.viol({"y": y0, "m": 1, "count": 0}, "TLC dumped %d states, the Python model has %d" % (len(states), len(ref)),
                 site="tlc_model")
    ctx.traces += 1
    ctx.count("tlc_states_dumped", len(states))
    ctx.obs(window, len(states))
    ctx.sample({"tlc_window": list(window), "states": len(states), "last": states[-1]})


def clauses(tier):
    st = iers.states(1950, 2100)
    extra = []
    if tier == "thorough":
        import shutil
        if shutil.which("tlc"):
            extra.append(Clause("tlc_cross_model", [(1950, 2100)], run_tlc, replay_states, floor=1000, shape="S"))
    if tier == "thorough":
        extra += [Clause("every_day", chunks(list(range(1969, 2022)), 53), run_days,
                        lambda c: [x[1] for x in check_offset(c["y"], c["m"], c["d"], (c["h"], 59 if c["h"] else 0, c.get("s", 0.0)), c["count"])],
                        floor=10000, shape="S")]
    import itertools
    names = [n for n, _ in API_OPS]
    depth = 4 if tier == "thorough" else 3
    hists = [h for d in range(1, depth + 1) for h in itertools.product(names, repeat=d)]
    return extra + [
        Clause("api_history", chunks(hists, 16), run_api, lambda c: check_api_history(tuple(c["history"])),
               floor=100, shape="H"),
        Clause("automaton", chunks(st, 48), run_states, replay_states, floor=1000, shape="S"),
        Clause("table_pairs", chunks(st, 64), run_table_pairs, replay_states, floor=1000000, shape="H"),
        Clause("delta_t", chunks(list(range(-2000, 3001)), 16), run_dt,
               lambda c: [x[1] for x in check_dt(c["y"], c["m"])], floor=10000, shape="S"),
    ]
