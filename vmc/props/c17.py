"""C17 - curve fitting returns the least-squares solution (L: data sets x all
permutations x input forms x fit kinds against exact rational least squares)."""
import itertools
import math
from fractions import Fraction

from ..engine import Clause, chunks
from ..ref import lsq

from pymeeus.CurveFitting import CurveFitting

PROPERTY = "C17"
LEVEL = "exploration"
RULE = ("15 data sets x all permutations (<= 6 points; 20 rotations otherwise) x input forms x "
        "{linear, quadratic, general with every ordered pair/triple of distinct basis functions "
        "from a 7-member menu}; oracle: exact rational normal equations on the float data; "
        "non-trivial = non-identity permutation or non-list form or a general fit; a case "
        "whose exact normal matrix has det/prod(diag) < 1e-6 is ill-conditioned and only "
        "counted, not judged")
ASSUMPTIONS = ["'well-conditioned' = det(A)/prod(diag A) >= 1e-6 for the exact normal matrix A",
               "basis functions are evaluated in float; the exact solution uses those float values"]
REL = 1e-6


def bound(tier):
    return "all permutations of sets with <= 6 points; all ordered basis pairs/triples on 3 sets"


def noisy(xs, f, amp):
    # deterministic 'noise'
    return [f(x) + amp * math.sin(12.9898 * (i + 1) + 78.233 * x) for i, x in enumerate(xs)]


DATASETS = {
    "lin4": ([0, 1, 2, 3], [1, 3, 5, 7]),
    "quad5": ([0, 1, 2, 3, 4], [1, 0, 1, 4, 9]),
    "quad6": ([-2, -1, 0, 1, 2, 3], [4.5, 1.25, 0.0, 0.75, 3.5, 8.25]),
    "noisy7": ([1, 2, 3, 4, 5, 6, 7], [2.1, 3.9, 6.2, 7.8, 10.1, 12.2, 13.8]),
    "spread5": ([-1000, -500, 0, 500, 1000], [3, 1, 0, 1, 3.5]),
    "decimal4": ([0.1, 0.2, 0.3, 0.4], [1, 2, 1, 2]),
    "cluster5": ([10, 10.5, 11, 11.5, 12], [5, 4, 3.5, 4.2, 5.1]),
    "two": ([1.5, 4.0], [2.0, -1.0]),
    "three": ([-1.0, 0.5, 2.0], [0.7, 0.1, 3.3]),
    "neg6": ([-6, -5, -3, -2, -1.5, -0.5], [10.2, 7.9, 3.1, 2.2, 1.4, 0.3]),
    "lin_decimal5": ([0.1, 0.7, 1.3, 2.9, 3.1], [0.1 * 3 + 0.7, 0.7 * 3 + 0.7, 1.3 * 3 + 0.7,
                                                  2.9 * 3 + 0.7, 3.1 * 3 + 0.7]),
    "repeats8": ([1, 1, 2, 2, 3, 3, 4, 5], [0.9, 1.3, 2.8, 3.1, 4.7, 5.2, 6.4, 8.9]),
    "meeus": ([73.0, 38.0, 35.0, 42.0, 78.0, 68.0, 74.0, 42.0, 52.0, 54.0, 39.0, 61.0],
              [90.4, 125.3, 161.8, 143.4, 52.5, 50.8, 71.5, 152.8, 131.3, 98.5, 144.8, 78.1]),
}
DATASETS["skew4"] = ([-3.0, 1.0, 1.5, 2.0], [2.0, -1.0, 0.5, 3.0])
DATASETS["skew6"] = ([-10.0, 1.0, 2.0, 3.0, 3.5, 4.0], noisy([-10.0, 1.0, 2.0, 3.0, 3.5, 4.0],
                                                              lambda x: 0.5 * x * x - 2 * x + 1, 0.2))
DATASETS["skewneg5"] = ([7.0, -1.0, -2.0, -2.5, -3.5], [1.0, 2.0, 0.0, -1.0, 4.0])
# ordinates with (almost) no spread, on healthy abscissae: a horizontal line, a slow drift on a large offset,
# tiny ordinates - perfectly good fits (slope ~0), although the correlation coefficient is undefined there
DATASETS["flat5"] = ([1.0, 2.0, 3.0, 4.0, 5.0], [7.0] * 5)
DATASETS["drift6"] = ([0.0, 1.0, 2.0, 3.0, 4.0, 5.0], [65536.0 + x / 1024.0 for x in range(6)])
DATASETS["tiny5"] = ([1.0, 2.0, 3.0, 4.0, 6.0], [1e-8, 1.1e-8, 1.2e-8, 1.3e-8, 1.5e-8])
# basis functions of very different size over the table (sum of squares ratio ~1e16)
DATASETS["ramp21"] = ([float(i) for i in range(21)], [2e-8 * math.exp(i) + 0.5 * i + 3.0 for i in range(21)])
# tables that are ALMOST symmetric / centred / orthogonal: an internal cross sum is tiny but not zero (a shortcut
# for the exactly symmetric case must not be taken for them)
for _i, _eps in enumerate((1e-9, 1e-7, 4e-5, 1e-3)):
    DATASETS["nearsym%d" % _i] = ([-3.0, -1.0, 1.0, 3.0 + _eps, -2.0, 2.0],
                                  [0.5 * x * x - 2.0 * x + 1.25 for x in (-3.0, -1.0, 1.0, 3.0 + _eps, -2.0, 2.0)])
    DATASETS["nearcx%d" % _i] = ([-2.0, -1.0, 0.0, 1.0, 2.0 + _eps * 0.5], [0.001 * x + 50.0 for x in
                                                                          (-2.0, -1.0, 0.0, 1.0, 2.0 + _eps * 0.5)])
    DATASETS["nearcy%d" % _i] = ([10.0, 11.0, 12.0, 13.0, 14.0], [-2.0, -1.0, 0.0, 1.0, 2.0 + _eps])
# coefficients spanning many decades on widely spread abscissae: each still matters at the ends of the table
_wx = [-950.0, -710.5, -333.25, -120.0, 4.5, 97.75, 260.0, 512.5, 801.0, 990.0]
DATASETS["wide10"] = (_wx, [4e-11 * x * x + 0.5 * x - 3.0 for x in _wx])
DATASETS["wide41"] = ([-1000.0 + 50.0 * i for i in range(41)],
                      [3e-9 * (-1000.0 + 50.0 * i) ** 2 + 0.25 * (-1000.0 + 50.0 * i) + 4000.0 for i in range(41)])
DATASETS["wide41n"] = ([-1000.0 + 50.0 * i for i in range(41)],
                       noisy([-1000.0 + 50.0 * i for i in range(41)], lambda x: -7e-10 * x * x + 0.5 * x - 3.0, 1e-4))
DATASETS["ramp31"] = ([float(i) for i in range(31)], [2e-10 * math.exp(i) + 0.5 * i + 300.0 for i in range(31)])
DATASETS["big50"] = ([i * 0.5 - 10 for i in range(50)],
                     noisy([i * 0.5 - 10 for i in range(50)], lambda x: 0.3 * x * x - x + 2, 0.5))
DATASETS["big200"] = ([i * 0.1 for i in range(200)],
                      noisy([i * 0.1 for i in range(200)], lambda x: 2 * x + 1, 0.3))
DATASETS["big50lin"] = ([i * 7.0 - 100 for i in range(50)],
                        noisy([i * 7.0 - 100 for i in range(50)], lambda x: -0.5 * x + 3, 2.0))

MENU = {
    "one": lambda x: 1.0,
    "x": lambda x: x,
    "x2": lambda x: x * x,
    "sin": lambda x: math.sin(x),
    "cos": lambda x: math.cos(x),
    "sin2": lambda x: math.sin(2.0 * x),
    "exp": lambda x: math.exp(x / 10.0),
    "expx": lambda x: math.exp(x),
}

FORMS = ["lists", "tuples", "flat", "copy", "set_used", "yonly", "lent_overwritten", "copy_source_reset"]


def build(form, xs, ys):
    if form == "lists":
        return CurveFitting(list(xs), list(ys))
    if form == "tuples":
        return CurveFitting(tuple(xs), tuple(ys))
    if form == "flat":
        args = []
        for x, y in zip(xs, ys):
            args += [x, y]
        if len(args) < 4:
            return None
        return CurveFitting(*args)
    if form == "copy":
        return CurveFitting(CurveFitting(list(xs), list(ys)))
    if form == "set_used":
        c = CurveFitting([1.0, 2.0, 4.0], [3.0, -1.0, 2.0])
        c.linear_fitting()
        c.set(list(xs), list(ys))
        return c
    if form == "yonly":
        if list(xs) != list(range(len(xs))):
            return None
        return CurveFitting(list(ys))
    if form == "lent_overwritten":
        # the caller re-uses its own buffers after handing them over
        xl, yl = list(xs), list(ys)
        c = CurveFitting(xl, yl)
        for k in range(len(xl)):
            xl[k] = -3.0 * xl[k] + k
            yl[k] = 7.0 - k
        xl.append(5.0)
        del yl[0]
        return c
    if form == "copy_source_reset":
        src = CurveFitting(list(xs), list(ys))
        c = CurveFitting(src)
        src.set([1.0, 2.0, 4.0], [3.0, -1.0, 2.0])
        return c
    raise KeyError(form)


def call_fit(cf, kind, names):
    if kind == "linear":
        return list(cf.linear_fitting())
    if kind == "quadratic":
        return list(cf.quadratic_fitting())
    fs = [MENU[n] for n in names]
    r = cf.general_fitting(*fs)
    return list(r)


def basis_for(kind, names):
    if kind == "linear":
        return [MENU["x"], MENU["one"]]
    if kind == "quadratic":
        return [MENU["x2"], MENU["x"], MENU["one"]]
    return [MENU[n] for n in names]


def check_fit(case):
    xs0, ys0 = DATASETS[case["set"]]
    perm = case["perm"]
    xs = [float(xs0[i]) for i in perm]
    ys = [float(ys0[i]) for i in perm]
    kind, names, form = case["kind"], case.get("basis", []), case["form"]
    basis = basis_for(kind, names)
    ref, A, B = lsq.fit(xs, ys, basis)
    cond = lsq.conditioning(A)
    out = []
    try:
        cf = build(form, xs if form != "yonly" else xs0, ys if form != "yonly" else ys0)
        if cf is None:
            return [], "n/a"
        got = call_fit(cf, kind, names)
    except ZeroDivisionError as ex:
        if ref is None or cond < Fraction(1, 10**6):
            return [], "degenerate"
        return [("spurious_zde", "%s fit of %s raised %r on well-conditioned data (cond %.3g)"
                 % (kind, case["set"], ex, float(cond)), None)], "zde"
    except Exception as ex:
        return [("exception", "%s fit of %s [%s] raised %r" % (kind, case["set"], form, ex), None)], "exc"
    if ref is None or cond < Fraction(1, 10**6):
        return [], "ill-conditioned"
    m = len(basis)
    if len(got) < m or any(not isinstance(g, float) or not math.isfinite(g) for g in got):
        return [("type", "%s fit returned %r" % (kind, got), None)], "type"
    for g in got[m:]:
        if g != 0.0:
            out.append(("padding", "unused coefficient is %r" % g, None))
    # relative 1e-6 per coefficient; a coefficient that is (nearly) zero is judged by what it contributes to the
    # fitted values: 3e-10 of the largest ordinate (measured on the unchanged tree: at most 2.2e-11, on the nearly
    # degenerate nearcy tables).  (An earlier version used 1e-3 of the LARGEST coefficient as the floor, which hid
    # a leading coefficient of 4e-11 next to a slope of 0.5 on abscissae of +-1e3: seeded C17-51.)
    ymax = max(max(abs(y) for y in ys), 1e-300)
    for i in range(m):
        dev = abs(float(Fraction(got[i]) - ref[i]))
        bmax = max(max(abs(float(B[k][i])) for k in range(len(xs))), 1e-300)
        if dev > max(REL * abs(float(ref[i])), 3e-10 * ymax / bmax):
            out.append(("coefficients", "%s fit of %s [%s, perm %r]: coefficient %d = %r, exact least "
                        "squares %r" % (kind + str(names), case["set"], form, perm, i, got[i],
                                        float(ref[i])), dev / max(abs(float(ref[i])), 1e-300)))
    # residuals orthogonal to every basis function
    for j in range(m):
        dot = sum((Fraction(ys[k]) - sum(Fraction(got[i]) * B[k][i] for i in range(m))) * B[k][j]
                  for k in range(len(xs)))
        sc = sum(abs(Fraction(ys[k]) * B[k][j]) for k in range(len(xs))) + \
            sum(abs(Fraction(got[i]) * B[k][i] * B[k][j]) for i in range(m) for k in range(len(xs)))
        if abs(dot) > Fraction(REL) * max(sc, Fraction(1, 10**12)):
            out.append(("orthogonality", "%s fit of %s: residual . basis[%d] = %.3g (scale %.3g)"
                        % (kind + str(names), case["set"], j, float(dot), float(sc)),
                        float(abs(dot) / max(sc, Fraction(1, 10**300)))))
    return out, "ok"


PERM_ALL = 6


def fit_cases():
    cases = []
    for name, (xs, ys) in DATASETS.items():
        n = len(xs)
        ident = list(range(n))
        if n <= PERM_ALL:
            perms = [list(p) for p in itertools.permutations(ident)]
        else:
            step = max(1, n // 20)
            perms = [ident[r:] + ident[:r] for r in range(0, n, step)][:20] + [ident[::-1]]
        for perm in perms:
            for kind in ("linear", "quadratic"):
                cases.append({"set": name, "perm": perm, "kind": kind, "form": "lists"})
        for form in FORMS[1:]:
            for kind in ("linear", "quadratic"):
                cases.append({"set": name, "perm": ident, "kind": kind, "form": form})
            # general_fitting reads the stored points, the other two the accumulated sums: both per form
            for names in (["x2", "x", "one"], ["x", "one"]):
                cases.append({"set": name, "perm": ident, "kind": "general", "basis": names, "form": form})
        for kind, names in (("general", ["x2", "x", "one"]), ("general", ["x", "one"]),
                            ("general", ["x"]), ("general", ["one"])):
            for perm in perms[:6]:
                cases.append({"set": name, "perm": perm, "kind": kind, "basis": names, "form": "lists"})
    for names in (["expx", "x", "one"], ["x", "expx", "one"], ["one", "x", "expx"], ["expx", "one"], ["x", "expx"]):
        cases.append({"set": "ramp21", "perm": list(range(21)), "kind": "general", "basis": names, "form": "lists"})
        cases.append({"set": "ramp31", "perm": list(range(31)), "kind": "general", "basis": names, "form": "lists"})
    # every ordered pair / triple of distinct basis functions on 3 sets
    for name in ("quad6", "noisy7", "big50"):
        ident = list(range(len(DATASETS[name][0])))
        for k in (2, 3):
            for names in itertools.permutations(sorted(m_ for m_ in MENU if m_ != "expx"), k):
                cases.append({"set": name, "perm": ident, "kind": "general", "basis": list(names),
                              "form": "lists"})
    return cases


def run_fits(block, ctx):
    for case in block:
        ctx.evals += 1
        res, status = check_fit(case)
        for site, msg, dev in res:
            ctx.viol(case, msg, dev=dev, site=site)
            ctx.maxi(site, dev)
        ctx.count("status_" + status)
        if status == "ok" and (case["perm"] != sorted(case["perm"]) or case["form"] != "lists"
                               or case["kind"] == "general"):
            ctx.nt_count += 1
        ctx.outcome((case["set"], case["kind"], tuple(case.get("basis", [])), status))
        ctx.obs(case["set"], case["kind"], case.get("basis"), case["form"], status, len(res))
    ctx.sample(block[0])


# -- relations between fits ---------------------------------------------------

def check_relations(case):
    xs, ys = DATASETS[case["set"]]
    xs = [float(x) for x in xs]
    ys = [float(y) for y in ys]
    out = []
    cf = CurveFitting(xs, ys)

    def close(a, b, what):
        sc = max([abs(u) for u in a] + [abs(v) for v in b] + [1e-9])
        for u, v in zip(a, b):
            if abs(u - v) > REL * sc:
                out.append((what, "%s on %s: %r vs %r" % (what, case["set"], list(a), list(b)), abs(u - v)))
                return
    try:
        lin = cf.linear_fitting()
        g2 = cf.general_fitting(MENU["x"], MENU["one"])
        close(lin, g2[:2], "general(x,1)_vs_linear")
    except ZeroDivisionError as ex:
        out.append(("general(x,1)_vs_linear", "general(x, 1) on %s raised %r" % (case["set"], ex), None))
    if len(set(xs)) >= 3:
        try:
            q = cf.quadratic_fitting()
            g3 = cf.general_fitting(MENU["x2"], MENU["x"], MENU["one"])
            close(q, g3, "general(x2,x,1)_vs_quadratic")
        except ZeroDivisionError as ex:
            A = lsq.normal(xs, ys, basis_for("quadratic", []))[0]
            if lsq.conditioning(A) >= Fraction(1, 10**6):
                out.append(("general(x2,x,1)_vs_quadratic", "quadratic/general on %s raised %r"
                            % (case["set"], ex), None))
    # noiseless recovery
    for kind, coef in (("linear", (3.0, 0.7)), ("quadratic", (0.5, -2.0, 1.25))):
        if kind == "quadratic" and len(set(xs)) < 3:
            continue
        yy = [coef[0] * x + coef[1] if kind == "linear" else (coef[0] * x + coef[1]) * x + coef[2]
              for x in xs]
        A = lsq.normal(xs, yy, basis_for(kind, []))[0]
        if lsq.conditioning(A) < Fraction(1, 10**6):
            continue
        try:
            c2 = CurveFitting(xs, yy)
            got = c2.linear_fitting() if kind == "linear" else c2.quadratic_fitting()
            for g, c in zip(got, coef):
                if abs(g - c) > 1e-9 * max(1.0, abs(c)) * max(1.0, max(abs(x) for x in xs) ** 2):
                    out.append(("noiseless", "noiseless %s data on the abscissae of %s: got %r, "
                                "generated with %r" % (kind, case["set"], list(got), list(coef)),
                                abs(g - c)))
                    break
        except Exception as ex:
            out.append(("noiseless", "noiseless %s data on %s raised %r" % (kind, case["set"], ex), None))
    # correlation coefficient (undefined, and refused by the library, when the ordinates have no spread to
    # speak of: those sets are here for the fits only)
    if case["set"] in ("flat5", "drift6", "tiny5") or case["set"].startswith("nearcx"):
        # (nearcx: ordinates 50 +- 0.002 - the textbook formula loses seven digits to cancellation there)
        return out
    try:
        r = cf.correlation_coeff()
        if not (-1.0 - 1e-12 <= r <= 1.0 + 1e-12):
            out.append(("corr_range", "correlation %r outside [-1, 1] on %s" % (r, case["set"]), abs(r) - 1))
        for a, b in ((2.0, 5.0), (0.25, -3.0), (1000.0, 0.5)):
            r2 = CurveFitting([a * x + b for x in xs], ys).correlation_coeff()
            r3 = CurveFitting(xs, [a * y + b for y in ys]).correlation_coeff()
            if abs(r2 - r) > 1e-7 or abs(r3 - r) > 1e-7:
                out.append(("corr_affine", "correlation changes under x -> %r x + %r: %r, %r vs %r (%s)"
                            % (a, b, r2, r3, r, case["set"]), max(abs(r2 - r), abs(r3 - r))))
        rn = CurveFitting([-x for x in xs], ys).correlation_coeff()
        rm = CurveFitting(xs, [-y for y in ys]).correlation_coeff()
        if abs(rn + r) > 1e-9 or abs(rm + r) > 1e-9:
            out.append(("corr_negate", "correlation does not flip sign under negation: %r, %r vs %r"
                        % (rn, rm, r), max(abs(rn + r), abs(rm + r))))
        # exact value
        n = len(xs)
        X = [Fraction(x) for x in xs]
        Y = [Fraction(y) for y in ys]
        sx, sy = sum(X), sum(Y)
        cxy = n * sum(a * b for a, b in zip(X, Y)) - sx * sy
        vx = n * sum(a * a for a in X) - sx * sx
        vy = n * sum(b * b for b in Y) - sy * sy
        if vx > 0 and vy > 0:
            exact = float(cxy) / math.sqrt(float(vx) * float(vy))
            if abs(exact - r) > 1e-7:
                out.append(("corr_value", "correlation %r, exact %r (%s)" % (r, exact, case["set"]),
                            abs(exact - r)))
        # collinear data
        for slope in (2.5, -0.75):
            rc = CurveFitting(xs, [slope * x + 1.0 for x in xs]).correlation_coeff()
            if abs(abs(rc) - 1.0) > 1e-9 or (rc > 0) != (slope > 0):
                out.append(("corr_collinear", "collinear data (slope %r) on %s give r = %r"
                            % (slope, case["set"], rc), abs(abs(rc) - 1)))
    except Exception as ex:
        out.append(("corr_exception", "correlation on %s raised %r" % (case["set"], ex), None))
    return out


def run_relations(block, ctx):
    for case in block:
        ctx.evals += 1
        ctx.nt_count += 1
        for site, msg, dev in check_relations(case):
            ctx.viol(case, msg, dev=dev, site=site)
        ctx.outcome(case["set"])
    ctx.sample(block[0])


# -- degenerate data ----------------------------------------------------------

DEGENERATE = [
    {"xs": [1, 1, 1], "ys": [1, 2, 3], "calls": ["corr", "linear", "quadratic"]},
    {"xs": [0.1, 0.1, 0.1], "ys": [1, 2, 3], "calls": ["corr", "linear", "quadratic"]},
    {"xs": [1 / 3, 1 / 3, 1 / 3, 1 / 3], "ys": [1, 2, 3, 4], "calls": ["corr", "linear", "quadratic"]},
    {"xs": [1, 2, 3], "ys": [5, 5, 5], "calls": ["corr"]},
    {"xs": [0.1, 0.2, 0.3], "ys": [0.7, 0.7, 0.7], "calls": ["corr"]},
    {"xs": [1, 2, 3, 4], "ys": [1 / 3, 1 / 3, 1 / 3, 1 / 3], "calls": ["corr"]},
    {"xs": [1, 2, 1, 2], "ys": [1, 2, 3, 5], "calls": ["quadratic"]},
    {"xs": [0.1, 0.2, 0.1, 0.2, 0.1], "ys": [1, 2, 3, 5, 4], "calls": ["quadratic"]},
    {"xs": [2.0, 2.0], "ys": [1.0, 3.0], "calls": ["corr", "linear"]},
    {"xs": [1, 2, 3, 4, 5], "ys": [123.456] * 5, "calls": ["corr"]},
    {"xs": [1e3 / 7] * 4, "ys": [1, 2, 3, 4], "calls": ["corr", "linear", "quadratic"]},
    {"xs": [1000.0 - 0.1] * 3, "ys": [1, 2, 4], "calls": ["corr", "linear", "quadratic"]},
    {"xs": [-512.3] * 5, "ys": [1, 2, 4, 3, 0], "calls": ["corr", "linear", "quadratic"]},
    {"xs": [999.9, 999.8, 999.9, 999.8, 999.9], "ys": [1, 2, 3, 5, 4], "calls": ["quadratic"]},
    {"xs": [1, 2, 3, 4], "ys": [-987.654321] * 4, "calls": ["corr"]},
    {"xs": [1, 2, 3], "ys": [1, 4, 9], "calls": ["general_dependent"]},
    {"xs": [1, 2, 3, 4], "ys": [1, 4, 9, 11], "calls": ["general_null"]},
]


for _v in (2.7, 1.1, 12.3, 0.1, 1.0 / 3, 1e3 / 7, 999.9, -512.3, 123.456):
    for _n in (3, 6, 7, 9):
        DEGENERATE.append({"xs": [_v] * _n, "ys": [float(i * i % 5) for i in range(_n)],
                           "calls": ["corr", "linear", "quadratic", "general_x1", "general_x2x1", "general_prop"]})
# 150 .. 200 points sharing one non-round abscissa: the round-off residue of n Sxx - Sx^2 grows with n
for _k in range(0, 400):
    _v = -1000.0 + _k * 5.003 + 0.7
    for _n in (150, 190, 197, 200):
        DEGENERATE.append({"xs": [_v] * _n, "ys": [float(i * i % 5) for i in range(_n)], "calls": ["corr", "linear", "quadratic"]})
for _a, _n in ((134.4, 18), (0.1, 5), (2.7, 3), (1e3 / 7, 4), (999.9, 2), (1.0 / 3, 7), (12.3, 6)):
    DEGENERATE.append({"xs": [_a, -_a] * _n, "ys": [float((i * 7) % 5) - 0.1 * i for i in range(2 * _n)],
                       "calls": ["quadratic", "general_x2x1"]})
    DEGENERATE.append({"xs": [_a] * _n + [-_a] * _n, "ys": [float((i * 3) % 4) for i in range(2 * _n)],
                       "calls": ["quadratic", "general_x2x1"]})
for _xs in ([1.0, 2.5, 4.0, 7.5], [100.0, 250.5, 999.9], [-3.0, 1.0, 1.5, 2.0]):
    DEGENERATE.append({"xs": _xs, "ys": [float(i) - 0.3 * i * i for i in range(len(_xs))],
                       "calls": ["general_prop", "general_dependent"]})


def check_degenerate(case):
    out = []
    cf = CurveFitting([float(x) for x in case["xs"]], [float(y) for y in case["ys"]])
    for c in case["calls"]:
        try:
            if c == "corr":
                r = cf.correlation_coeff()
            elif c == "linear":
                r = cf.linear_fitting()
            elif c == "quadratic":
                r = cf.quadratic_fitting()
            elif c == "general_x1":
                r = cf.general_fitting(lambda x: x, lambda x: 1.0)
            elif c == "general_x2x1":
                r = cf.general_fitting(lambda x: x * x, lambda x: x, lambda x: 1.0)
            elif c == "general_prop":
                r = cf.general_fitting(lambda x: x, lambda x: 3.0 * x)
            elif c == "general_dependent":
                r = cf.general_fitting(lambda x: x, lambda x: 2.0 * x, lambda x: 1.0)
            else:
                r = cf.general_fitting(lambda x: 0.0, lambda x: x, lambda x: 1.0)
            out.append("%s on degenerate data %r / %r returned %r instead of raising "
                       "ZeroDivisionError" % (c, case["xs"], case["ys"], r))
        except ZeroDivisionError:
            pass
        except Exception as ex:
            out.append("%s on degenerate data %r / %r raised %r instead of ZeroDivisionError"
                       % (c, case["xs"], case["ys"], ex))
    return out


def run_degenerate(block, ctx):
    for case in block:
        ctx.evals += len(case["calls"])
        ctx.nt_count += 1
        for msg in check_degenerate(case):
            ctx.viol(case, msg, site="degenerate")
        ctx.outcome(len(case["xs"]))
    ctx.sample(block[0])


def clauses(tier):
    global PERM_ALL
    PERM_ALL = 7 if tier == "thorough" else 6
    return [
        Clause("fits", chunks(fit_cases(), 64), run_fits,
               lambda c: [m for _, m, _ in check_fit(c)[0]], floor=2000),
        Clause("relations", chunks([{"set": k} for k in DATASETS], 15), run_relations,
               lambda c: [m for _, m, _ in check_relations(c)], floor=10),
        Clause("degenerate", [DEGENERATE], run_degenerate, check_degenerate, floor=5),
    ]
