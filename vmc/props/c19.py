"""C19 - Easter, Pesach, Moslem calendar (shape S: arithmetic calendars as
successor machines / tabular definitions, every state replayed)."""
import math

from ..engine import Clause, chunks
from ..ref import calendar as cal
from ..ref import computus, hebrew, islamic
from . import c01

from pymeeus.Epoch import Epoch

PROPERTY = "C19"
LEVEL = "model_checking"
RULE = ("Easter: every year -4712..10000 vs the tabular epact Computus; Pesach: "
        "every year 1..3000 vs the molad/dehiyyot calendar; Moslem: every state "
        "(h,m,d,n) of the tabular Islamic successor machine 1..2500 AH replayed on "
        "moslem2gregorian and back, every civil day 622-07-16..3000-12-31 replayed on "
        "gregorian2moslem; every case is distinct; non-trivial = all (each state is a "
        "different date)")
ASSUMPTIONS = ["tabular Computus (Clavius) / Dershowitz-Reingold Hebrew arithmetic / "
               "tabular Islamic calendar (epoch 16 July 622 Julian, leap years "
               "(11h+14) mod 30 < 11) are the definitions the property names",
               "civil calendar reference model of C01"]
_FAST = None


def fast():
    global _FAST
    if _FAST is None:
        _FAST = cal.Fast(cal.Y_MIN, 11000)
    return _FAST


def bound(tier):
    return ("Easter all years -4712..10000; Pesach all years 1..3000; all 885 917 Moslem "
            "dates 1..2500 AH; all civil dates 622-07-16..3000-12-31 (complete in both tiers)")


# -- Easter -----------------------------------------------------------------

def check_easter(y):
    out = []
    try:
        r = Epoch.easter(y)
        m, d = r
    except Exception as ex:
        return [("easter(%d) raised %r" % (y, ex))]
    exp = computus.easter(y)
    if (m, d) != exp or not (isinstance(m, int) and isinstance(d, int)):
        out.append("easter(%d) = %r, tabular Computus gives %r" % (y, r, exp))
    if not ((m == 3 and 22 <= d <= 31) or (m == 4 and 1 <= d <= 25)):
        out.append("easter(%d) = %r outside 22 March..25 April" % (y, r))
    else:
        n = fast().n(y, m, d)
        if (cal.W0 + n) % 7 != 0:
            out.append("easter(%d) = %r is not a Sunday (weekday %d)" % (y, r, (cal.W0 + n) % 7))
        try:
            if Epoch(y, m, d).dow() != 0:
                out.append("Epoch(%d,%d,%d).dow() != 0 on Easter" % (y, m, d))
        except Exception as ex:
            out.append("Epoch(%d,%d,%d) raised %r" % (y, m, d, ex))
    for alt in (float(y),):
        try:
            if tuple(Epoch.easter(alt)) != (m, d):
                out.append("easter(%r) differs from easter(%d)" % (alt, y))
        except Exception as ex:
            out.append("easter(%r) raised %r" % (alt, ex))
    return out


def run_easter(block, ctx):
    for y in block:
        ctx.evals += 1
        ctx.states += 1
        ctx.transitions += 1
        ctx.nt_count += 1
        for msg in check_easter(y):
            ctx.viol({"year": y}, msg, site="easter")
        ctx.outcome(computus.easter(y))
    ctx.traces += 1
    ctx.obs(block[0], len(block))
    ctx.sample({"year": block[0], "computus": list(computus.easter(block[0]))})


# -- Pesach -----------------------------------------------------------------

def check_pesach(y):
    out = []
    try:
        r = Epoch.jewish_pesach(y)
        m, d = r
    except Exception as ex:
        return ["jewish_pesach(%d) raised %r" % (y, ex)]
    n = hebrew.pesach_n(y)
    exp = fast().date(n)
    if (y, m, d) != exp:
        out.append("jewish_pesach(%d) = %r, 15 Nisan (163 days before Rosh Hashanah %d) is %r"
                   % (y, r, y + 3761, exp))
    try:
        nn = fast().n(y, m, d)
        w = (cal.W0 + nn) % 7
        if w not in (0, 2, 4, 6):
            out.append("jewish_pesach(%d) = %r falls on weekday %d" % (y, r, w))
    except Exception as ex:
        out.append("jewish_pesach(%d) = %r is not a civil date (%r)" % (y, r, ex))
    return out


def run_pesach(block, ctx):
    for y in block:
        ctx.evals += 1
        ctx.states += 1
        ctx.transitions += 1
        ctx.nt_count += 1
        for msg in check_pesach(y):
            ctx.viol({"year": y, "gregorian": y >= 1583}, msg, site="pesach")
        # the two feasts of one year asked for alternately (each right after the other, both orders)
        try:
            seq = [tuple(Epoch.easter(y)), tuple(Epoch.jewish_pesach(y)), tuple(Epoch.easter(y)),
                   tuple(Epoch.jewish_pesach(y))]
            exp_e, exp_p = computus.easter(y), fast().date(hebrew.pesach_n(y))[1:]
            if seq != [exp_e, exp_p, exp_e, exp_p]:
                ctx.viol({"year": y, "gregorian": y >= 1583}, "easter / jewish_pesach of year %d asked for alternately "
                         "give %r, expected %r" % (y, seq, [exp_e, exp_p, exp_e, exp_p]), site="interleaved")
        except Exception as ex:
            ctx.viol({"year": y, "gregorian": y >= 1583}, "alternating easter / jewish_pesach raised %r" % ex,
                     site="interleaved")
        ctx.outcome(fast().date(hebrew.pesach_n(y))[1:])
    ctx.traces += 1
    ctx.obs(block[0])
    ctx.sample({"year": block[0], "15_nisan": list(fast().date(hebrew.pesach_n(block[0])))})


# -- Moslem -> civil ---------------------------------------------------------

_YSTART = {}


def _moslem_n(h, m, d):
    """Day number of the Moslem date (tabular calendar)."""
    if not _YSTART:
        _YSTART.update(dict(islamic.year_starts(1, 2501)))
    n = _YSTART[h]
    for mm in range(1, m):
        n += islamic.mlen(h, mm)
    return n + d - 1


def check_m2g(h, m, d, n, prev_civil_n=None):
    out = []
    exp = fast().date(n)
    try:
        g = Epoch.moslem2gregorian(h, m, d)
    except Exception as ex:
        return [("m2g", "moslem2gregorian(%d,%d,%d) raised %r" % (h, m, d, ex))]
    g3 = tuple(g)
    if g3 != exp or not all(float(v) == int(v) for v in g3):
        out.append(("m2g", "moslem2gregorian(%d,%d,%d) = %r, tabular calendar gives %r"
                    % (h, m, d, g3, exp)))
    # the civil result handed straight back as if it were a Moslem date (it is one whenever the year is <= 2500
    # and the day <= 29): a result remembered from the previous call must not answer this one
    Y, M, D = exp
    if 1 <= Y <= 2500 and D <= 29:
        try:
            fb = tuple(Epoch.moslem2gregorian(Y, M, D))
            n_fb = _moslem_n(Y, M, D)
            if fb != fast().date(n_fb):
                out.append(("m2g_feedback", "moslem2gregorian(%d,%d,%d) right after moslem2gregorian(%d,%d,%d) = %r, "
                            "tabular calendar gives %r" % (Y, M, D, h, m, d, fb, fast().date(n_fb))))
        except Exception as ex:
            out.append(("m2g_feedback", "moslem2gregorian(%d,%d,%d) raised %r" % (Y, M, D, ex)))
    try:
        back = tuple(Epoch.gregorian2moslem(*g3))
        if back != (h, m, d):
            out.append(("roundtrip", "gregorian2moslem(moslem2gregorian(%d,%d,%d) = %r) = %r"
                        % (h, m, d, g3, back)))
    except Exception as ex:
        out.append(("roundtrip", "gregorian2moslem(%r) raised %r" % (g3, ex)))
    return out


def run_m2g(block, ctx):
    for (h, n0) in block:
        for (hh, m, d, n) in islamic.days_of_year(h, n0):
            ctx.evals += 1
            ctx.states += 1
            ctx.transitions += 1
            ctx.nt_count += 1
            civ = fast().date(n)
            for site, msg in check_m2g(hh, m, d, n):
                ctx.viol({"h": hh, "m": m, "d": d, "n": n, "civil": list(civ)}, msg, site=site)
        ctx.outcome(islamic.ylen(h))
        ctx.traces += 1
        ctx.obs(h, n0)
    ctx.sample({"h": block[0][0], "m": 1, "d": 1, "n": block[0][1],
                "civil": list(fast().date(block[0][1]))})


def replay_m2g(case):
    return [m for _, m in check_m2g(case["h"], case["m"], case["d"], case["n"])]


# -- civil -> Moslem ---------------------------------------------------------

def check_g2m(n, hmd):
    y, mo, da = fast().date(n)
    try:
        got = tuple(Epoch.gregorian2moslem(y, mo, da))
    except Exception as ex:
        return ["gregorian2moslem(%d,%d,%d) raised %r" % (y, mo, da, ex)]
    if got != tuple(hmd):
        return ["gregorian2moslem(%d,%d,%d) = %r, tabular calendar gives %r"
                % (y, mo, da, got, tuple(hmd))]
    # the same civil day with a time of day: its last representable instant and 1e-10 day before midnight
    for dd in (math.nextafter(da + 1.0, 0.0), da + 1.0 - 1e-10, da + 0.5):
        try:
            g2 = tuple(Epoch.gregorian2moslem(y, mo, dd))
            if (g2[0], g2[1], int(g2[2])) != tuple(hmd):
                return ["gregorian2moslem(%d,%d,%r) = %r, the civil day is %r in the tabular calendar"
                        % (y, mo, dd, g2, tuple(hmd))]
        except Exception as ex:
            return ["gregorian2moslem(%d,%d,%r) raised %r" % (y, mo, dd, ex)]
    return []


N_END = None


def run_g2m(block, ctx):
    n_end = fast().n(3000, 12, 31)
    for (h, n0) in block:
        for (hh, m, d, n) in islamic.days_of_year(h, n0):
            if n > n_end:
                break
            ctx.evals += 1
            ctx.states += 1
            ctx.transitions += 1
            ctx.nt_count += 1
            for msg in check_g2m(n, (hh, m, d)):
                y, mo, da = fast().date(n)
                ctx.viol({"n": n, "civil": [y, mo, da], "civil_year": y, "civil_month": mo,
                          "civil_day": da, "moslem": [hh, m, d]}, msg, site="g2m")
        ctx.traces += 1
        ctx.obs(h)
    ctx.outcome(len(block))
    ctx.sample({"n": block[0][1], "civil": list(fast().date(block[0][1])),
                "moslem": [block[0][0], 1, 1]})


def replay_g2m(case):
    return check_g2m(case["n"], case["moslem"])


# -- thorough: independent TLA+ model of the tabular calendar, enumerated by TLC; every dumped state
#    is replayed on the implementation (and compared with the Python reference model)

TLC_WINDOWS = [1, 530, 770, 990, 1400, 2440]      # 40 years each: epoch, the three w % 1461 = 0 years,
                                                  # the present, the end of the range
TLC_SPAN = 39


def hijri_tlc_states(h0, h1, n0):
    import os
    import re
    import shutil
    import subprocess
    import tempfile
    from .. import ROOT
    tmp = tempfile.mkdtemp(prefix="vmc_tlc_")
    try:
        shutil.copy(os.path.join(ROOT, "models", "Hijri.tla"), tmp)
        with open(os.path.join(tmp, "Hijri.cfg"), "w") as f:
            f.write("CONSTANTS\n H0 = %d\n SPAN = %d\n N0 = %d\nSPECIFICATION Spec\nINVARIANT TypeOK\n"
                    % (h0, h1 - h0, n0))
        dump = os.path.join(tmp, "states")
        r = subprocess.run(["tlc", "-workers", "1", "-noGenerateSpecTE", "-deadlock", "-metadir",
                            os.path.join(tmp, "meta"), "-dump", dump, "Hijri"], cwd=tmp, env=dict(os.environ, JAVA_TOOL_OPTIONS="-Djava.io.tmpdir=" + tmp), capture_output=True,
                           text=True, timeout=1200)
        if "Model checking completed. No error has been found" not in r.stdout:
            raise RuntimeError("TLC failed:\n" + r.stdout[-2000:] + r.stderr[-500:])
        states = []
        for blk in open(dump + ".dump").read().split("State ")[1:]:
            states.append(dict((k, int(v)) for k, v in re.findall(r"/\\ (\w+) = (-?\d+)", blk)))
        return states
    finally:
        shutil.rmtree(tmp, ignore_errors=True)


def run_tlc(h0, ctx):
    h1 = h0 + TLC_SPAN
    n0 = dict(islamic.year_starts(h0, h0))[h0]
    states = hijri_tlc_states(h0, h1, n0)
    states.sort(key=lambda s: s["n"])
    ref = {}
    for (h, ns) in islamic.year_starts(h0, h1):
        for (hh, m, d, n) in islamic.days_of_year(h, ns):
            ref[n] = (hh, m, d)
    prev = None
    for s in states:
        ctx.evals += 1
        ctx.states += 1
        ctx.transitions += 1
        ctx.nt_count += 1
        msgs = check_m2g(s["h"], s["m"], s["d"], s["n"])
        if ref.get(s["n"]) != (s["h"], s["m"], s["d"]):
            msgs.append(("tlc_model", "TLA+ model puts day %d at %r, Python model at %r"
                         % (s["n"], (s["h"], s["m"], s["d"]), ref.get(s["n"]))))
        if prev is not None and s["n"] != prev + 1:
            msgs.append(("tlc_model", "TLC dump is not a chain at n=%d" % s["n"]))
        prev = s["n"]
        for site, msg in msgs:
            ctx.viol({"h": s["h"], "m": s["m"], "d": s["d"], "n": s["n"], "civil": list(fast().date(s["n"]))},
                     msg, site=site)
        ctx.outcome(s["m"])
    if len(states) != len(ref):
        ctx.viol({"h": h0, "m": 1, "d": 1, "n": n0}, "TLC dumped %d states, the Python model has %d for %d..%d AH"
                 % (len(states), len(ref), h0, h1), site="tlc_model")
    ctx.traces += 1
    ctx.count("tlc_states_dumped", len(states))
    ctx.obs(h0, len(states))
    ctx.sample({"tlc_window_AH": [h0, h1], "states": len(states), "first": states[0], "last": states[-1]})


def easter_tlc_states(y0, y1):
    import os
    import re
    import shutil
    import subprocess
    import tempfile
    from .. import ROOT
    tmp = tempfile.mkdtemp(prefix="vmc_tlc_")
    try:
        shutil.copy(os.path.join(ROOT, "models", "Easter.tla"), tmp)
        with open(os.path.join(tmp, "Easter.cfg"), "w") as f:
            f.write("CONSTANTS\n YP = %d\n YN = %d\n SPAN = %d\nSPECIFICATION Spec\nINVARIANT TypeOK\n"
                    % (max(y0, 0), max(-y0, 0), y1 - y0))
        dump = os.path.join(tmp, "states")
        r = subprocess.run(["tlc", "-workers", "1", "-noGenerateSpecTE", "-deadlock", "-metadir",
                            os.path.join(tmp, "meta"), "-dump", dump, "Easter"], cwd=tmp, env=dict(os.environ, JAVA_TOOL_OPTIONS="-Djava.io.tmpdir=" + tmp), capture_output=True,
                           text=True, timeout=1200)
        if "Model checking completed. No error has been found" not in r.stdout:
            raise RuntimeError("TLC failed:\n" + r.stdout[-2000:] + r.stderr[-500:])
        return [dict((k, int(v)) for k, v in re.findall(r"/\\ (\w+) = (-?\d+)", blk))
                for blk in open(dump + ".dump").read().split("State ")[1:]]
    finally:
        shutil.rmtree(tmp, ignore_errors=True)


def run_easter_tlc(window, ctx):
    y0, y1 = window
    states = sorted(easter_tlc_states(y0, y1), key=lambda s: s["y"])
    for s in states:
        ctx.evals += 1
        ctx.states += 1
        ctx.transitions += 1
        ctx.nt_count += 1
        y = s["y"]
        msgs = list(check_easter(y))
        try:
            got = tuple(Epoch.easter(y))
            if got != (s["mo"], s["da"]):
                msgs.append("easter(%d) = %r, Gauss's algorithm (TLA+ model) gives %r" % (y, got, (s["mo"], s["da"])))
        except Exception as ex:
            msgs.append("easter(%d) raised %r" % (y, ex))
        if computus.easter(y) != (s["mo"], s["da"]):
            msgs.append("TLA+ model (Gauss) gives %r for %d, tabular Computus %r" % ((s["mo"], s["da"]), y, computus.easter(y)))
        for msg in msgs:
            ctx.viol({"year": y}, msg, site="easter_tlc")
        ctx.outcome((s["mo"], s["da"]))
    if len(states) != y1 - y0 + 1:
        ctx.viol({"year": y0}, "TLC dumped %d states for %d years" % (len(states), y1 - y0 + 1), site="easter_tlc")
    ctx.traces += 1
    ctx.count("tlc_states_dumped", len(states))
    ctx.obs(window, len(states))
    ctx.sample({"tlc_window": list(window), "states": len(states), "last": states[-1]})


def pesach_tlc_states(a0, a1):
    import os
    import re
    import shutil
    import subprocess
    import tempfile
    from .. import ROOT
    tmp = tempfile.mkdtemp(prefix="vmc_tlc_")
    try:
        shutil.copy(os.path.join(ROOT, "models", "Pesach.tla"), tmp)
        with open(os.path.join(tmp, "Pesach.cfg"), "w") as f:
            f.write("CONSTANTS\n A0 = %d\n A1 = %d\nSPECIFICATION Spec\nINVARIANT TypeOK\n" % (a0, a1))
        dump = os.path.join(tmp, "states")
        r = subprocess.run(["tlc", "-workers", "1", "-noGenerateSpecTE", "-deadlock", "-metadir",
                            os.path.join(tmp, "meta"), "-dump", dump, "Pesach"], cwd=tmp, env=dict(os.environ, JAVA_TOOL_OPTIONS="-Djava.io.tmpdir=" + tmp), capture_output=True,
                           text=True, timeout=1200)
        if "Model checking completed. No error has been found" not in r.stdout:
            raise RuntimeError("TLC failed:\n" + r.stdout[-2000:] + r.stderr[-500:])
        return [dict((k, int(v)) for k, v in re.findall(r"/\\ (\w+) = (-?\d+)", blk))
                for blk in open(dump + ".dump").read().split("State ")[1:]]
    finally:
        shutil.rmtree(tmp, ignore_errors=True)


# day number (JDE + 0.5) of the model's day 0: fixed by ONE known date, 1 Tishri 5785 = 2024-10-03
_PESACH_OFFSET = None


def run_pesach_tlc(window, ctx):
    global _PESACH_OFFSET
    a0, a1 = window
    states = sorted(pesach_tlc_states(a0, a1), key=lambda s: s["a"])
    if _PESACH_OFFSET is None:
        anchor = pesach_tlc_states(5785, 5785)[0]
        _PESACH_OFFSET = fast().n(2024, 10, 3) - anchor["rh"]
    for s in states:
        ctx.evals += 1
        ctx.states += 1
        ctx.transitions += 1
        ctx.nt_count += 1
        a = s["a"]
        y = a - 3761
        n_rh = _PESACH_OFFSET + s["rh"]
        msgs = []
        if hebrew.rosh_hashanah_n(a) != n_rh:
            msgs.append("TLA+ model (molad in parts + dehiyyot) puts 1 Tishri %d on day %d, Python model on %d"
                        % (a, n_rh, hebrew.rosh_hashanah_n(a)))
        exp = fast().date(n_rh - 163)
        try:
            got = tuple(Epoch.jewish_pesach(y))
            if (y,) + got != exp:
                msgs.append("jewish_pesach(%d) = %r, TLA+ model gives %r" % (y, got, exp))
        except Exception as ex:
            msgs.append("jewish_pesach(%d) raised %r" % (y, ex))
        for msg in msgs:
            ctx.viol({"year": y, "gregorian": y >= 1583}, msg, site="pesach_tlc")
        ctx.outcome(exp[1:])
    if len(states) != a1 - a0 + 1:
        ctx.viol({"year": a0 - 3761}, "TLC dumped %d states for %d years" % (len(states), a1 - a0 + 1), site="pesach_tlc")
    ctx.traces += 1
    ctx.count("tlc_states_dumped", len(states))
    ctx.obs(window, len(states))
    ctx.sample({"tlc_window_AM": list(window), "states": len(states), "last": states[-1]})


# -- ordered pairs of calls: a result must not depend on which call came before ------------------------------------

_PESACH_REF = None


_EASTER_REF = None


def run_easter_pairs(block, ctx):
    """Every ordered pair (y1, y2) of years 1..3000: easter(y1) then easter(y2) (9 000 000 pairs)."""
    global _EASTER_REF
    if _EASTER_REF is None:
        _EASTER_REF = [None] + [computus.easter(y) for y in range(1, 3001)]
    ref = _EASTER_REF
    f = Epoch.easter
    for y1 in block:
        bad = 0
        for y2 in range(1, 3001):
            f(y1)
            r = f(y2)
            if (r[0], r[1]) != ref[y2]:
                bad += 1
                if bad <= 3:
                    ctx.viol({"year": y2, "after": y1}, "easter(%d) right after easter(%d) = %r, expected %r"
                             % (y2, y1, tuple(r), ref[y2]), site="easter_pair")
        ctx.evals += 6000
        ctx.transitions += 3000
        ctx.nt_count += 3000
        ctx.outcome(bad)
    ctx.traces += len(block)
    ctx.obs(block[0], block[-1])
    ctx.sample({"first_year": block[0], "second_years": [1, 3000]})


def run_pesach_pairs(block, ctx):
    """Every ordered pair (y1, y2) of years 1..3000: jewish_pesach(y1) then jewish_pesach(y2); the second answer
    must be the reference value of y2 (9 000 000 pairs; a one-slot memo with an incomplete key collides only
    for particular pairs, e.g. 76 or 235 years apart)."""
    global _PESACH_REF
    if _PESACH_REF is None:
        _PESACH_REF = [None] + [fast().date(hebrew.pesach_n(y))[1:] for y in range(1, 3001)]
    ref = _PESACH_REF
    f = Epoch.jewish_pesach
    for y1 in block:
        bad = 0
        for y2 in range(1, 3001):
            f(y1)
            r = f(y2)
            if (r[0], r[1]) != ref[y2]:
                bad += 1
                if bad <= 3:
                    ctx.viol({"year": y2, "after": y1, "gregorian": y2 >= 1583}, "jewish_pesach(%d) right after "
                             "jewish_pesach(%d) = %r, expected %r" % (y2, y1, tuple(r), ref[y2]), site="pesach_pair")
        ctx.evals += 6000
        ctx.transitions += 3000
        ctx.nt_count += 3000
        ctx.outcome(bad)
    ctx.traces += len(block)
    ctx.obs(block[0], block[-1])
    ctx.sample({"first_year": block[0], "second_years": [1, 3000]})


M2G_PAIR_DAYS = [(1, 1), (7, 15), (12, 29)]


def run_m2g_pairs(block, ctx):
    """Every ordered pair of Moslem years (h1, h2) in 1..2500 with the same month and day, for three (month, day):
    moslem2gregorian(h1, m, d) then moslem2gregorian(h2, m, d); the second answer must be the tabular date."""
    f = Epoch.moslem2gregorian
    for (m, d) in M2G_PAIR_DAYS:
        ref = [None] + [fast().date(_moslem_n(h, m, d)) for h in range(1, 2501)]
        for h1 in block:
            bad = 0
            for h2 in range(1, 2501):
                f(h1, m, d)
                r = f(h2, m, d)
                if (r[0], r[1], int(r[2])) != ref[h2]:
                    bad += 1
                    if bad <= 3:
                        ctx.viol({"h": h2, "m": m, "d": d, "after": h1}, "moslem2gregorian(%d,%d,%d) right after "
                                 "moslem2gregorian(%d,%d,%d) = %r, tabular calendar gives %r"
                                 % (h2, m, d, h1, m, d, tuple(r), ref[h2]), site="m2g_pair")
            ctx.evals += 5000
            ctx.transitions += 2500
            ctx.nt_count += 2500
            ctx.outcome(bad)
    ctx.traces += len(block)
    ctx.obs(block[0], block[-1])
    ctx.sample({"first_year": block[0], "month_day": list(M2G_PAIR_DAYS[0])})


# -- two conversions whose day numbers are whole calendar cycles apart -------------------------------------------------

_MOS = []
CYCLES = (10631, 146097, 1461)          # 30 Moslem years, 400 Gregorian years, 4 Julian years


def _mos_table():
    """Moslem date of every day number from 1 Muharram 1 to the end of the Moslem year 2500 (index n - EPOCH_N)."""
    if not _MOS:
        for h, n0 in islamic.year_starts(1, 2500):
            for (hh, m, d, n) in islamic.days_of_year(h, n0):
                _MOS.append((hh, m, d))
    return _MOS


def _cycle_partners(i, size):
    out = []
    for c in CYCLES:
        ks = range(1, size // c + 2) if c != 1461 else (1, 2, 25, 100)
        for k in ks:
            j = i + k * c
            if j < size:
                out.append(j)
    return out


def run_cycle_day_pairs(spec, ctx):
    """spec = (first index, last index, step).  For every day A of the block (index = days since 1 Muharram 1) and
    every day B a whole number of 30-year Moslem cycles (all multiples in range), of 400-year Gregorian cycles or of
    4-year Julian cycles later: the two conversions of A and then of B, and of B and then of A, against the tabular
    calendars.  A one-slot memo keyed by the place inside such a cycle answers the second call with the first date."""
    i0, i1, step = spec
    mos = _mos_table()
    size = min(len(mos), fast().n(3000, 12, 31) - islamic.EPOCH_N)
    f = fast()
    g2m, m2g = Epoch.gregorian2moslem, Epoch.moslem2gregorian
    for i in range(i0, min(i1, size), step):
        for j in _cycle_partners(i, size):
            for a, b in ((i, j), (j, i)):
                ca, cb = f.date(islamic.EPOCH_N + a), f.date(islamic.EPOCH_N + b)
                ctx.evals += 4
                try:
                    g2m(*ca)
                    r = tuple(g2m(*cb))
                    if r != mos[b]:
                        ctx.viol({"civil": list(cb), "after_civil": list(ca)}, "gregorian2moslem%r right after "
                                 "gregorian2moslem%r = %r, tabular calendar gives %r" % (cb, ca, r, mos[b]), site="g2m_cycle_pair")
                    m2g(*mos[a])
                    r = tuple(m2g(*mos[b]))
                    if (r[0], r[1], int(r[2])) != cb:
                        ctx.viol({"moslem": list(mos[b]), "after_moslem": list(mos[a])}, "moslem2gregorian%r right after "
                                 "moslem2gregorian%r = %r, tabular calendar gives %r" % (mos[b], mos[a], r, cb), site="m2g_cycle_pair")
                except Exception as ex:
                    ctx.viol({"civil": list(cb), "after_civil": list(ca)}, "conversion of the day pair raised %r" % ex,
                             site="cycle_pair_exception")
        ctx.nt_count += 1
    ctx.outcome(i0 // 100000)
    ctx.traces += 1
    ctx.obs(i0, i1)
    ctx.sample({"civil": list(f.date(islamic.EPOCH_N + i0 + 10631)), "after_civil": list(f.date(islamic.EPOCH_N + i0))})


def replay_cycle_pair(case):
    if "civil" in case:
        Epoch.gregorian2moslem(*case["after_civil"])
        r = tuple(Epoch.gregorian2moslem(*case["civil"]))
        exp = _mos_table()[fast().n(*case["civil"]) - islamic.EPOCH_N]
        return [] if r == exp else ["gregorian2moslem%r after %r = %r, expected %r" % (tuple(case["civil"]), tuple(case["after_civil"]), r, exp)]
    Epoch.moslem2gregorian(*case["after_moslem"])
    r = tuple(Epoch.moslem2gregorian(*case["moslem"]))
    exp = fast().date(_moslem_n(*case["moslem"]))
    return [] if (r[0], r[1], int(r[2])) == exp else ["moslem2gregorian%r after %r = %r, expected %r"
                                                      % (tuple(case["moslem"]), tuple(case["after_moslem"]), r, exp)]


def check_impossible(y):
    """Civil dates that do not exist are accepted silently by gregorian2moslem (it returns the Moslem date of the
    day they overflow to); moslem2gregorian of that result must still be a real civil date - the one the tabular
    calendar gives - whatever was asked just before."""
    out = []
    days = [(2, 30), (4, 31), (6, 31), (9, 31), (11, 31)]
    if cal.mlen(y, 2) == 28:
        days.append((2, 29))
    if y == 1582:
        days += [(10, dd) for dd in range(5, 15)]
    for (mo, da) in days:
        try:
            r = tuple(Epoch.gregorian2moslem(y, mo, da))
        except ValueError:
            continue
        except Exception as ex:
            out.append("gregorian2moslem(%d,%d,%d) raised %r" % (y, mo, da, ex))
            continue
        try:
            h, m, d = int(r[0]), int(r[1]), int(r[2])
            if not (1 <= h <= 2500 and 1 <= m <= 12 and 1 <= d <= 30):
                continue
            back = tuple(Epoch.moslem2gregorian(h, m, d))
            exp = fast().date(_moslem_n(h, m, d))
            if (back[0], back[1], int(back[2])) != exp:
                out.append("moslem2gregorian%r right after gregorian2moslem(%d,%d,%d) = %r, tabular calendar gives %r"
                           % ((h, m, d), y, mo, da, back, exp))
        except Exception as ex:
            out.append("moslem2gregorian%r raised %r" % (r, ex))
    return out


def run_impossible(block, ctx):
    for y in block:
        ctx.evals += 12
        ctx.nt_count += 1
        ctx.transitions += 6
        for msg in check_impossible(y):
            ctx.viol({"year": y}, msg, site="impossible_date")
        ctx.outcome(cal.mlen(y, 2))
    ctx.traces += 1
    ctx.sample({"year": block[0]})


def clauses(tier):
    hs = islamic.year_starts(1, 2500)
    n_end = fast().n(3000, 12, 31)
    hs_civil = [(h, n) for (h, n) in islamic.year_starts(1, 2460) if n <= n_end]
    return [
        Clause("easter", chunks(list(range(-4712, 10001)), 16), run_easter,
               lambda c: check_easter(c["year"]), floor=10000, shape="S"),
        Clause("pesach", chunks(list(range(1, 3001)), 8), run_pesach,
               lambda c: check_pesach(c["year"]), floor=3000, shape="S"),
        Clause("moslem_to_civil", chunks(hs, 64), run_m2g, replay_m2g, floor=800000, shape="S"),
        Clause("civil_to_moslem", chunks(hs_civil, 64), run_g2m, replay_g2m, floor=800000,
               shape="S"),
        Clause("easter_pairs", chunks(list(range(1, 3001)), 64), run_easter_pairs,
               lambda c: check_easter(c["year"]), floor=1000000, shape="H"),
        Clause("pesach_pairs", chunks(list(range(1, 3001)), 64), run_pesach_pairs,
               lambda c: check_pesach(c["year"]), floor=1000000, shape="H"),
        Clause("moslem_year_pairs", chunks(list(range(1, 2501)), 64), run_m2g_pairs,
               lambda c: [], floor=1000000, shape="H"),
        Clause("cycle_day_pairs", [(i, i + 4000, 1 if tier == "thorough" else 23) for i in range(0, 872000, 4000)],
               run_cycle_day_pairs, replay_cycle_pair, floor=20000, shape="H"),
        Clause("impossible_civil_dates", chunks(list(range(623, 3001)), 16), run_impossible,
               lambda c: check_impossible(c["year"]), floor=2000, shape="H"),
    ] + ([Clause("tlc_cross_model", TLC_WINDOWS, run_tlc, replay_m2g, floor=1000, shape="S"),
          Clause("easter_tlc_model", [(-4712, -2001), (-2000, -1), (0, 1582), (1583, 3999), (4000, 6999), (7000, 10000)],
                 run_easter_tlc, lambda c: check_easter(c["year"]), floor=10000, shape="S"),
          Clause("pesach_tlc_model", [(3762, 4761), (4762, 5761), (5762, 6761)], run_pesach_tlc,
                 lambda c: check_pesach(c["year"]), floor=3000, shape="S")]
         if tier == "thorough" and c01.tlc_available() else [])
