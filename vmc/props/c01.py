"""C01 - calendar date <-> Julian Day bijection (shape S: successor machine +
lock-step conformance on every state)."""
import datetime
import os
import subprocess
import tempfile
import shutil

from .. import ROOT
from ..engine import Clause, chunks
from ..ref import calendar as cal

from pymeeus.Epoch import Epoch

PROPERTY = "C01"
LEVEL = "model_checking"
RULE = ("every state (y,m,d,n) of the civil-calendar successor machine from "
        "-4712-01-01 to 6000-12-31 is replayed on Epoch (jde == n-0.5, get_date "
        "== (y,m,d), step == 1.0); every (year,month) gets day 0 / day L+1 "
        "rejection and all month spellings; non-trivial = first/last day of a "
        "month, 29 February, any day of 1582, or a rejected day")
ASSUMPTIONS = ["the reference model is the calendar as stated in the property "
               "(Julian through 1582-10-04, Gregorian from 1582-10-15)",
               "float == comparison of JDE values (all are exact half-integers)"]
Y0, Y1 = -4712, 6000


def bound(tier):
    b = "all civil days %d-01-01..%d-12-31, all months x {day 0, day L+1}" % (Y0, Y1)
    if tier == "thorough":
        b += "; TLC cross-model on 11 windows of 40 years, every dumped state replayed"
    return b


def check_day(y, m, d, n, prev_jde=None):
    """Slow path: full check of one state, returns list of messages."""
    out = []
    try:
        e = Epoch(y, m, d)
        j = e.jde()
        got = e.get_date()
    except Exception as ex:
        return ["Epoch(%d,%d,%d) raised %r" % (y, m, d, ex)]
    if j != n - 0.5:
        out.append("Epoch(%d,%d,%d).jde() = %r, model %r" % (y, m, d, j, n - 0.5))
    if got != (y, m, float(d)) or type(got[2]) is not float:
        out.append("get_date() = %r, expected %r" % (got, (y, m, float(d))))
    if prev_jde is not None and j - prev_jde != 1.0:
        out.append("step from previous civil day = %r, expected 1.0" % (j - prev_jde))
    return out


def run_walk(block, ctx):
    ys = block
    for (y, n0) in ys:
        prev = None
        if y > Y0:
            # JDE of 31 December of the previous year, from the implementation
            try:
                prev = Epoch(y - 1, 12, 31).jde()
            except Exception:
                prev = None
        for (yy, m, d, n, w, doy) in cal.days_of_year(y, n0):
            ctx.evals += 1
            ctx.states += 1
            ctx.transitions += 1
            ok = True
            try:
                e = Epoch(yy, m, d)
                j = e._jde
                got = e.get_date()
                if j != n - 0.5 or got != (yy, m, float(d)) or \
                        (prev is not None and j - prev != 1.0):
                    ok = False
            except Exception:
                ok = False
                j = None
            if ok and d in (1, 15) and yy >= 1960:
                # read back once with a keyword (UTC conversion) and then plainly again: the plain date of the
                # object must not remember the converted one
                try:
                    e.get_date(utc=True)
                    e.get_full_date(leap_seconds=20)
                    if d == 1 and yy >= 1972:
                        # another object is built from a UTC date in the last 30 s of the previous day (its TT
                        # instant already lies in this day) before this object is read
                        py, pm, pd = cal_fast().date(n - 1)
                        Epoch(py, pm, pd, 23, 59, 30.0, utc=True)
                        Epoch(py, pm, pd, 23, 59, 55.0, leap_seconds=35)
                    g2 = e.get_date()
                    if g2 != (yy, m, float(d)):
                        ctx.viol({"y": yy, "m": m, "d": d, "n": n, "prev": prev},
                                 "get_date() = %r after get_date(utc=True) on the same object, expected %r"
                                 % (g2, (yy, m, float(d))), site="readback_after_keyword")
                except Exception as ex:
                    ctx.viol({"y": yy, "m": m, "d": d, "n": n, "prev": prev},
                             "keyword read-back raised %r" % ex, site="readback_after_keyword")
            if not ok:
                msgs = check_day(yy, m, d, n, prev)
                if not msgs:
                    raise RuntimeError("fast/slow path disagree at %r" % ((yy, m, d),))
                for msg in msgs:
                    ctx.viol({"y": yy, "m": m, "d": d, "n": n, "prev": prev},
                             msg, site="Epoch(y,m,d)")
            prev = j
            if d == 1 or m == 2 and d == 29 or yy == 1582 or d == cal.mlen(yy, m):
                ctx.nt_count += 1
            ctx.outcome((n - (0 if j is None else j)))
        ctx.obs(y, prev)
        ctx.traces += 1
    ctx.sample({"y": ys[0][0], "m": 1, "d": 1, "n": ys[0][1],
                "expect_jde": ys[0][1] - 0.5})


def replay_walk(case):
    return check_day(case["y"], case["m"], case["d"], case["n"], case.get("prev"))


def month_forms(y, m):
    s, l = cal.SHORT[m - 1], cal.LONG[m - 1]
    return [("int", m), ("float", float(m)), ("short", s), ("long", l),
            ("short_lower", s.lower()), ("short_upper", s.upper()),
            ("long_lower", l.lower()), ("long_upper", l.upper())]


def check_month(y, m, n_first):
    out = []
    L = cal.mlen(y, m)
    # ONE object holding the last day of the month with a time of day is then set() to the day past the month's end
    try:
        for bad in (L + 1, L + 1.25):
            e = Epoch(y, m, L + 0.75)       # (a refused set() leaves the object at JDE 0: a fresh one each time)
            try:
                e.set(y, m, bad)
                out.append(("reject", "Epoch(%d,%d,%r).set(%d,%d,%r) accepted, month has %d days" % (y, m, L + 0.75, y, m, bad, L)))
            except ValueError:
                pass
    except Exception as ex:
        out.append(("reject", "set() to a day past the end of %d-%d raised %r" % (y, m, ex)))
    for dd in (0, L + 1, L + 2, -1):
        for ctor in ("args", "tuple"):
            try:
                if ctor == "args":
                    Epoch(y, m, dd)
                else:
                    Epoch((y, m, dd))
                out.append(("reject", "Epoch(%d,%d,%d) [%s] accepted, month has %d days"
                            % (y, m, dd, ctor, L)))
            except ValueError:
                pass
            except Exception as ex:
                out.append(("reject", "Epoch(%d,%d,%d) [%s] raised %r instead of ValueError"
                            % (y, m, dd, ctor, ex)))
    # the same limits with the day given as a float (a day with decimals is a documented input):
    # L + 1.0 and L + 1.5 are past the end of the month, L + 0.999 is its last evening
    for dd in (float(L + 1), L + 1.5, 0.0, 0.5):
        try:
            Epoch(y, m, dd)
            out.append(("reject", "Epoch(%d,%d,%r) accepted, month has %d days" % (y, m, dd, L)))
        except ValueError:
            pass
        except Exception as ex:
            out.append(("reject", "Epoch(%d,%d,%r) raised %r instead of ValueError" % (y, m, dd, ex)))
    try:
        if Epoch(y, m, L + 0.999).jde() != Epoch(y, m, L).jde() + 0.999 and \
                abs(Epoch(y, m, L + 0.999).jde() - (Epoch(y, m, L).jde() + 0.999)) > 1e-9:
            out.append(("accept", "Epoch(%d,%d,%r) is not 0.999 day after day %d" % (y, m, L + 0.999, L)))
    except Exception as ex:
        out.append(("accept", "Epoch(%d,%d,%r) rejected: %r" % (y, m, L + 0.999, ex)))
    # first / last day given as a datetime.date (proleptic Gregorian labels: from 1582-10-15 on they are the
    # civil calendar; before, the library documents that a date object is read as given)
    if 1 <= y <= 9999:
        n_last_ = n_first + L - 1 - (10 if (y == 1582 and m == 10) else 0)
        for dd, nn in ((1, n_first), (L, n_last_)):
            try:
                dobj = datetime.date(y, m, dd)
            except ValueError:
                continue            # 29 February of a Julian century year has no datetime.date
            try:
                j = Epoch(dobj).jde()
                if j != nn - 0.5:
                    out.append(("form", "Epoch(date(%d,%d,%d)) = %r, model %r" % (y, m, dd, j, nn - 0.5)))
            except Exception as ex:
                out.append(("form", "Epoch(date(%d,%d,%d)) raised %r" % (y, m, dd, ex)))
    # last day must be accepted
    try:
        Epoch(y, m, L)
    except Exception as ex:
        out.append(("accept", "Epoch(%d,%d,%d) rejected: %r" % (y, m, L, ex)))
    # month spellings and container forms on the first and the last day, and
    # rejection of day L+1 under every spelling
    n_last = n_first + L - 1 - (10 if (y == 1582 and m == 10) else 0)
    for name, mv in month_forms(y, m):
        for ctor in ("args", "tuple", "list"):
            for dd, nn in ((1, n_first), (L, n_last)):
                try:
                    if ctor == "args":
                        e = Epoch(y, mv, dd)
                    elif ctor == "tuple":
                        e = Epoch((y, mv, dd))
                    else:
                        e = Epoch([y, mv, dd])
                    j = e.jde()
                    g = e.get_date()
                except Exception as ex:
                    out.append(("form", "Epoch(%d,%r,%d) [%s] raised %r" % (y, mv, dd, ctor, ex)))
                    continue
                if j != nn - 0.5 or g != (y, m, float(dd)):
                    out.append(("form", "Epoch(%d,%r,%d) [%s]: jde %r date %r, model %r"
                                % (y, mv, dd, ctor, j, g, nn - 0.5)))
        try:
            Epoch(y, mv, L + 1)
            out.append(("reject", "Epoch(%d,%r,%d) accepted, month has %d days" % (y, mv, L + 1, L)))
        except ValueError:
            pass
        except Exception as ex:
            out.append(("reject", "Epoch(%d,%r,%d) raised %r instead of ValueError"
                        % (y, mv, L + 1, ex)))
    return out


def run_months(block, ctx):
    for (y, n0) in block:
        n = n0
        for m in range(1, 13):
            msgs = check_month(y, m, n)
            ctx.evals += 8 + 1 + 48 + 8
            ctx.nt_count += 1
            ctx.states += 1
            ctx.transitions += 8   # rejected transitions out of the month
            for kind, msg in msgs:
                ctx.viol({"y": y, "m": m, "n_first": n}, msg, site=kind)
            ctx.outcome(cal.mlen(y, m))
            n += cal.mlen(y, m)
            if y == 1582 and m == 10:
                n -= 10
        ctx.obs(y, n)
    ctx.sample({"y": block[0][0], "m": 2, "len": cal.mlen(block[0][0], 2)})


def replay_months(case):
    return [m for _, m in check_month(case["y"], case["m"], case["n_first"])]


def run_anchors(_, ctx):
    for case in anchor_cases():
        ctx.evals += 1
        ctx.nt_count += 1
        ctx.states += 1
        ctx.transitions += 1
        for msg in replay_anchor(case):
            ctx.viol(case, msg, site="anchor")
        ctx.outcome(case["expect"])
        ctx.sample(case)


def anchor_cases():
    return [
        {"args": [-4712, 1, 1.5], "what": "jde", "expect": 0.0},
        {"args": [1858, 11, 17], "what": "mjd", "expect": 0.0},
        {"args": [2000, 1, 1.5], "what": "jde", "expect": 2451545.0},
        {"args": [1582, 10, 4], "what": "jde", "expect": 2299159.5},
        {"args": [1582, 10, 15], "what": "jde", "expect": 2299160.5},
        {"args": [1858, 11, 17], "what": "jde", "expect": 2400000.5},
    ]


def replay_anchor(case):
    try:
        e = Epoch(*case["args"])
        v = e.mjd() if case["what"] == "mjd" else e.jde()
    except Exception as ex:
        return ["Epoch%r raised %r" % (tuple(case["args"]), ex)]
    if v != case["expect"]:
        return ["Epoch%r.%s() = %r, expected %r"
                % (tuple(case["args"]), case["what"], v, case["expect"])]
    return []


# ---------------------------------------------------------------------------
# thorough: independent TLA+ model enumerated by TLC; every dumped state is
# replayed on the implementation.

TLC_WINDOWS = [-4712, -20, 1560, 1590, 1680, 1780, 1880, 1980, 2080, 3990, 5960]


def tlc_available():
    return shutil.which("tlc") is not None


def tlc_states(y0, y1, n0, w0):
    """Run TLC on models/Calendar.tla for years y0..y1 and return the dumped
    states as dicts."""
    import re
    tmp = tempfile.mkdtemp(prefix="vmc_tlc_")
    try:
        shutil.copy(os.path.join(ROOT, "models", "Calendar.tla"), tmp)
        with open(os.path.join(tmp, "Calendar.cfg"), "w") as f:
            f.write("CONSTANTS\n YP = %d\n YN = %d\n SPAN = %d\n N0 = %d\n W0 = %d\n"
                    "SPECIFICATION Spec\nINVARIANT TypeOK\n"
                    % (max(y0, 0), max(-y0, 0), y1 - y0, n0, w0))
        dump = os.path.join(tmp, "states")
        r = subprocess.run(
            ["tlc", "-workers", "1", "-noGenerateSpecTE", "-deadlock",
             "-metadir", os.path.join(tmp, "meta"), "-dump", dump,
             "Calendar"], cwd=tmp, env=dict(os.environ, JAVA_TOOL_OPTIONS="-Djava.io.tmpdir=" + tmp), capture_output=True, text=True, timeout=1200)
        if "Model checking completed. No error has been found" not in r.stdout:
            raise RuntimeError("TLC failed:\n" + r.stdout[-2000:] + r.stderr[-500:])
        txt = open(dump + ".dump").read()
        states = []
        for blk in txt.split("State ")[1:]:
            d = {}
            for k, v in re.findall(r"/\\ (\w+) = (-?\d+)", blk):
                d[k] = int(v)
            states.append(d)
        return states
    finally:
        shutil.rmtree(tmp, ignore_errors=True)


def run_tlc(window, ctx):
    y0 = window
    y1 = y0 + 39
    s0 = cal.year_start(y0)
    states = tlc_states(y0, y1, s0[3], s0[4])
    states.sort(key=lambda s: s["n"])
    prev = None
    for s in states:
        ctx.evals += 1
        ctx.states += 1
        ctx.transitions += 1
        msgs = check_day(s["y"], s["m"], s["d"], s["n"], None)
        # the TLA+ model must also agree with the Python model (cross-model)
        if cal_fast().n(s["y"], s["m"], s["d"]) != s["n"]:
            msgs.append("TLA+ model n=%d disagrees with Python model n=%d"
                        % (s["n"], cal_fast().n(s["y"], s["m"], s["d"])))
        if prev is not None and s["n"] != prev + 1:
            msgs.append("TLC dump is not a chain at n=%d" % s["n"])
        prev = s["n"]
        for msg in msgs:
            ctx.viol({"y": s["y"], "m": s["m"], "d": s["d"], "n": s["n"]}, msg,
                     site="tlc")
        if s["d"] == 1:
            ctx.nt_count += 1
        ctx.outcome(s["w"])
    ctx.traces += 1
    ctx.count("tlc_states_dumped", len(states))
    ctx.obs(y0, len(states))
    ctx.sample({"tlc_window": [y0, y1], "states": len(states),
                "first": states[0], "last": states[-1]})


# -- ordered pairs of constructions whose (year, month) would collide under a lossy memo key -------------------------

def collision_pairs():
    """Pairs of (year, month) that a careless key would confuse: the digits of year and month written without a
    separator (2001|3 = 200|13 ...), with the month as given and as shifted by Meeus' algorithm (January and February
    count as months 13 and 14 of the previous year), and years of equal magnitude and opposite sign."""
    pairs = set()
    for shifted in (False, True):
        groups = {}
        for y in range(Y0, Y1 + 1):
            for m in range(1, 13):
                yk, mk = (y - 1, m + 12) if (shifted and m <= 2) else (y, m)
                groups.setdefault(str(yk) + str(mk), []).append((y, m))
        for g in groups.values():
            if len(g) > 1:
                for a in g:
                    for b in g:
                        if a != b:
                            pairs.add((a, b))
    for y in range(1, 4713):
        for m in (2, 3, 12):
            pairs.add(((-y, m), (y, m)))
            pairs.add(((y, m), (-y, m)))
    return sorted(pairs)


def _month_probe(y, m):
    """JDE of the 5th, acceptance of the last day, refusal of the day after it: None or a message."""
    L = cal.mlen(y, m)
    if (y, m) == (1582, 10):
        return None
    j = Epoch(y, m, 5).jde()
    if j != cal.day_number(y, m, 5) - 0.5:
        return "Epoch(%d,%d,5).jde() = %r, calendar gives %r" % (y, m, j, cal.day_number(y, m, 5) - 0.5)
    g = Epoch(y, m, 5).get_date()
    if g != (y, m, 5.0):
        return "Epoch(%d,%d,5).get_date() = %r" % (y, m, g)
    try:
        if Epoch(y, m, L).jde() != cal.day_number(y, m, L) - 0.5:
            return "Epoch(%d,%d,%d).jde() wrong" % (y, m, L)
    except ValueError:
        return "Epoch(%d,%d,%d) refused, the month has %d days" % (y, m, L, L)
    try:
        Epoch(y, m, L + 1)
        return "Epoch(%d,%d,%d) accepted, the month has %d days" % (y, m, L + 1, L)
    except ValueError:
        return None


def check_collision_pair(case):
    (y1, m1), (y2, m2) = case["first"], case["then"]
    try:
        _month_probe(y1, m1)
        Epoch(y1, m1, cal.mlen(y1, m1))         # the last thing seen is an accepted date of the first month
        r = _month_probe(y2, m2)
    except Exception as ex:
        return ["after %r: probing %r raised %r" % ((y1, m1), (y2, m2), ex)]
    return ["right after dates of %d-%02d: %s" % (y1, m1, r)] if r else []


def run_collision_pairs(block, ctx):
    for a, b in block:
        ctx.evals += 12
        ctx.transitions += 1
        ctx.nt_count += 1
        case = {"first": list(a), "then": list(b)}
        for msg in check_collision_pair(case):
            ctx.viol(case, msg, site="collision_pair")
    ctx.outcome(len(block))
    ctx.traces += 1
    ctx.obs(block[0], block[-1])
    ctx.sample({"first": list(block[0][0]), "then": list(block[0][1])})


# -- decode a Julian-calendar day, then the Gregorian day a whole number of 400-year cycles later --------------------

def run_cycle_pairs(spec, ctx):
    """spec = (first day number, last day number, step): for every Julian-calendar day number z in the block the
    date of z is read, then the date of z + k * 146 097 for the first one or two k that land in the Gregorian
    calendar; both against the reference calendar.  (And the other way round.)  A memo that replays month and day
    across a whole number of Gregorian cycles must not be fed by a Julian date."""
    z0, z1, step = spec
    f = cal_fast()
    for z in range(z0, z1, step):
        k = (2299161 - z + 146096) // 146097
        for kk in (k, k + 1):
            z2 = z + kk * 146097
            if z2 > f.n(Y1, 12, 31):
                continue
            for a, b in ((z, z2), (z2, z)):
                ctx.evals += 2
                try:
                    ga = Epoch(float(a)).get_date()
                    gb = Epoch(float(b)).get_date()
                except Exception as ex:
                    ctx.viol({"first": a, "then": b}, "get_date raised %r" % ex, site="cycle_pair")
                    continue
                ya, ma, da = f.date(a)
                yb, mb, db = f.date(b)
                if ga != (ya, ma, da + 0.5) or gb != (yb, mb, db + 0.5):
                    ctx.viol({"first": a, "then": b}, "Epoch(%r).get_date() = %r then Epoch(%r).get_date() = %r, calendar "
                             "gives %r and %r" % (float(a), ga, float(b), gb, (ya, ma, da + 0.5), (yb, mb, db + 0.5)),
                             site="cycle_pair")
        ctx.nt_count += 1
    ctx.outcome(z0 // 146097)
    ctx.obs(z0, z1)
    ctx.sample({"first": z0, "then": z0 + ((2299161 - z0 + 146096) // 146097) * 146097})


def replay_cycle_pair(case):
    f = cal_fast()
    a, b = case["first"], case["then"]
    ga = Epoch(float(a)).get_date()
    gb = Epoch(float(b)).get_date()
    ya, ma, da = f.date(a)
    yb, mb, db = f.date(b)
    if ga != (ya, ma, da + 0.5) or gb != (yb, mb, db + 0.5):
        return ["Epoch(%r).get_date() = %r then Epoch(%r).get_date() = %r" % (float(a), ga, float(b), gb)]
    return []


# -- histories over the static helpers and the constructor: each sequence in a freshly forked process --------------

SH_YEARS = [1500, 1582, 1600, 1900, 2000, -4, 0, 100, 4, 1501]


def static_ops():
    """Operation alphabet: (group, name, args).  Groups: ('m', month) and ('y', year)."""
    ops = []
    for m in range(1, 13):
        s, l = cal.SHORT[m - 1], cal.LONG[m - 1]
        for tag, x in (("int", m), ("short", s), ("long", l), ("short_lower", s.lower())):
            ops.append((("m", m), "get_month", [tag, x, False]))
            ops.append((("m", m), "get_month", [tag, x, True]))
            ops.append((("m", m), "ctor_month", [tag, x]))
    for y in SH_YEARS:
        g = ("y", y)
        ops += [(g, "is_leap", [y]), (g, "is_leap", [float(y)]), (g, "is_leap_frac", [y + 0.5]),
                (g, "is_leap_frac", [y + 0.25]), (g, "ctor_feb", [y, 29]), (g, "ctor_feb", [y, 28]),
                (g, "leap_method", [y]), (g, "is_julian", [y, 10, 4]), (g, "is_julian", [y, 10, 15])]
    return ops


def do_static(name, args):
    """Runs one operation; returns None or a message (absolute oracle from the reference calendar)."""
    if name == "get_month":
        tag, x, as_string = args
        m = [i for i in range(1, 13) if x in (i, cal.SHORT[i - 1], cal.LONG[i - 1], cal.SHORT[i - 1].lower())][0]
        r = Epoch.get_month(x, as_string=as_string)
        exp = cal.LONG[m - 1] if as_string else m
        if r != exp or type(r) is not type(exp):
            return "Epoch.get_month(%r, as_string=%r) = %r, expected %r" % (x, as_string, r, exp)
    elif name == "ctor_month":
        tag, x = args
        m = [i for i in range(1, 13) if x in (i, cal.SHORT[i - 1], cal.LONG[i - 1], cal.SHORT[i - 1].lower())][0]
        j = Epoch(2001, x, 15).jde()
        exp = cal.day_number(2001, m, 15) - 0.5
        if j != exp:
            return "Epoch(2001, %r, 15).jde() = %r, expected %r" % (x, j, exp)
    elif name == "is_leap":
        r = Epoch.is_leap(args[0])
        if r is not cal.leap(int(args[0])) and r != cal.leap(int(args[0])):
            return "Epoch.is_leap(%r) = %r" % (args[0], r)
    elif name == "is_leap_frac":
        Epoch.is_leap(args[0])          # the answer for a non-integer year is not specified; only its after-effects
    elif name == "ctor_feb":
        y, d = args
        ok = d <= cal.mlen(y, 2)
        try:
            j = Epoch(y, 2, d).jde()
        except ValueError:
            return None if not ok else "Epoch(%d, 2, %d) refused, February %d has %d days" % (y, d, y, cal.mlen(y, 2))
        if not ok:
            return "Epoch(%d, 2, %d) accepted, February %d has %d days" % (y, d, y, cal.mlen(y, 2))
        if j != cal.day_number(y, 2, d) - 0.5:
            return "Epoch(%d, 2, %d).jde() = %r" % (y, d, j)
    elif name == "leap_method":
        r = Epoch(args[0], 6, 1).leap()
        if r != cal.leap(args[0]):
            return "Epoch(%d, 6, 1).leap() = %r" % (args[0], r)
    elif name == "is_julian":
        y, m, d = args
        r = Epoch.is_julian(y, m, d)
        if r != ((y, m, d) < (1582, 10, 15)):
            return "Epoch.is_julian(%d, %d, %d) = %r" % (y, m, d, r)
    return None


def check_static_history(case):
    """The sequence runs in a freshly forked process (class-level state of the library starts as imported);
    the LAST operation is judged (the earlier ones have been judged as the last of their own prefix)."""
    from .c20 import run_in_fork
    seq = case["ops"]

    def body():
        for name, args in seq[:-1]:
            try:
                do_static(name, args)
            except Exception:
                pass
        try:
            return do_static(*seq[-1])
        except Exception as ex:
            return "raised %r" % (ex,)
    kind, res = run_in_fork(body)
    if kind != "ok":
        return ["child failed: %s" % (res,)]
    if res:
        return ["after %s: %s" % (", ".join("%s%r" % (n, tuple(a)) for n, a in seq[:-1]) or "nothing", res)]
    return []


def static_sequences(tier):
    ops = static_ops()
    seqs = [[(n, a)] for _, n, a in ops]
    for ga, na, aa in ops:
        for gb, nb, ab in ops:
            if ga == gb or tier == "thorough" or (ga[0] == gb[0] == "y"):
                seqs.append([(na, aa), (nb, ab)])
    groups = {}
    for g, n, a in ops:
        groups.setdefault(g, []).append((n, a))
    for g, lst in sorted(groups.items()):
        if g[0] == "m" and tier != "thorough" and g[1] not in (2, 10):
            continue
        for a in lst:
            for b in lst:
                for c in lst:
                    if a != b and b != c:
                        seqs.append([a, b, c])
    return [{"ops": [[n, a] for n, a in q]} for q in seqs]


def run_static_history(block, ctx):
    for case in block:
        ctx.evals += len(case["ops"])
        ctx.traces += 1
        ctx.nt_count += 1
        res = check_static_history(case)
        for msg in res:
            ctx.viol(case, msg, site="static_history")
        ctx.outcome((case["ops"][-1][0], len(case["ops"]), len(res)))
    ctx.obs(block[0]["ops"][0][0], len(block))
    ctx.sample(block[0])


_FAST = None


def cal_fast():
    global _FAST
    if _FAST is None:
        _FAST = cal.Fast()
    return _FAST


def clauses(tier):
    ys = cal.year_starts(Y0, Y1)
    blocks = chunks(ys, 96)
    out = [
        Clause("walk", blocks, run_walk, replay_walk, floor=100000, shape="S"),
        Clause("months", chunks(ys, 48), run_months, replay_months,
               floor=100000, shape="S"),
        Clause("anchors", [0], run_anchors, replay_anchor, floor=3, shape="S"),
        Clause("cycle_pairs", [(z, min(z + 9200, 2299161), 1 if tier == "thorough" else 3) for z in range(0, 2299161, 9200)],
               run_cycle_pairs, replay_cycle_pair, floor=100000, shape="H"),
        Clause("key_collision_pairs", chunks(collision_pairs(), 64), run_collision_pairs, check_collision_pair,
               floor=10000, shape="H"),
        Clause("static_history", chunks(static_sequences(tier), 64), run_static_history, check_static_history,
               floor=5000, shape="H"),
    ]
    if tier == "thorough" and tlc_available():
        out.append(Clause("tlc_cross_model", TLC_WINDOWS, run_tlc, replay_walk,
                          floor=100, shape="S"))
    return out
