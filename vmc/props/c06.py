"""C06 - precession is a rigid, invertible rotation, consistent across routes
(L with depth-2/3 chains: there-and-back, A->B->C)."""
import itertools
import math

from ..engine import Clause, chunks
from ..ref import sphere as S
from ..ref import precession as PREC

from pymeeus.Angle import Angle
from pymeeus.Epoch import Epoch
from pymeeus.Coordinates import (precession_equatorial, precession_ecliptical, precession_newcomb,
                                 mean_obliquity, equatorial2ecliptical, ecliptical2equatorial,
                                 orbital_equinox2equinox, p_motion_equa2eclip, motion_in_space)

PROPERTY = "C06"
LEVEL = "exploration"
RULE = ("all ordered pairs of 11 epochs (J2000 +- {0, .2884, .5, 1, 2, 5} centuries; 15 with +-10, "
        "+-20 for identity and rigidity) x 110 directions (5 longitudes x 22 latitudes incl. +-90, "
        "+-89.9, +-89, +-86, +-85.1, +-85, +-84.9); all ordered triples of a 5-epoch subset x 20 "
        "directions for composition; non-trivial = |latitude| >= 84.9 (near-pole branch or its "
        "seam) or a non-zero interval of >= 1 century")
ASSUMPTIONS = ["vector-algebra oracle for angles on the sphere", "proper motions are degrees/year "
               "as documented; linearity is judged by second differences over t, 2t, 3t"]

J2000 = 2451545.0
CENT = [0.0, 0.2884, -0.2884, 0.5, -0.5, 1.0, -1.0, 2.0, -2.0, 5.0, -5.0, 0.01, -0.01, 4.0, -4.0]
CENT_WIDE = CENT + [10.0, -10.0, 20.0, -20.0]
LONS = [0.0, 41.0, 123.4, 200.0, 359.9]
LATS = [90.0, 89.9, 89.0, 86.0, 85.1, 85.0, 84.9, 60.0, 30.0, 49.2, 0.0]
LATS = sorted(set(LATS + [-x for x in LATS]))


def bound(tier):
    if tier == "thorough":
        return "all ordered pairs of 57 epochs (J2000 +- 0..20 centuries, every whole century and the seam values) x 360 directions; 125 epoch triples x 20 directions"
    return "169 (289) ordered epoch pairs x 110 directions; 125 epoch triples x 20 directions"


def ep(c):
    return Epoch(J2000 + 36525.0 * c)


def check_pair(case):
    c0, c1, lon, lat = case["c0"], case["c1"], case["lon"], case["lat"]
    e0, e1 = ep(c0), ep(c1)
    j0, j1 = e0.jde(), e1.jde()
    wide = abs(c0) > 5 or abs(c1) > 5
    out = []
    a, d = Angle(lon), Angle(lat)
    plon, plat = lon + 10.0, max(-90.0, min(90.0, lat - 7.0))

    def run(fn, *args):
        return fn(*args)
    # ---- equatorial
    try:
        a1, d1 = precession_equatorial(e0, e1, a, d)
        if not (isinstance(a1, Angle) and isinstance(d1, Angle)):
            raise TypeError("returned %r" % ((a1, d1),))
        if a._deg != lon or d._deg != lat or e0.jde() != j0 or e1.jde() != j1:
            out.append(("mutation", "precession_equatorial modified its arguments", None))
        if not (-90.0 <= d1._deg <= 90.0):
            out.append(("equ_range", "precession_equatorial(%r->%r) of (%r,%r): declination %r"
                        % (c0, c1, lon, lat, d1._deg), None))
        rr = PREC.equatorial(c0, c1 - c0, lon, lat)
        s = S.sep_ll(a1._deg, d1._deg, rr[0], rr[1])
        if not s <= 1e-9:
            out.append(("equ_reference", "precession_equatorial(%r->%r) of (%r,%r) = (%r,%r), independent IAU 1976 "
                        "rotation (%r,%r): %.3g deg" % (c0, c1, lon, lat, a1._deg, d1._deg, rr[0], rr[1], s), s))
        if c0 == c1:
            s = S.sep_ll(lon, lat, a1._deg, d1._deg)
            if not s <= 1e-9:
                out.append(("equ_identity", "precession_equatorial over a zero interval moves (%r,%r) "
                            "to (%r,%r): %.3g deg" % (lon, lat, a1._deg, d1._deg, s), s))
        b1, c1_ = precession_equatorial(e0, e1, Angle(plon), Angle(plat))
        s0 = S.sep_ll(lon, lat, plon, plat)
        s1 = S.sep_ll(a1._deg, d1._deg, b1._deg, c1_._deg)
        if not abs(s0 - s1) <= 1e-9:
            out.append(("equ_rigidity", "precession_equatorial(%r->%r) changes the angle between (%r,%r) "
                        "and (%r,%r): %r -> %r" % (c0, c1, lon, lat, plon, plat, s0, s1), abs(s0 - s1)))
        if not wide:
            a2, d2 = precession_equatorial(e1, e0, a1, d1)
            s = S.sep_ll(lon, lat, a2._deg, d2._deg)
            if not s <= 1e-9:
                out.append(("equ_roundtrip", "precession_equatorial %r->%r->%r of (%r,%r) returns (%r,%r): "
                            "%.3g deg" % (c0, c1, c0, lon, lat, a2._deg, d2._deg, s), s))
    except Exception as ex:
        out.append(("equ_exception", "precession_equatorial(%r->%r, (%r,%r)) raised %r"
                    % (c0, c1, lon, lat, ex), None))
        a1 = None
    # ---- ecliptical
    try:
        l1, b1 = precession_ecliptical(e0, e1, Angle(lon), Angle(lat))
        if c0 == c1:
            s = S.sep_ll(lon, lat, l1._deg, b1._deg)
            if not s <= 1e-9:
                out.append(("ecl_identity", "precession_ecliptical over a zero interval moves (%r,%r) by "
                            "%.3g deg" % (lon, lat, s), s))
        if not wide:
            l2, b2 = precession_ecliptical(e1, e0, l1, b1)
            s = S.sep_ll(lon, lat, l2._deg, b2._deg)
            if not s <= 1e-6:
                out.append(("ecl_roundtrip", "precession_ecliptical %r->%r->%r of (%r,%r): %.3g deg"
                            % (c0, c1, c0, lon, lat, s), s))
            m1, n1 = precession_ecliptical(e0, e1, Angle(plon), Angle(plat))
            s0 = S.sep_ll(lon, lat, plon, plat)
            s1 = S.sep_ll(l1._deg, b1._deg, m1._deg, n1._deg)
            if not abs(s0 - s1) <= 1e-9:
                out.append(("ecl_rigidity", "precession_ecliptical(%r->%r) changes the angle between two "
                            "stars: %r -> %r" % (c0, c1, s0, s1), abs(s0 - s1)))
            # route: equatorial directly vs through the ecliptic of each epoch
            if a1 is not None:
                ob0, ob1 = mean_obliquity(e0), mean_obliquity(e1)
                lo, la = equatorial2ecliptical(Angle(lon), Angle(lat), ob0)
                lo1, la1 = precession_ecliptical(e0, e1, lo, la)
                rb, db = ecliptical2equatorial(lo1, la1, ob1)
                s = S.sep_ll(a1._deg, d1._deg, rb._deg, db._deg)
                if not s <= 1e-4:
                    out.append(("route", "equatorial precession %r->%r of (%r,%r) is %.3g deg from the "
                                "ecliptical route" % (c0, c1, lon, lat, s), s))
    except Exception as ex:
        out.append(("ecl_exception", "precession_ecliptical(%r->%r, (%r,%r)) raised %r"
                    % (c0, c1, lon, lat, ex), None))
    # ---- Newcomb (FK4) in 1800-2100
    if -2.0 <= c0 <= 1.0 and -2.0 <= c1 <= 1.0:
        try:
            n1, m1 = precession_newcomb(e0, e1, Angle(lon), Angle(lat))
            if a1 is not None:
                s = S.sep_ll(a1._deg, d1._deg, n1._deg, m1._deg)
                if not s <= 0.005:
                    out.append(("newcomb", "precession_newcomb(%r->%r) of (%r,%r) is %.3g deg from the FK5 "
                                "result" % (c0, c1, lon, lat, s), s))
            if c0 == c1:
                s = S.sep_ll(lon, lat, n1._deg, m1._deg)
                if not s <= 1e-9:
                    out.append(("newcomb_identity", "precession_newcomb over a zero interval moves (%r,%r) "
                                "by %.3g deg" % (lon, lat, s), s))
        except Exception as ex:
            out.append(("newcomb_exception", "precession_newcomb(%r->%r, (%r,%r)) raised %r"
                        % (c0, c1, lon, lat, ex), None))
    return out


def pair_cases(tier="quick"):
    out = []
    cents, lons, lats = CENT_WIDE, LONS, LATS
    if tier == "thorough":
        cents = sorted(set(CENT_WIDE + [0.1, -0.1, 1.5, -1.5, 3.0, -3.0, 0.01, -0.01, 1e-4, -1e-4]
                           + [float(c) for c in range(-20, 21)]))
        lons = [0.0, 41.0, 90.0, 123.4, 179.9, 200.0, 270.0, 315.5, 359.9, 1e-6]
        lats = sorted(set(LATS + [88.0, -88.0, 85.001, -85.001, 84.999, -84.999, 75.0, -75.0, 45.0, -45.0, 15.0, -15.0,
                                  1e-6, -1e-6]))
    for c0 in cents:
        for c1 in cents:
            for lon in lons:
                for lat in lats:
                    out.append({"c0": c0, "c1": c1, "lon": lon, "lat": lat})
    return out


def run_pairs(block, ctx):
    for case in block:
        ctx.evals += 1
        res = check_pair(case)
        for site, msg, dev in res:
            ctx.viol(case, msg, dev=dev, site=site)
            ctx.maxi(site, dev)
        if abs(case["lat"]) >= 84.9 or abs(case["c0"] - case["c1"]) >= 1:
            ctx.nt_count += 1
        ctx.outcome((case["c0"], case["c1"], len(res)))
        ctx.obs(case, len(res))
    ctx.sample(block[0])


def check_triple(case):
    cA, cB, cC, lon, lat = case["a"], case["b"], case["c"], case["lon"], case["lat"]
    eA, eB, eC = ep(cA), ep(cB), ep(cC)
    out = []
    for name, fn, tol in (("equ", precession_equatorial, 1e-4), ("ecl", precession_ecliptical, 1e-4)):
        try:
            x1, y1 = fn(eA, eB, Angle(lon), Angle(lat))
            x2, y2 = fn(eB, eC, x1, y1)
            x3, y3 = fn(eA, eC, Angle(lon), Angle(lat))
            s = S.sep_ll(x2._deg, y2._deg, x3._deg, y3._deg)
            if not s <= tol:
                out.append((name + "_composition", "%s precession %r->%r->%r of (%r,%r) is %.3g deg from "
                            "%r->%r" % (name, cA, cB, cC, lon, lat, s, cA, cC), s))
        except Exception as ex:
            out.append((name + "_exception", "%s chain %r raised %r" % (name, case, ex), None))
    return out


def triple_cases():
    sub = [0.0, -0.5, 1.0, -2.0, 5.0]
    dirs = [(lo, la) for lo in (41.0, 200.0) for la in (-89.0, -85.1, -60.0, -30.0, 0.0, 30.0, 49.2, 84.9, 86.0, 89.9)]
    return [{"a": a, "b": b, "c": c, "lon": lo, "lat": la}
            for a in sub for b in sub for c in sub for (lo, la) in dirs]


def run_triples(block, ctx):
    for case in block:
        ctx.evals += 2
        res = check_triple(case)
        for site, msg, dev in res:
            ctx.viol(case, msg, dev=dev, site=site)
            ctx.maxi(site, dev)
        if len({case["a"], case["b"], case["c"]}) == 3:
            ctx.nt_count += 1
        ctx.outcome((case["a"], case["b"], case["c"]))
    ctx.sample(block[0])


# -- proper motion -------------------------------------------------------------

ARCSEC = 1.0 / 3600.0


def check_pm(case):
    """precession(e0 -> e1, pos, mu) must equal precession(e0 -> e1, pos + mu * years, 0):
    the proper motion is applied linearly for the elapsed time, then rotated."""
    lon, lat, mra, mdec, kind = case["lon"], case["lat"], case["mu_lon"], case["mu_lat"], case["kind"]
    fn = {"equ": precession_equatorial, "ecl": precession_ecliptical, "newcomb": precession_newcomb}[kind]
    e0 = ep(0.0) if kind != "newcomb" else ep(-1.0)
    out = []
    disp = []
    try:
        for k in (1, 2, 3):
            e1 = Epoch(e0.jde() + 365.25 * 50.0 * k)
            years = (e1.jde() - e0.jde()) / (365.25 if kind != "newcomb" else 365.242199)
            x1, y1 = fn(e0, e1, Angle(lon), Angle(lat), mra * ARCSEC, mdec * ARCSEC)
            x2, y2 = fn(e0, e1, Angle(lon), Angle(lat), Angle(mra * ARCSEC), Angle(mdec * ARCSEC))
            if x1._deg != x2._deg or y1._deg != y2._deg:
                out.append(("pm_forms", "proper motion as float and as Angle give different results", None))
            # the linearly displaced start, brought back onto the sphere by the harness when the proper
            # motion carries the star over a pole (latitude beyond +-90)
            dl, db = lon + mra * ARCSEC * years, lat + mdec * ARCSEC * years
            if abs(db) > 90.0:
                dl, db = dl + 180.0, math.copysign(180.0, db) - db
            xs, ys = fn(e0, e1, Angle(dl), Angle(db))
            s = S.sep_ll(x1._deg, y1._deg, xs._deg, ys._deg)
            if s > 1e-9:
                out.append(("pm_linear", "%s precession over %r yr with proper motion (%r, %r) arcsec/yr is "
                            "%.3g deg from the precession of the linearly displaced start"
                            % (kind, years, mra, mdec, s), s))
            # un-rotate and read the displacement in the coordinates
            xb, yb = fn(e1, e0, x1, y1)
            disp.append(((xb._deg - lon + 180.0) % 360.0 - 180.0, yb._deg - lat))
    except Exception as ex:
        return [("pm_exception", "proper-motion call %r raised %r" % (case, ex), None)]
    for idx in (0, 1):
        if kind == "newcomb":
            break       # the FK4 polynomials are not an exact inverse pair: un-rotating leaves 1e-7..1e-6 deg
        if abs(lat) > 89.0:
            break       # coordinate differences are not linear next to (or across) a pole
        sd = abs(disp[2][idx] - 2 * disp[1][idx] + disp[0][idx])
        if sd > 1e-7:
            out.append(("pm_second_difference", "displacement in coordinate %d not linear in time: %r"
                        % (idx, [d[idx] for d in disp]), sd))
    return out


def pm_cases():
    out = []
    for kind in ("equ", "ecl", "newcomb"):
        for lon in (41.0, 200.0):
            for lat in (-60.0, 0.0, 49.2, 80.0):
                for mra in (0.0, 1.0, -1.0, 10.0, -10.0, 3.0):
                    for mdec in (0.0, 1.0, -1.0, 10.0, -10.0, -0.5):
                        out.append({"kind": kind, "lon": lon, "lat": lat, "mu_lon": mra, "mu_lat": mdec})
        # proper motions of a milli-arcsecond per year and below (must still displace the star), and stars that
        # their proper motion carries across a pole within the interval
        for lon in (41.0, 200.0):
            for lat in (-60.0, 49.2):
                for mra, mdec in ((0.001, 0.0), (0.0, -0.001), (0.003, 0.002), (1e-4, -1e-4), (1e-5, 1e-5)):
                    out.append({"kind": kind, "lon": lon, "lat": lat, "mu_lon": mra, "mu_lat": mdec})
            for lat, mdec in ((89.9, 6.0), (89.95, 10.0), (-89.9, -6.0), (-89.99, -1.0), (89.9, -6.0)):
                for mra in (0.0, 3.0):
                    out.append({"kind": kind, "lon": lon, "lat": lat, "mu_lon": mra, "mu_lat": mdec})
    return out


def run_pm(block, ctx):
    for case in block:
        ctx.evals += 9
        res = check_pm(case)
        for site, msg, dev in res:
            ctx.viol(case, msg, dev=dev, site=site)
            ctx.maxi(site, dev)
        if case["mu_lon"] or case["mu_lat"]:
            ctx.nt_count += 1
        ctx.outcome((case["mu_lon"], case["mu_lat"]))
    ctx.sample(block[1])


# -- orbital elements between equinoxes ------------------------------------------

def check_orb(case):
    c0, c1, i, w, om = case["c0"], case["c1"], case["i"], case["arg"], case["node"]
    if c0 == c1 and min(i, 180.0 - i) < 1e-6:
        # zero interval AND an orbit in the ecliptic plane (node undefined): the statement speaks of
        # reducing to *another* equinox; the library re-labels the undefined node there
        return []
    e0, e1 = ep(c0), ep(c1)
    try:
        i1, w1, o1 = orbital_equinox2equinox(e0, e1, Angle(i), Angle(w), Angle(om))
        i2, w2, o2 = orbital_equinox2equinox(e1, e0, i1, w1, o1)
    except Exception as ex:
        return [("orb_exception", "orbital_equinox2equinox %r raised %r" % (case, ex), None)]
    out = []

    def cd(a, b):
        return abs((a - b + 180.0) % 360.0 - 180.0)

    def frame(inc, arg, node):
        """Orbit normal and perihelion direction (well defined for every inclination,
        also 0 and 180 where the node is not)."""
        ir, wr, orr = math.radians(inc), math.radians(arg), math.radians(node)
        n = (math.sin(ir) * math.sin(orr), -math.sin(ir) * math.cos(orr), math.cos(ir))
        P = (math.cos(orr) * math.cos(wr) - math.sin(orr) * math.sin(wr) * math.cos(ir),
             math.sin(orr) * math.cos(wr) + math.cos(orr) * math.sin(wr) * math.cos(ir),
             math.sin(wr) * math.sin(ir))
        return n, P
    n0, P0 = frame(i, w, om)
    n2, P2 = frame(i2._deg, w2._deg, o2._deg)
    dev = max(S.sep(n0, n2), S.sep(P0, P2) / 2.0)
    if dev > 1e-6:
        out.append(("orb_roundtrip", "elements (i=%r, w=%r, node=%r) reduced %r->%r->%r come back as (%r, %r, %r): orbit "
                    "normal off by %.3g deg, perihelion direction by %.3g deg"
                    % (i, w, om, c0, c1, c0, i2._deg, w2._deg % 360, o2._deg % 360, S.sep(n0, n2), S.sep(P0, P2)), dev))
    if not (-1e-9 <= i2._deg <= 180.0 + 1e-9) or not (-1e-9 <= i1._deg <= 180.0 + 1e-9):
        if abs(i) > 1e-6:       # for i = 0 the library returns i = eta, negative for a backward interval
            out.append(("orb_range", "inclination %r / %r outside [0, 180]" % (i1._deg, i2._deg), None))
    if c0 == c1:
        n1, P1 = frame(i1._deg, w1._deg, o1._deg)
        dev = max(S.sep(n0, n1), S.sep(P0, P1))
        if dev > 1e-8:
            out.append(("orb_identity", "zero interval changes the elements to (%r, %r, %r)"
                        % (i1._deg, w1._deg, o1._deg), dev))
    # the comparison tolerance carried by the caller's Angle objects is not part of the elements
    try:
        ai, aw, ao = Angle(i), Angle(w), Angle(om)
        for a in (ai, aw, ao):
            a.set_tolerance(0.01)
        j1, v1, p1 = orbital_equinox2equinox(e0, e1, ai, aw, ao)
        if (j1._deg, v1._deg, p1._deg) != (i1._deg, w1._deg, o1._deg):
            out.append(("orb_tolerance", "elements (i=%r, w=%r, node=%r) %r->%r: with the arguments' comparison tolerance "
                        "set to 0.01 the result is (%r, %r, %r), otherwise (%r, %r, %r)"
                        % (i, w, om, c0, c1, j1._deg, v1._deg, p1._deg, i1._deg, w1._deg, o1._deg), None))
    except Exception as ex:
        out.append(("orb_exception", "call with coarse-tolerance Angles raised %r" % ex, None))
    # the orbit pole must move like a star: rigid rotation of the orbital plane
    try:
        pl, pb = precession_ecliptical(e0, e1, Angle(om - 90.0), Angle(90.0 - i))
        s = S.sep_ll(pl._deg, pb._deg, o1._deg - 90.0, 90.0 - i1._deg)
        if s > 1e-6:
            out.append(("orb_pole", "orbit pole after reduction %r->%r is %.3g deg from the precessed pole"
                        % (c0, c1, s), s))
    except Exception as ex:
        out.append(("orb_exception", "pole cross-check raised %r" % ex, None))
    return out


def orb_cases():
    out = []
    for c0, c1 in itertools.product([0.0, -0.5, 1.0, -2.0, 0.2884], repeat=2):
        for i in (0.0, 1e-9, 0.004, 0.5, 1.5, 47.122, 89.0, 90.0, 120.0, 162.0, 11.94524, 179.9999999, 180.0):
            for w in (0.0, 45.7481, 151.4486, 300.0):
                for om in (0.0, 45.7481, 151.4486, 300.0, 334.75006):
                    out.append({"c0": c0, "c1": c1, "i": i, "arg": w, "node": om})
    return out


def run_orb(block, ctx):
    for case in block:
        ctx.evals += 2
        res = check_orb(case)
        for site, msg, dev in res:
            ctx.viol(case, msg, dev=dev, site=site)
            ctx.maxi(site, dev)
        if case["c0"] != case["c1"]:
            ctx.nt_count += 1
        ctx.outcome((case["c0"], case["c1"]))
    ctx.sample(block[0])


# -- histories: the previous call used (almost) the same epochs ------------------------------

NEAR = [0.0, 1e-6, -1e-6, 0.004, -0.004, 0.3, -0.3]      # days


def check_near_history(case):
    """result(prime(e0 + d0, e1 + d1); target(e0, e1)) must equal result(target alone after a far
    priming call): a rotation remembered from the previous call must not be re-used."""
    c0, c1, lon, lat = case["c0"], case["c1"], case["lon"], case["lat"]
    out = []
    for name, fn in (("equatorial", precession_equatorial), ("ecliptical", precession_ecliptical),
                     ("newcomb", precession_newcomb)):
        if name == "newcomb" and not (-2.0 <= c0 <= 1.0 and -2.0 <= c1 <= 1.0):
            continue
        try:
            def far():
                fn(ep(7.7), ep(-3.3), Angle(10.0), Angle(10.0))        # far away: forgets anything remembered

            def exact():
                r = fn(ep(c0), ep(c1), Angle(lon), Angle(lat))
                return (r[0]._deg, r[1]._deg)

            def shifted(d0, d1):
                r = fn(Epoch(ep(c0).jde() + d0), Epoch(ep(c1).jde() + d1), Angle(lon), Angle(lat))
                return (r[0]._deg, r[1]._deg)
            far()
            ref = exact()
            for d0 in NEAR:
                for d1 in NEAR:
                    if d0 == 0.0 and d1 == 0.0:
                        continue
                    far()
                    ref_s = shifted(d0, d1)
                    # exact call first, then the nearby one ...
                    far()
                    exact()
                    got_s = shifted(d0, d1)
                    # ... and the nearby one first, then the exact call
                    far()
                    shifted(d0, d1)
                    got = exact()
                    if got_s != ref_s:
                        out.append(("near_history", "precession_%s with epochs (%r, %r) shifted by (%r, %r) d gives %r "
                                    "right after the call with the unshifted epochs, %r otherwise"
                                    % (name, c0, c1, d0, d1, got_s, ref_s),
                                    S.sep_ll(got_s[0], got_s[1], ref_s[0], ref_s[1])))
                    if got != ref:
                        out.append(("near_history", "precession_%s(%r->%r) of (%r,%r) gives %r right after a call with "
                                    "epochs shifted by (%r, %r) d, %r otherwise" % (name, c0, c1, lon, lat, got, d0, d1, ref),
                                    S.sep_ll(got[0], got[1], ref[0], ref[1])))
        except Exception as ex:
            out.append(("near_exception", "precession_%s history raised %r" % (name, ex), None))
    return out


def near_cases():
    return [{"c0": c0, "c1": c1, "lon": lon, "lat": lat}
            for (c0, c1) in ((0.0, 0.1), (0.0, 0.0), (-1.0, 0.5), (1.0, -0.2884), (0.01, 0.0))
            for (lon, lat) in ((41.0, 49.2), (200.0, -86.0), (0.0, 89.9))]


def run_near(block, ctx):
    for case in block:
        ctx.evals += 3 * (len(NEAR) ** 2 - 1)
        ctx.nt_count += 1
        for site, msg, dev in check_near_history(case):
            ctx.viol(case, msg, dev=dev, site=site)
        ctx.outcome((case["c0"], case["c1"]))
    ctx.sample(block[0])


# -- the quadrant seams of the two rotations, on the input and on the output side -----------------------------

SEAM_PAIRS = [(0.0, 1.0), (0.0, -0.5), (-1.0, 2.0), (0.2884, 0.0), (5.0, -4.0), (0.0, 0.0001)]
SEAM_DELTAS = [0.0, 2e-9, -3e-9, 5e-9, -5e-9, 1e-8, -1e-8, 1e-7, -1e-7, 1e-6, -1e-6, 3e-6, -3e-6, 2e-5, -2e-5, 1e-4, -1e-3]
SEAM_LATS = [-60.0, 0.0, 30.0, 80.0]


def check_seam(case):
    """Inputs constructed (with an independent implementation of the IAU 1976 angles, ref/precession.py) so that
    the intermediate longitude the rotation formulas take an arctangent of - alpha + zeta on the way in,
    alpha' - z on the way out; Pi - lambda and p + Pi - lambda' for the ecliptical routine - lies 0 .. 1e-3
    degree from 0, 90, 180 or 270 degrees.  The result is compared with the independent rotation (1e-9) and
    taken there and back."""
    from ..ref import precession as PR
    kind, side, c0, c1, q, d, lat = (case["kind"], case["side"], case["c0"], case["c1"], case["quadrant"],
                                     case["delta"], case["lat"])
    T, t = c0, c1 - c0
    if kind == "equ":
        zeta, z, theta = PR.equatorial_angles(T, t)
        if side == "in":
            lon = q + d - zeta
        else:
            lon, lat = PR.equatorial_inverse(T, t, z + q + d, lat)
        fn, ref = precession_equatorial, PR.equatorial
        tol_rt = 1e-9
    else:
        eta, pi_, p = PR.ecliptical_angles(T, t)
        if side == "in":
            lon = pi_ - (q + d)
        else:
            lon, lat = PR.ecliptical_inverse(T, t, p + pi_ - (q + d), lat)
        fn, ref = precession_ecliptical, PR.ecliptical
        tol_rt = 1e-6
    lon %= 360.0
    out = []
    try:
        a, b = fn(ep(c0), ep(c1), Angle(lon), Angle(lat))
        a2, b2 = fn(ep(c1), ep(c0), a, b)
    except Exception as ex:
        return [("seam_exception", "precession_%s %r->%r of (%r, %r) raised %r" % (kind, c0, c1, lon, lat, ex), None)]
    r = ref(T, t, lon, lat)
    s1 = S.sep_ll(a._deg, b._deg, r[0], r[1])
    if s1 > 1e-9:
        out.append(("seam_rotation", "precession_%s %r->%r of (%r, %r) = (%r, %r), independent rotation (%r, %r): %.3g deg"
                    % (kind, c0, c1, lon, lat, a._deg, b._deg, r[0], r[1], s1), s1))
    s2 = S.sep_ll(a2._deg, b2._deg, lon, lat)
    if s2 > tol_rt and abs(t) <= 5.0:
        out.append(("seam_roundtrip", "precession_%s %r->%r->%r of (%r, %r) comes back %.3g deg away"
                    % (kind, c0, c1, c0, lon, lat, s2), s2))
    return out


def seam_cases():
    return [{"kind": k, "side": sd, "c0": c0, "c1": c1, "quadrant": q, "delta": d, "lat": la}
            for k in ("equ", "ecl") for sd in ("in", "out") for (c0, c1) in SEAM_PAIRS
            for q in (0.0, 90.0, 180.0, 270.0) for d in SEAM_DELTAS for la in SEAM_LATS] + \
        [{"kind": k, "side": "out", "c0": c0, "c1": c1, "quadrant": q, "delta": 0.0, "lat": sg * (90.0 - dist)}
         # ordinary stars that ARRIVE 1e-9 .. 1e-6 degree from the pole of the final epoch / ecliptic of date
         for k in ("equ", "ecl") for (c0, c1) in SEAM_PAIRS for q in (0.0, 77.3, 161.9, 248.6, 333.1)
         for sg in (1.0, -1.0) for dist in (1e-9, 3e-9, 4.4e-9, 5.2e-9, 2e-8, 1e-7, 1e-6)]


def run_seams(block, ctx):
    for case in block:
        ctx.evals += 2
        ctx.nt_count += 1
        for site, msg, dev in check_seam(case):
            ctx.viol(case, msg, dev=dev, site=site)
            ctx.maxi(site, dev)
        ctx.outcome((case["kind"], case["side"], case["quadrant"]))
    ctx.sample(block[0])


def clauses(tier):
    return [
        Clause("epoch_pairs", chunks(pair_cases(tier), 64), run_pairs,
               lambda c: [m for _, m, _ in check_pair(c)], floor=5000),
        Clause("quadrant_seams", chunks(seam_cases(), 32), run_seams, lambda c: [m for _, m, _ in check_seam(c)],
               floor=2000),
        Clause("near_epoch_history", chunks(near_cases(), 15), run_near,
               lambda c: [m for _, m, _ in check_near_history(c)], floor=10, shape="H"),
        Clause("epoch_triples", chunks(triple_cases(), 16), run_triples,
               lambda c: [m for _, m, _ in check_triple(c)], floor=500),
        Clause("proper_motion", chunks(pm_cases(), 8), run_pm,
               lambda c: [m for _, m, _ in check_pm(c)], floor=100),
        Clause("orbital_elements", chunks(orb_cases(), 16), run_orb,
               lambda c: [m for _, m, _ in check_orb(c)], floor=500),
    ]
