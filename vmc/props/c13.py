"""C13 - planetary event finders return real events, in order, none skipped (L)."""
import importlib
import math

from ..engine import Clause, chunks
from ..ref import calendar as cal

from pymeeus.Epoch import Epoch
from pymeeus.Earth import Earth

PROPERTY = "C13"
LEVEL = "exploration"
RULE = ("each of the 56 finder variants x query lattice in steps of 1/20 period (quick: 6 eras x 6 "
        "periods; thorough: the whole range -2000..4000); results grouped into events (same event = "
        "closer than P/4); ordering clauses on every consecutive pair of queries, event clause on every "
        "event (thorough: every 10th) by sign change of the defining function, computed from the "
        "library's own VSOP87 positions, within the stated accuracy; range clause at both ends; "
        "non-trivial = each distinct event and each query within P/20 of the switch between two events")
ASSUMPTIONS = ["defining functions are formed by the harness from heliocentric VSOP87 vectors with light "
               "time (C09 construction), not from geocentric_position",
               "event tolerance 1 day Mercury-Mars (Earth included), 2 days beyond; reported elongation "
               "angle within 0.05 degree of the maximum",
               "natural variation of the spacing: period x [0.8, 1.25]"]
SYN = {"Mercury": 115.8774771, "Venus": 583.921361, "Mars": 779.936104, "Jupiter": 398.884046,
       "Saturn": 378.091904, "Uranus": 369.656035, "Neptune": 367.486703}
ORB = {"Mercury": 87.969, "Venus": 224.701, "Earth": 365.2596, "Mars": 686.98, "Jupiter": 4332.59,
       "Saturn": 10759.2, "Uranus": 30688.5}
CH36 = {"Mercury": ["inferior_conjunction", "superior_conjunction", "western_elongation", "eastern_elongation",
                    "station_longitude_1", "station_longitude_2"],
        "Venus": ["inferior_conjunction", "superior_conjunction", "western_elongation", "eastern_elongation",
                  "station_longitude_1", "station_longitude_2"],
        "Mars": ["conjunction", "opposition", "station_longitude_1", "station_longitude_2"],
        "Jupiter": ["conjunction", "opposition", "station_longitude_1", "station_longitude_2"],
        "Saturn": ["conjunction", "opposition", "station_longitude_1", "station_longitude_2"],
        "Uranus": ["conjunction", "opposition"], "Neptune": ["conjunction", "opposition"]}
INNER = ("Mercury", "Venus", "Earth", "Mars")
J_LO = None
_MOD = {}
_FAST = None


def fast():
    global _FAST
    if _FAST is None:
        _FAST = cal.Fast(-2100, 4100)
    return _FAST


def bound(tier):
    return ("56 variants x whole range at P/20" if tier == "thorough" else "56 variants x 6 eras x 6 periods at P/20")


def planet(nm):
    if nm not in _MOD:
        _MOD[nm] = getattr(importlib.import_module("pymeeus." + nm), nm)
    return _MOD[nm]


def variants():
    out = []
    for nm, fl in CH36.items():
        for fn in fl:
            out.append((nm, fn, "", SYN[nm]))
    for nm, per in ORB.items():
        out.append((nm, "perihelion_aphelion", "perihelion", per))
        out.append((nm, "perihelion_aphelion", "aphelion", per))
        out.append((nm, "passage_nodes", "ascending", per))
        out.append((nm, "passage_nodes", "descending", per))
    return out


def kwargs_of(fn, variant):
    if fn == "perihelion_aphelion":
        return {"perihelion": variant == "perihelion"}
    if fn == "passage_nodes":
        return {"ascending": variant == "ascending"}
    return {}


def call(nm, fn, variant, q):
    r = getattr(planet(nm), fn)(Epoch(q), **kwargs_of(fn, variant))
    if isinstance(r, tuple):
        return r[0].jde(), r[1]
    return r.jde(), None


def wrap180(x):
    return (x + 180.0) % 360.0 - 180.0


def geo(nm, t):
    """Geocentric ecliptic longitude/latitude of the planet (light-time corrected) and the
    geometric longitude of the Sun, from the library's heliocentric VSOP87 positions."""
    P = planet(nm)
    e = Epoch(t)
    l0, b0, r0 = Earth.geometric_heliocentric_position(e, tofk5=False)
    cb = math.cos(b0.rad())
    E0 = (r0 * cb * math.cos(l0.rad()), r0 * cb * math.sin(l0.rad()), r0 * math.sin(b0.rad()))
    tau = 0.0
    for _ in range(2):
        l, b, r = P.geometric_heliocentric_position(e - tau, tofk5=False)
        c = math.cos(b.rad())
        d = (r * c * math.cos(l.rad()) - E0[0], r * c * math.sin(l.rad()) - E0[1], r * math.sin(b.rad()) - E0[2])
        tau = 0.0057755183 * math.sqrt(sum(x * x for x in d))
    lam = math.degrees(math.atan2(d[1], d[0])) % 360.0
    bet = math.degrees(math.atan2(d[2], math.hypot(d[0], d[1])))
    return lam, bet, (l0._deg + 180.0) % 360.0


def elong_of(nm, t):
    lam, bet, sl = geo(nm, t)
    return math.degrees(math.acos(max(-1.0, min(1.0, math.cos(math.radians(bet)) * math.cos(math.radians(lam - sl))))))


def defining_function(nm, fn, variant):
    P = planet(nm)
    h = 1e-3 if nm in INNER else 1e-2
    if "conjunction" in fn or fn == "opposition":
        tgt = 180.0 if fn == "opposition" else 0.0
        return lambda t: (lambda x: wrap180(x[0] - x[2] - tgt))(geo(nm, t))
    if "elongation" in fn:
        return lambda t: (elong_of(nm, t + h) - elong_of(nm, t - h)) / (2 * h)
    if "station" in fn:
        return lambda t: wrap180(geo(nm, t + h)[0] - geo(nm, t - h)[0]) / (2 * h)
    if fn == "perihelion_aphelion":
        def R(t):
            return P.geometric_heliocentric_position(Epoch(t))[2]
        return lambda t: (R(t + h) - R(t - h)) / (2 * h)
    if fn == "passage_nodes":
        return lambda t: P.geometric_heliocentric_position(Epoch(t))[1]._deg
    raise KeyError(fn)


def check_event(nm, fn, variant, re, extra):
    """Event clause.  Returns list of (site, msg, dev)."""
    out = []
    tol = 1.0 if nm in INNER else 2.0
    g = defining_function(nm, fn, variant)
    try:
        ga, gb = g(re - tol), g(re + tol)
    except Exception as ex:
        return [("event_exception", "defining function of %s.%s raised %r near JDE %r" % (nm, fn, ex, re), None)]
    sign_ok = ga * gb <= 0.0
    if sign_ok:
        # the right kind of event (direction of the sign change)
        if fn == "passage_nodes" and ((gb > ga) != (variant == "ascending")):
            out.append(("event_kind", "%s.passage_nodes(%s) at JDE %r: latitude goes %r -> %r" % (nm, variant, re, ga, gb), None))
        if fn == "perihelion_aphelion" and ((gb > ga) != (variant == "perihelion")):
            out.append(("event_kind", "%s.perihelion_aphelion(%s) at JDE %r: dR/dt goes %r -> %r" % (nm, variant, re, ga, gb), None))
        if "elongation" in fn and not (ga > 0 > gb):
            out.append(("event_kind", "%s.%s at JDE %r: elongation is not maximal (slope %r -> %r)" % (nm, fn, re, ga, gb), None))
    else:
        # locate the nearest zero to report how far off the result is
        W = max(3.0 * tol, 0.02 * (ORB.get(nm, 0) if fn in ("perihelion_aphelion", "passage_nodes") else 0.0))
        off = None
        steps = 24
        prev_t, prev_v = re - W, g(re - W)
        best = None
        for i in range(1, steps + 1):
            t = re - W + 2 * W * i / steps
            v = g(t)
            if prev_v * v <= 0.0:
                a, b, fa = prev_t, t, prev_v
                for _ in range(14):
                    mid = (a + b) / 2
                    fm = g(mid)
                    if fa * fm <= 0:
                        b = mid
                    else:
                        a, fa = mid, fm
                z = (a + b) / 2
                if best is None or abs(z - re) < abs(best - re):
                    best = z
            prev_t, prev_v = t, v
        if best is None:
            out.append(("event", "%s.%s(%s) = JDE %r: the defining function has no zero within +-%r d"
                        % (nm, fn, variant, re, W), W))
        else:
            out.append(("event", "%s.%s(%s) = JDE %r: the event occurs at JDE %r, %.3f d away (accuracy %r d)"
                        % (nm, fn, variant, re, best, best - re, tol), abs(best - re)))
    if "elongation" in fn and extra is not None:
        try:
            emax = max(elong_of(nm, re + k * 0.25) for k in range(-4, 5)) if nm in INNER else elong_of(nm, re)
            d = abs(emax - extra._deg)
            if d > 0.05:
                out.append(("event_angle", "%s.%s at JDE %r reports %r deg, the elongation reaches %r"
                            % (nm, fn, re, extra._deg, emax), d))
        except Exception as ex:
            out.append(("event_exception", "elongation oracle raised %r" % ex, None))
    return out


def run_sweep(spec, ctx):
    vi, j0, j1, every, label = spec
    nm, fn, variant, per = variants()[vi]
    step = per / 20.0
    prev = prev_q = None
    ev_start = None
    n_ev = 0
    q = j0
    while q <= j1:
        ctx.evals += 1
        y = fast().date(int(math.floor(q + 0.5)))[0]
        case = {"planet": nm, "finder": fn, "variant": variant, "query": q, "year": y}
        try:
            re, extra = call(nm, fn, variant, q)
        except Exception as ex:
            ctx.viol(case, "%s.%s(%s) at JDE %r raised %r" % (nm, fn, variant, q, ex), site="finder_exception")
            q += step
            continue
        far = abs(re - q) / per
        ctx.maxi("far_periods", far)
        if far > 1.0:
            ctx.viol(case, "%s.%s(%s) at JDE %r returns JDE %r, %.3f periods away" % (nm, fn, variant, q, re, far),
                     dev=far, site="far")
        new_event = False
        if prev is not None:
            dd = re - prev
            if dd < -1e-9:
                ctx.viol(dict(case, previous_query=prev_q), "%s.%s(%s): result moves backwards by %.3g d as the query "
                         "advances from JDE %r to %r" % (nm, fn, variant, -dd, prev_q, q), dev=-dd, site="backwards")
            if abs(re - ev_start) >= per / 4.0:
                new_event = True
                g = (re - ev_start) / per
                ctx.maxi("gap_hi", g)
                if not (0.8 <= g <= 1.25):
                    ctx.viol(dict(case, previous_query=prev_q), "%s.%s(%s): consecutive events at JDE %r and %r are "
                             "%.3f periods apart" % (nm, fn, variant, ev_start, re, g), dev=abs(g), site="gap")
                ctx.nt_count += 1          # query at the switch between two events
        else:
            new_event = True
        if new_event:
            ev_start = re
            n_ev += 1
            ctx.nt_count += 1
            if n_ev % every == 0:
                for site, msg, dev in check_event(nm, fn, variant, re, extra):
                    ctx.viol(dict(case, result=re), msg, dev=dev, site=site)
                    ctx.maxi(site, dev)
                ctx.count("events_checked")
        prev, prev_q = re, q
        q += step
    ctx.count("distinct_events", n_ev)
    ctx.outcome((nm, fn, variant, label, n_ev))
    ctx.obs(nm, fn, variant, label, n_ev, prev)
    ctx.sample({"planet": nm, "finder": fn, "variant": variant, "from_jde": j0, "step_days": step,
                "distinct_events": n_ev})


def replay_sweep(case):
    nm, fn, variant, q = case["planet"], case["finder"], case["variant"], case["query"]
    per = dict((v[:3], v[3]) for v in variants())[(nm, fn, variant)]
    try:
        re, extra = call(nm, fn, variant, q)
    except Exception as ex:
        return ["%s.%s(%s) at JDE %r raised %r" % (nm, fn, variant, q, ex)]
    out = []
    if abs(re - q) / per > 1.0:
        out.append("result %.3f periods from the query" % (abs(re - q) / per))
    if "previous_query" in case:
        try:
            rp, _ = call(nm, fn, variant, case["previous_query"])
            if re - rp < -1e-9:
                out.append("result moves backwards by %.3g d" % (rp - re))
            elif abs(re - rp) >= per / 4.0 and not (0.8 <= (re - rp) / per <= 1.25):
                out.append("consecutive results %.3f periods apart" % ((re - rp) / per))
        except Exception:
            pass
    if "result" in case:
        out += [m for _, m, _ in check_event(nm, fn, variant, re, extra)]
    return out


def run_spots(spec, ctx):
    """Event clause on isolated queries spread over the whole range (quick tier: the era
    sweeps cover ordering densely but only six short stretches of the 6000 years)."""
    vi, js = spec
    nm, fn, variant, per = variants()[vi]
    for q in js:
        ctx.evals += 1
        y = fast().date(int(math.floor(q + 0.5)))[0]
        case = {"planet": nm, "finder": fn, "variant": variant, "query": q, "year": y}
        try:
            re, extra = call(nm, fn, variant, q)
        except Exception as ex:
            ctx.viol(case, "%s.%s(%s) at JDE %r raised %r" % (nm, fn, variant, q, ex), site="finder_exception")
            continue
        ctx.nt_count += 1
        far = abs(re - q) / per
        if far > 1.0:
            ctx.viol(case, "%s.%s(%s) at JDE %r returns JDE %r, %.3f periods away" % (nm, fn, variant, q, re, far),
                     dev=far, site="far")
        for site, msg, dev in check_event(nm, fn, variant, re, extra):
            ctx.viol(dict(case, result=re), msg, dev=dev, site=site)
            ctx.maxi(site, dev)
        ctx.count("events_checked")
    ctx.outcome((nm, fn, variant))
    ctx.obs(nm, fn, variant, len(js))
    ctx.sample({"planet": nm, "finder": fn, "variant": variant, "query": js[0]})


# -- every single event of the range: one query per period ---------------------------------------------------

def run_every_event(spec, ctx):
    """spec = (variant index, j_from, j_to): queries one mean period apart, so that every event of the
    stretch is the answer to at least one query; the answer must exist (no exception), lie within one
    period of its query, never move backwards and follow its predecessor by 0.8 .. 1.25 periods (or
    be the same event).  A finder that fails for ONE event in six thousand years is seen here."""
    vi, j0, j1 = spec
    nm, fn, variant, per = variants()[vi]
    q = j0
    prev = None
    n_ev = 0
    while q <= j1:
        ctx.evals += 1
        case = {"planet": nm, "finder": fn, "variant": variant, "query": q,
                "year": fast().date(int(math.floor(q + 0.5)))[0]}
        try:
            re, _ = call(nm, fn, variant, q)
        except Exception as ex:
            ctx.viol(case, "%s.%s(%s) at JDE %r raised %r" % (nm, fn, variant, q, ex), site="finder_exception")
            q += per
            continue
        far = abs(re - q) / per
        if far > 1.0:
            ctx.viol(case, "%s.%s(%s) at JDE %r returns JDE %r, %.3f periods away" % (nm, fn, variant, q, re, far),
                     dev=far, site="far")
        if prev is not None and re - prev > 1e-6:
            g = (re - prev) / per
            n_ev += 1
            if g > 2.5:
                ctx.viol(case, "%s.%s(%s): results for queries one period apart are %.3f periods apart (an event is "
                         "skipped)" % (nm, fn, variant, g), dev=g, site="gap")
        prev = re if prev is None or re > prev else prev
        q += per
    ctx.nt_count += n_ev
    ctx.count("distinct_events", n_ev)
    ctx.outcome((nm, fn, variant, n_ev))
    ctx.obs(spec, n_ev)
    ctx.sample({"planet": nm, "finder": fn, "variant": variant, "from_jde": j0, "to_jde": j1})


# -- calendar seams: two queries a fraction of a second apart across 0h of the 1st of a month ---------------------

def seam_days(kind, tier):
    """Day numbers (0h of the civil day) of calendar seams between -1999 and 3999.  kind 'dense': every 1 January,
    every 1 March of a leap year, and the 1st of every month of every 12th year (thorough: every year); 'medium':
    the month starts only of every 24th year; 'sparse': 1 January (and 1 March of leap years) of every 2nd year;
    'yearly': every 1 January."""
    f = fast()
    out = []
    for y in range(-1999, 4000):
        if kind == "sparse" and y % 2 and tier != "thorough":
            continue
        out.append(f.n(y, 1, 1))
        if kind != "yearly" and cal.mlen(y, 2) == 29:
            out.append(f.n(y, 3, 1))
        stride = {"dense": 12, "medium": 24}.get(kind)
        if stride and (tier == "thorough" or y % stride == 0):
            for m in range(2, 13):
                out.append(f.n(y, m, 1))
    return sorted(set(out))


def seam_kind(nm, fn):
    if fn not in ("perihelion_aphelion", "passage_nodes"):
        return "dense"
    if nm in ("Venus", "Earth", "Mars"):
        return "medium"
    if nm == "Mercury":
        return "sparse"
    return "yearly"


def run_calendar_seams(spec, ctx):
    """spec = (variant index, [day numbers]): the finder is asked 2e-7 day before and 1e-6 day after 0h of each
    seam day; the decimal year the period count is taken from must not run backwards there, so the later query
    must not get an earlier event."""
    vi, days = spec
    nm, fn, variant, per = variants()[vi]
    for n in days:
        q0 = n - 0.5
        ctx.evals += 2
        case = {"planet": nm, "finder": fn, "variant": variant, "query": q0 + 1e-6, "previous_query": q0 - 2e-7,
                "year": fast().date(n)[0]}
        try:
            r1, _ = call(nm, fn, variant, q0 - 2e-7)        # the last 17 ms of the previous day (month, year)
            r2, _ = call(nm, fn, variant, q0 + 1e-6)
        except ValueError as ex:
            if -1999 < case["year"] < 3999:
                ctx.viol(case, "%s.%s(%s) at the calendar seam JDE %r raised %r" % (nm, fn, variant, q0, ex),
                         site="finder_exception")
            continue                # range ends are judged by the range clause
        except Exception as ex:
            ctx.viol(case, "%s.%s(%s) at the calendar seam JDE %r raised %r" % (nm, fn, variant, q0, ex),
                     site="finder_exception")
            continue
        if r2 < r1 - 1e-4:
            ctx.viol(case, "%s.%s(%s): the query 1e-6 d after 0h of %r gets JDE %r, the query 2e-7 d before it JDE %r "
                     "(%.3f periods back)" % (nm, fn, variant, fast().date(n), r2, r1, (r1 - r2) / per),
                     dev=(r1 - r2) / per, site="seam_backwards")
    ctx.nt_count += len(days)
    ctx.outcome((nm, fn, variant))
    ctx.obs(vi, len(days))
    ctx.sample({"planet": nm, "finder": fn, "variant": variant, "seam_days": len(days)})


# -- the query instant at which a finder switches from one event to the next: whole minutes and hours around it -----

def check_switch(case):
    """The switch instant q_s (the finder answers event n before it, event n + 1 after it) is located by bisection
    on the finder itself, starting from the given query; then the finder is asked 1 s before and after every whole
    minute within +-9 minutes of q_s and 2 s before and after every whole hour within +-2 hours: in time order
    the answers must never step back to the earlier event.  (A count of periods taken from a decimal year that
    drops back at whole minutes or hours - a mistyped divisor in a time-of-day term - flips back and forth there.)"""
    nm, fn, variant, per = variants()[case["variant_index"]]
    q0 = case["query"]
    f = lambda q: call(nm, fn, variant, q)[0]
    try:
        ra = f(q0)
        qb = q0 + 1.3 * per
        rb = f(qb)
        if rb < ra + 0.5 * per:
            return []           # no switch in reach (range end): nothing to examine here
        lo, hi = q0, qb
        while hi - lo > 2e-7:
            mid = (lo + hi) / 2.0
            if f(mid) < ra + 0.5 * per:
                lo = mid
            else:
                hi = mid
        pts = []
        m0 = math.floor(hi * 1440.0)
        for k in range(-9, 10):
            pts += [(m0 + k) / 1440.0 - 1.0 / 86400.0, (m0 + k) / 1440.0 + 1.0 / 86400.0]
        h0 = math.floor(hi * 24.0)
        for k in range(-2, 3):
            pts += [(h0 + k) / 24.0 - 2.0 / 86400.0, (h0 + k) / 24.0 + 2.0 / 86400.0]
        pts = sorted(set(pts + [lo, hi]))
        vals = [f(q) for q in pts]
    except ValueError as ex:
        return [("switch_exception", "%s.%s(%s) raised %r near the switch after the query JDE %r" % (nm, fn, variant, ex, q0), None)]
    out = []
    best = vals[0]
    for q, v in zip(pts, vals):
        if v < best - 0.5 * per:
            out.append(("switch_backwards", "%s.%s(%s): the query JDE %r gets the event at JDE %r, an earlier query got "
                        "the event at JDE %r (switch instant %r)" % (nm, fn, variant, q, v, best, hi), (best - v) / per))
            break
        best = max(best, v)
    return out


def switch_cases(tier):
    n = 400 if tier == "thorough" else 40
    out = []
    ja, jb = 2451545.0 + (-1990 - 2000) * 365.25, 2451545.0 + (3980 - 2000) * 365.25
    for vi, (nm, fn, variant, per) in enumerate(variants()):
        for i in range(n):
            # irrational stride: the switch instants fall at unrelated times of day
            out.append({"variant_index": vi, "query": ja + ((i * 0.6180339887 + 0.013 * vi) % 1.0) * (jb - ja)})
    return out


def run_switches(block, ctx):
    for case in block:
        ctx.evals += 90
        ctx.nt_count += 1
        for site, msg, dev in check_switch(case):
            ctx.viol(case, msg, dev=dev, site=site)
        ctx.outcome(case["variant_index"])
    ctx.obs(block[0], block[-1])
    ctx.sample(block[0])


def check_range(case):
    nm, fn = case["planet"], case["finder"]
    out = []
    f = getattr(planet(nm), fn)
    for (y, m, d), ok in (((-2001, 12, 30), False), ((-2000, 1, 2), True), ((3999, 12, 30), True), ((4001, 1, 2), False),
                          ((-3000, 6, 1), False), ((5000, 6, 1), False)):
        try:
            f(Epoch(y, m, d))
            if not ok:
                out.append("%s.%s accepted a query in year %d (range -2000..4000)" % (nm, fn, y))
        except ValueError as ex:
            if ok:
                out.append("%s.%s refused a query in year %d: %r" % (nm, fn, y, ex))
        except Exception as ex:
            out.append("%s.%s raised %r for year %d" % (nm, fn, ex, y))
    return out


def run_range(block, ctx):
    for case in block:
        ctx.evals += 6
        ctx.nt_count += 1
        for msg in check_range(case):
            ctx.viol(case, msg, site="range")
    ctx.outcome(len(block))
    ctx.sample(block[0])


# -- one Epoch object moved with set() between queries ---------------------------------------------

RE_DATES = [(1990, 6, 1.5), (-1500, 3, 1.0), (3900, 9, 9.0), (2010, 1, 1.25), (1582, 10, 15.0), (5000, 6, 1.0),
            (-2500, 2, 2.0)]


def _outcome(nm, fn, variant, ep):
    try:
        r = getattr(planet(nm), fn)(ep, **kwargs_of(fn, variant))
    except ValueError:
        return ("ValueError",)
    except Exception as ex:
        return ("exception", repr(ex))
    if isinstance(r, tuple):
        return ("ok", r[0].jde(), float(r[1]))
    return ("ok", r.jde())


def check_reused_epoch(case):
    """ONE Epoch is set to each date of the history in turn and handed to the finder; every answer
    (instant, or refusal of an out-of-range date) must be the answer for a fresh Epoch of that date."""
    nm, fn, variant = case["planet"], case["finder"], case["variant"]
    hist = [tuple(d) for d in case["history"]]
    out = []
    ep = Epoch(*hist[0])
    for k, d in enumerate(hist):
        if k:
            ep.set(*d)
        got = _outcome(nm, fn, variant, ep)
        exp = _outcome(nm, fn, variant, Epoch(*d))
        if got != exp:
            out.append("%s.%s(%s) with one Epoch moved by set() through %r: %r, with a fresh Epoch %r"
                       % (nm, fn, variant, hist[:k + 1], got, exp))
            break
        if ep.jde() != Epoch(*d).jde():
            out.append("%s.%s(%s) moved the caller's Epoch" % (nm, fn, variant))
            break
    return out


def run_reused(block, ctx):
    for case in block:
        ctx.evals += 2 * len(case["history"])
        ctx.traces += 1
        ctx.transitions += len(case["history"])
        ctx.nt_count += 1
        res = check_reused_epoch(case)
        for msg in res:
            ctx.viol(case, msg, site="reused_epoch")
        ctx.outcome((case["planet"], case["finder"], len(res)))
        ctx.obs(case, len(res))
    ctx.sample(block[0])


def clauses(tier):
    V = variants()
    sweeps = []
    j_lo, j_hi = Epoch(-2000, 1, 2).jde(), Epoch(3999, 12, 30).jde()
    for vi, (nm, fn, variant, per) in enumerate(V):
        if tier == "thorough":
            total = j_hi - j_lo
            nseg = max(1, min(24, int(total / (per * 40))))
            seg = total / nseg
            for s in range(nseg):
                a = j_lo + s * seg - (per if s else 0.0)
                sweeps.append((vi, a, j_lo + (s + 1) * seg, 10, "segment%d" % s))
        else:
            n_per = 6 if per < 5000 else 3
            for era in (-2000, -1, 1582, 2000, 3990, 1000):
                a = Epoch(era, 1, 2).jde()
                b = a + n_per * per
                if b > j_hi:
                    a, b = j_hi - n_per * per, j_hi
                if a < j_lo:
                    a = j_lo
                sweeps.append((vi, a, b, 1, "era%d" % era))
    rng = [{"planet": nm, "finder": fn} for nm, fl in CH36.items() for fn in fl]
    spots = []
    n_spots = 240 if tier == "quick" else 1200
    for vi, (nm, fn, variant, per) in enumerate(V):
        # irrational stride so that the phase within the period is spread too
        stride = (j_hi - j_lo - 2 * per) / n_spots
        js = [j_lo + per + (i + 0.381966 * ((i * 7) % 11) / 11.0) * stride for i in range(n_spots)]
        for blk_i in range(0, len(js), 60):
            spots.append((vi, js[blk_i:blk_i + 60]))
    import itertools
    reused = [{"planet": nm, "finder": fn, "variant": variant, "history": [list(d) for d in h]}
              for (nm, fn, variant, per) in V
              for n in ((2, 3) if tier == "thorough" else (2,))
              for h in itertools.permutations(RE_DATES, n)]
    every = []
    for vi, (nm, fn, variant, per) in enumerate(V):
        nseg = max(1, min(16, int((j_hi - j_lo) / (per * 200))))
        seg = (j_hi - j_lo - 2 * per) / nseg
        for k in range(nseg):
            every.append((vi, j_lo + per + k * seg, j_lo + per + (k + 1) * seg))
    seams = []
    _sd = {}
    for vi, (nm, fn, variant, per) in enumerate(V):
        kind = seam_kind(nm, fn)
        if kind not in _sd:
            _sd[kind] = seam_days(kind, tier)
        for blk in chunks(_sd[kind], 8 if kind == "dense" else 16):
            seams.append((vi, blk))
    return [
        Clause("calendar_seams", seams, run_calendar_seams, replay_sweep, floor=50000),
        Clause("switch_seams", chunks(switch_cases(tier), 112), run_switches,
               lambda c: [m for _, m, _ in check_switch(c)], floor=1000),
        Clause("every_event", every, run_every_event, replay_sweep, floor=50000),
        Clause("reused_epoch", chunks(reused, 32), run_reused, check_reused_epoch, floor=1000, shape="H"),
        Clause("spot_events", spots, run_spots, replay_sweep, floor=1000),
        Clause("sweeps", sweeps, run_sweep, replay_sweep, floor=1000),
        Clause("range", [rng], run_range, check_range, floor=20),
    ]
