"""C18 - Earth ellipsoid quantities, surface distance, parallax (L)."""
import itertools
import math

from ..engine import Clause, chunks
from ..ref import sphere as S

from pymeeus.Angle import Angle
from pymeeus.Earth import Earth, Ellipsoid, IAU76, WGS84

PROPERTY = "C18"
LEVEL = "exploration"
RULE = ("full product 5 ellipsoids (IAU76, WGS84, f = 0, 0.005, 0.01) x 15 latitudes (poles, +-89.999, "
        "+-66.5, +-45, +-33.356, +-1e-6, 0) x {int, float, Angle} x 4 heights; all ordered pairs of 18 "
        "surface points (equator, poles, same meridian, +-180 seam, 1e-7 degree apart, coincident, "
        "near-antipodal) x 2 ellipsoids; parallax: 6 distances x 3 RA x 7 declinations x 5 observer "
        "latitudes x 4 hour angles (equatorial) and 3 x 5 x 3 x 2 (ecliptical); non-trivial = "
        "|latitude| >= 89 or <= 1e-6, a pair that is coincident / antipodal / on the seam, a "
        "parallax case with distance <= 0.01 AU or |declination| >= 60")
ASSUMPTIONS = ["great-circle and displacement angles by vector algebra",
               "meridian arc by composite Simpson integration of the library's own rm() (2000 panels)"]


def bound(tier):
    return "complete products as stated in the rule (both tiers)"


ELLS = {"IAU76": lambda: IAU76, "WGS84": lambda: WGS84,
        "sphere": lambda: Ellipsoid(6378137.0, 0.0, 7.292e-5),
        "f005": lambda: Ellipsoid(6378137.0, 0.005, 7.292e-5),
        "f01": lambda: Ellipsoid(6378000.0, 0.01, 7.0e-5),
        "norot": lambda: Ellipsoid(6378137.0, 1.0 / 298.257223563, 0.0),
        # almost, but not quite, spherical bodies: a 'spherical' shortcut must be taken for f == 0 only
        "f5e8": lambda: Ellipsoid(6378137.0, 5e-8, 7.292e-5), "f1e10": lambda: Ellipsoid(6378137.0, 1e-10, 7.292e-5),
        "f1e5": lambda: Ellipsoid(6378137.0, 1e-5, 7.292e-5)}
# the rotation rate handed to the constructor (not read back from the object)
OMEGA_GIVEN = {"sphere": 7.292e-5, "f005": 7.292e-5, "f01": 7.0e-5, "norot": 0.0, "f5e8": 7.292e-5, "f1e10": 7.292e-5,
               "f1e5": 7.292e-5}
LATS = [90, 89.999, 66.5, 45, 33.356, 1e-6]
LATS = sorted(set(LATS + [-x for x in LATS] + [0]))
HEIGHTS = [-500, 0, 1706, 9000, 0.5, -0.5, 1e-3, 0.999, -1.0]
REL = 1e-12


def reps(lat):
    out = [("float", float(lat)), ("Angle", Angle(lat))]
    if lat == int(lat):
        out.append(("int", int(lat)))
    return out


def check_ellipsoid(case):
    el = ELLS[case["ellipsoid"]]()
    lat = case["lat"]
    e = Earth(el)
    a, b = el._a, el.b()
    out = []
    phi = math.radians(lat)
    base = None
    for name, lt in reps(lat):
        try:
            rs, rc = e.rho_sinphi(lt, 0), e.rho_cosphi(lt, 0)
            rp, rm, v = e.rp(lt), e.rm(lt), e.linear_velocity(lt)
        except Exception as ex:
            out.append(("exception", "ellipsoid functions raised %r for latitude %r as %s" % (ex, lat, name), None))
            continue
        vals = (rs, rc, rp, rm, v)
        if any((not isinstance(x, float)) or not math.isfinite(x) for x in vals):
            out.append(("type", "non-finite / non-float result %r at latitude %r" % (vals, lat), None))
            continue
        if base is None:
            base = vals
        elif any(abs(x - y) > REL * max(1.0, abs(y)) for x, y in zip(vals, base)):
            out.append(("representation", "latitude %r as %s gives %r, as float %r" % (lat, name, vals, base), None))
        dev = abs(rc * rc + (rs * a / b) ** 2 - 1.0)
        if dev > 1e-12:
            out.append(("ellipse", "(rho cos)^2 + (rho sin a/b)^2 - 1 = %.3g at latitude %r (%s)"
                        % (dev, lat, case["ellipsoid"]), dev))
        if (rs > 0) != (lat > 0) and abs(lat) > 1e-9 and rs != 0:
            out.append(("sign", "rho sin phi' = %r has the wrong sign at latitude %r" % (rs, lat), None))
        if rc < -1e-15:
            out.append(("sign", "rho cos phi' = %r negative at latitude %r" % (rc, lat), None))
        dev = abs(rp - a * rc) / a
        if dev > 1e-12:
            out.append(("parallel_radius", "rp = %r but a rho cos phi' = %r at latitude %r" % (rp, a * rc, lat), dev))
        om = OMEGA_GIVEN.get(case["ellipsoid"], el._omega)
        dev = abs(v - om * rp)
        if dev > 1e-12 * max(1.0, abs(v)):
            out.append(("speed", "linear_velocity = %r, omega * rp = %r (omega = %r as given to the ellipsoid)"
                        % (v, om * rp, om), dev))
        lo, hi = b * b / a, a * a / b
        if not (lo * (1 - 1e-12) <= rm <= hi * (1 + 1e-12)):
            out.append(("rm_range", "rm(%r) = %r outside [b^2/a, a^2/b] = [%r, %r]" % (lat, rm, lo, hi), None))
        if lat == 0 and abs(rm - lo) > 1e-12 * a:
            out.append(("rm_equator", "rm(0) = %r, b^2/a = %r" % (rm, lo), abs(rm - lo) / a))
        if abs(lat) == 90 and abs(rm - hi) > 1e-12 * a:
            out.append(("rm_pole", "rm(+-90) = %r, a^2/b = %r" % (rm, hi), abs(rm - hi) / a))
        for h in HEIGHTS:
            try:
                rsh, rch = e.rho_sinphi(lt, h), e.rho_cosphi(lt, h)
            except Exception as ex:
                out.append(("exception", "height call raised %r" % ex, None))
                continue
            dev = max(abs(rsh - rs - h / a * math.sin(phi)), abs(rch - rc - h / a * math.cos(phi)))
            if dev > 1e-12:
                out.append(("height", "height %r adds (%r, %r), expected h/a (cos, sin) = (%r, %r)"
                            % (h, rch - rc, rsh - rs, h / a * math.cos(phi), h / a * math.sin(phi)), dev))
    return out


def check_monotone(case):
    """rm increases and rp decreases with |latitude|."""
    el = ELLS[case["ellipsoid"]]()
    e = Earth(el)
    out = []
    for sg in (1, -1):
        prev = None
        for lat in sorted(abs(x) for x in LATS if x >= 0):
            rm, rp = e.rm(sg * lat), e.rp(sg * lat)
            if prev is not None:
                if rm < prev[0] * (1 - 1e-13) or rp > prev[1] * (1 + 1e-13) + 1e-9:
                    out.append(("monotone", "rm/rp not monotone in |latitude| at %r (%s): rm %r after %r, rp %r "
                                "after %r" % (sg * lat, case["ellipsoid"], rm, prev[0], rp, prev[1]), None))
            prev = (rm, rp)
    return out


def run_ellipsoid(block, ctx):
    for case in block:
        ctx.evals += 3 * (5 + 8)
        res = check_ellipsoid(case)
        if case["lat"] == 0:
            res += check_monotone(case)
        for site, msg, dev in res:
            ctx.viol(case, msg, dev=dev, site=site)
            ctx.maxi(site, dev)
        if abs(case["lat"]) >= 89 or abs(case["lat"]) <= 1e-6:
            ctx.nt_count += 1
        ctx.outcome((case["ellipsoid"], case["lat"], len(res)))
    ctx.sample(block[0])


# -- surface distance ----------------------------------------------------------

POINTS = [(0, 0), (10, 0), (-170, 0), (170, 0), (180, 0), (90, 0), (0, 45), (0, -45), (0, 90), (0, -90),
          (77.065, 38.92), (-2.337, 48.836), (0, 1e-7), (1e-7, 0), (179.9, -0.1), (-179.95, 0.05),
          (77.065, -10.5), (-102.935, -38.92), (0, 1), (0, 89.999), (0, 0.001),
          (10, 89.999999), (-170, 89.999999), (10, 89.99997), (-170, 89.99997), (10, -89.99999), (-170, -89.99999), (100, 89.9),
          (0, 37), (180, -37), (180, -36.999), (180, -37.00000001), (25, -60), (-155, 60), (-155, 59.5), (-90, 5), (90, -5),
          (180, -45), (180, 45), (180, 1e-7), (180, -1e-7)]


def simpson_meridian(e, p1, p2, n=2000):
    lo, hi = min(p1, p2), max(p1, p2)
    h = (hi - lo) / n
    s = e.rm(lo) + e.rm(hi)
    for i in range(1, n):
        s += (4 if i % 2 else 2) * e.rm(lo + i * h)
    return s * math.radians(h) / 3.0


def check_distance(case):
    el = ELLS[case["ellipsoid"]]()
    e = Earth(el)
    a = el._a
    (l1, p1), (l2, p2) = case["p1"], case["p2"]
    out = []
    try:
        d, err = e.distance(l1, p1, l2, p2)
        d2, _ = e.distance(l2, p2, l1, p1)
        d3, _ = e.distance(Angle(l1), Angle(p1), Angle(l2), Angle(p2))
    except Exception as ex:
        return [("exception", "distance(%r, %r) raised %r" % (case["p1"], case["p2"], ex), None)]
    if not all(isinstance(x, float) and math.isfinite(x) for x in (d, d2, d3)) or d < 0:
        return [("type", "distance(%r, %r) = %r" % (case["p1"], case["p2"], d), None)]
    if abs(d - d2) > 1e-6 + 1e-12 * d:
        out.append(("symmetry", "distance(%r,%r) = %r but reversed %r" % (case["p1"], case["p2"], d, d2), abs(d - d2)))
    if abs(d - d3) > 1e-6 + 1e-12 * d:
        out.append(("representation", "distance with Angle arguments %r vs numbers %r" % (d3, d), abs(d - d3)))
    gc = a * math.radians(S.sep_ll(l1, p1, l2, p2))
    if (l1, p1) == (l2, p2) and d != 0.0:
        out.append(("coincident", "distance between coincident points = %r" % d, d))
    # 0.6 % is the size of the effect for the built-in ellipsoids (f ~ 1/298); a user
    # ellipsoid with flattening f may differ from the sphere by up to ~2 f
    if gc > 1.0 and abs(d - gc) / gc > max(0.006, 2.0 * el._f):
        out.append(("great_circle", "distance(%r,%r) = %r, great circle %r" % (case["p1"], case["p2"], d, gc),
                    abs(d - gc) / gc))
    if p1 == 0 and p2 == 0:
        dl = abs(l1 - l2) % 360.0
        dl = min(dl, 360.0 - dl)
        exp = a * math.radians(dl)
        if abs(d - exp) > 1e-4 * max(1.0, exp):
            out.append(("equator", "equatorial distance(%r,%r) = %r, a * dlon = %r" % (case["p1"], case["p2"], d, exp),
                        abs(d - exp) / max(1.0, exp)))
    if abs(abs(l1 - l2) - 180.0) < 1e-9 and not (p1 == 0 and p2 == 0) and (abs(p1) < 90 or abs(p2) < 90):
        # opposite meridians (one meridian ellipse): the geodesic runs over the nearer pole - two meridian arcs;
        # exactly antipodal points are half a meridian ellipse apart over either pole
        s = min(simpson_meridian(e, p1, pole, n=400) + simpson_meridian(e, p2, pole, n=400) for pole in (90.0, -90.0))
        if s > 0 and abs(d - s) > 2e-4 * max(1.0, s) and abs(d - s) > 2e-4 * s + 1e-6:
            out.append(("over_pole", "distance(%r,%r) over the pole = %r, sum of the two meridian arcs %r"
                        % (case["p1"], case["p2"], d, s), abs(d - s) / max(1e-9, s)))
    if l1 == l2 and p1 != p2:
        s = simpson_meridian(e, p1, p2)
        if abs(d - s) > 1e-4 * max(1.0, s):
            out.append(("meridian", "meridian distance(%r,%r) = %r, integral of rm = %r" % (case["p1"], case["p2"], d, s),
                        abs(d - s) / max(1.0, s)))
    return out


def distance_cases():
    return [{"ellipsoid": en, "p1": list(p), "p2": list(q)} for en in ("IAU76", "WGS84", "f01")
            for p in POINTS for q in POINTS]


def run_distance(block, ctx):
    for case in block:
        ctx.evals += 3
        res = check_distance(case)
        for site, msg, dev in res:
            ctx.viol(case, msg, dev=dev, site="distance_" + site)
            ctx.maxi("distance_" + site, dev)
        p, q = case["p1"], case["p2"]
        sep = S.sep_ll(p[0], p[1], q[0], q[1])
        if sep < 1e-6 or sep > 179 or abs(p[0]) >= 170 or abs(q[0]) >= 170:
            ctx.nt_count += 1
        ctx.outcome((case["ellipsoid"], len(res)))
    ctx.sample(block[1])


# -- parallax --------------------------------------------------------------------

DISTS = [1e-3, 0.0024650163, 0.37276, 1.0, 30.0, 1e3]
SINPI1 = math.sin(math.radians(8.794 / 3600.0))


def hp(dist):
    return math.degrees(math.asin(SINPI1 / dist))


def check_parallax_equ(case):
    ra, dec, lat, ha, h = case["ra"], case["dec"], case["lat"], case["ha"], case["height"]
    out = []
    disp = []
    for dist in DISTS:
        try:
            A = [Angle(ra), Angle(dec), Angle(lat), Angle(ha)]
            tra, tdec = Earth.parallax_correction(A[0], A[1], A[2], dist, A[3], float(h))
        except Exception as ex:
            out.append(("equ_exception", "parallax_correction(%r, dist %r) raised %r" % (case, dist, ex), None))
            continue
        if [x._deg for x in A] != [Angle(ra)._deg, dec, lat, Angle(ha)._deg]:
            out.append(("mutation", "parallax_correction modified its arguments", None))
        if not (isinstance(tra, Angle) and isinstance(tdec, Angle)) or not (-90.0 <= tdec._deg <= 90.0):
            out.append(("equ_range", "parallax_correction(%r, dist %r) = (%r, %r)" % (case, dist, tra, tdec), None))
            continue
        s = S.sep_ll(ra, dec, tra._deg, tdec._deg)
        lim = hp(dist) * (1.0 + max(h, 0) / 6378140.0) * (1 + 1e-6) + 1e-12
        if s > lim:
            out.append(("equ_bound", "parallax_correction(ra %r, dec %r, lat %r, H %r, dist %r) displaces the body "
                        "by %r deg, horizontal parallax %r" % (ra, dec, lat, ha, dist, s, hp(dist)), s))
        disp.append(s)
    if len(disp) == len(DISTS):
        for i in range(1, len(disp)):
            if disp[i] > disp[i - 1] * (1 + 1e-9) + 1e-13:
                out.append(("equ_decay", "displacement grows with distance: %r" % disp, None))
                break
        if disp[-1] > hp(1.0) * 1.01 / DISTS[-1] + 1e-12:
            out.append(("equ_limit", "displacement at 1000 AU is %r deg" % disp[-1], disp[-1]))
    return out


def check_parallax_ecl(case):
    lon, latb, obs, sid = case["lon"], case["lat"], case["obs"], case["sid"]
    out = []
    disp = []
    for dist in DISTS:
        try:
            tl, tb, ts = Earth.parallax_ecliptical(Angle(lon), Angle(latb), Angle(0, 16, 15.5), Angle(obs),
                                                   Angle(23.4669), Angle(sid), dist)
        except Exception as ex:
            out.append(("ecl_exception", "parallax_ecliptical(%r, dist %r) raised %r" % (case, dist, ex), None))
            continue
        if not (isinstance(tl, Angle) and isinstance(tb, Angle)):
            out.append(("ecl_type", "parallax_ecliptical returned %r" % ((tl, tb, ts),), None))
            continue
        s = S.sep_ll(lon, latb, tl._deg, tb._deg)
        if s > hp(dist) * (1 + 1e-6) + 1e-12 or not (-90.0 <= tb._deg <= 90.0):
            out.append(("ecl_bound", "parallax_ecliptical(lon %r, lat %r, obs %r, sid %r, dist %r) -> (%r, %r): "
                        "displaced %r deg, horizontal parallax %r" % (lon, latb, obs, sid, dist, tl._deg, tb._deg,
                                                                      s, hp(dist)), s))
        disp.append(s)
    if len(disp) == len(DISTS):
        for i in range(1, len(disp)):
            if disp[i] > disp[i - 1] * (1 + 1e-9) + 1e-13:
                out.append(("ecl_decay", "displacement grows with distance: %r" % disp, None))
                break
        if disp[-1] > hp(1.0) * 1.01 / DISTS[-1] + 1e-12:
            out.append(("ecl_limit", "displacement at 1000 AU is %r deg" % disp[-1], disp[-1]))
    return out


def parallax_cases():
    out = []
    for ra, dec, lat, ha in itertools.product((0.0, 339.53, 180.0), (-89.0, -60.0, -15.77, 0.0, 15.77, 60.0, 89.0),
                                              (-90.0, -33.356, 0.0, 33.356, 90.0), (0.0, 90.0, 180.0, 288.7958)):
        for h in (0, 1706):
            out.append({"kind": "equ", "ra": ra, "dec": dec, "lat": lat, "ha": ha, "height": h})
    for lon, latb, obs, sid in itertools.product((0.0, 181.77, 359.9), (-60.0, -2.29, 0.0, 2.29, 60.0),
                                                 (-50.0, 0.0, 50.085), (0.0, 209.77)):
        out.append({"kind": "ecl", "lon": lon, "lat": latb, "obs": obs, "sid": sid})
    return out


def check_parallax(case):
    return check_parallax_equ(case) if case["kind"] == "equ" else check_parallax_ecl(case)


def run_parallax(block, ctx):
    for case in block:
        ctx.evals += len(DISTS)
        res = check_parallax(case)
        for site, msg, dev in res:
            ctx.viol(case, msg, dev=dev, site=site)
            ctx.maxi(site, dev)
        if abs(case.get("dec", case.get("lat"))) >= 60:
            ctx.nt_count += 1
        ctx.outcome((case["kind"], len(res)))
    ctx.sample(block[0])


# -- one Earth object re-set to other ellipsoids ------------------------------------------------------

# two more ellipsoids for the histories: same figure as a built-in one, other rotation rate
HIST_ELLS = dict(ELLS)
HIST_ELLS["WGS84_sidereal"] = lambda: Ellipsoid(WGS84._a, WGS84._f, 2.0 * math.pi / 86164.0905)
HIST_ELLS["f01_slow"] = lambda: Ellipsoid(6378000.0, 0.01, 3.5e-5)


def earth_views(e, other=None):
    """26 answers of an Earth object; with ``other`` (a second, already built Earth on a different
    ellipsoid) every single call is preceded by the same call on that object, so that anything the
    class shares between instances is overwritten just before it is needed."""
    v = []

    def ask(name, *args):
        if other is not None:
            getattr(other, name)(*args)
        return getattr(e, name)(*args)
    for lat in (0.0, 33.356, -66.5, 90.0):
        v += [ask("rho", lat), ask("rho_sinphi", lat, 1706), ask("rho_cosphi", lat, 1706), ask("rp", lat),
              ask("rm", lat), ask("linear_velocity", lat)]
    v.append(ask("distance", 2.337, 48.836, -77.065, 38.92)[0])
    v.append(ask("distance", 0.0, 0.0, 0.0, 45.0)[0])
    return v


def check_earth_history(case):
    """ONE Earth object: queried, set() to another ellipsoid, queried again ...; after every step all
    its answers must be those of a fresh Earth on the current ellipsoid."""
    hist = case["history"]
    out = []
    e = Earth(HIST_ELLS[hist[0]]())
    bystander = Earth(HIST_ELLS["f005" if hist[0] != "f005" else "f01"]())
    for k, name in enumerate(hist):
        if k:
            try:
                e.set(HIST_ELLS[name]())
            except Exception as ex:
                out.append("Earth.set(%s) raised %r" % (name, ex))
                break
        try:
            exp = earth_views(Earth(HIST_ELLS[name]()))
            got = earth_views(e)
            if got == exp:
                got = earth_views(e, other=bystander)      # interleaved with a second Earth object
        except Exception as ex:
            out.append("views after %r raised %r" % (hist[:k + 1], ex))
            break
        bad = [i for i in range(len(got)) if got[i] != exp[i]]
        if bad:
            out.append("after %r the re-used Earth answers %r where a fresh Earth(%s) answers %r (view %d)"
                       % (hist[:k + 1], got[bad[0]], name, exp[bad[0]], bad[0]))
            break
    return out


def run_earth_history(block, ctx):
    for case in block:
        ctx.evals += 2 * 26 * len(case["history"])
        ctx.traces += 1
        ctx.transitions += len(case["history"]) - 1
        ctx.nt_count += 1
        res = check_earth_history(case)
        for msg in res:
            ctx.viol(case, msg, site="earth_history")
        ctx.outcome((case["history"][-1], len(res)))
    ctx.sample(block[0])


def clauses(tier):
    global POINTS
    lats = LATS
    if tier == "thorough":
        lats = sorted(set(LATS + list(range(-90, 91, 1)) + [89.999999, -89.999999, 1e-9, -1e-9]))
        POINTS = sorted(set(POINTS + [(lo, la) for lo in (-180, -90, -45, 0, 30, 90, 135, 179.999999)
                                      for la in (-90, -60, -30, -1e-7, 0, 30, 60, 89.999, 90)]))
    ell = [{"ellipsoid": en, "lat": lat} for en in ELLS for lat in lats]
    hists = [{"history": list(h)} for n in ((2, 3, 4) if tier == "thorough" else (2, 3))
             for h in itertools.product(sorted(HIST_ELLS), repeat=n)]
    return [
        Clause("earth_history", chunks(hists, 8), run_earth_history, check_earth_history, floor=100, shape="H"),
        Clause("ellipsoid", chunks(ell, 8), run_ellipsoid,
               lambda c: [m for _, m, _ in check_ellipsoid(c)], floor=20),
        Clause("distance", chunks(distance_cases(), 16), run_distance,
               lambda c: [m for _, m, _ in check_distance(c)], floor=50),
        Clause("parallax", chunks(parallax_cases(), 16), run_parallax,
               lambda c: [m for _, m, _ in check_parallax(c)], floor=50),
    ]
