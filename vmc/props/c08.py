"""C08 - Sun/Earth positions agree across frames; obliquity and nutation (L)."""
import datetime
import math

from ..engine import Clause, chunks
from ..ref import sphere as S

from pymeeus.Angle import Angle
from pymeeus.Epoch import Epoch, JDE2000
from pymeeus.Coordinates import (mean_obliquity, true_obliquity, nutation_longitude,
                                 nutation_obliquity, precession_equatorial, precession_ecliptical,
                                 ecliptical2equatorial)
from pymeeus.Sun import Sun
from pymeeus.Earth import Earth
from pymeeus.Moon import Moon

PROPERTY = "C08"
LEVEL = "exploration"
RULE = ("frame clauses: 162 epochs 1000..3000 (step 12.37 yr, so every season occurs) x {J2000, "
        "B1950, 7 equinoxes J2000 +- {0, .5, 1, 3} centuries, equinox = date}; reflection, obliquity "
        "and nutation: every 25th year -2000..4000 x 4 seasons; coarse Sun: every 73 days 1800..2200; "
        "date-argument forms: 12 instants x 7 forms; non-trivial = every frame/coarse case and every "
        "epoch more than 10 centuries from J2000")
ASSUMPTIONS = ["the of-date position is carried to the other frames by the library's own "
               "precession_equatorial / precession_ecliptical (judged by C06)",
               "IAU 1976 obliquity cubic and the 18.6-year main nutation term (-17.20'' sin Omega, "
               "9.20'' cos Omega) with Omega from Moon.longitude_mean_ascending_node"]
J2000 = 2451545.0
B1950 = 2433282.4235


def bound(tier):
    if tier == "thorough":
        return ("frames: 971 epochs 1000..3000 x 22 target frames; reflection/obliquity/nutation: every 5th year "
                "x 12 phases; coarse Sun every 7.3 days 1800..2200")
    return "epoch lattices as in the rule"


def y2jde(y):
    return J2000 + (y - 2000.0) * 365.25


def wrap180(x):
    return (x + 180.0) % 360.0 - 180.0


def dist3(u, v):
    return math.sqrt(sum((a - b) ** 2 for a, b in zip(u, v)))


# -- reflection -----------------------------------------------------------------------

def check_reflection(j):
    out = []
    e = Epoch(j)
    try:
        pairs = [
            ("geometric FK5", Sun.geometric_geocentric_position(e), Earth.geometric_heliocentric_position(e)),
            ("geometric tofk5=False", Sun.geometric_geocentric_position(e, tofk5=False),
             Earth.geometric_heliocentric_position(e, tofk5=False)),
            ("apparent", Sun.apparent_geocentric_position(e), Earth.apparent_heliocentric_position(e)),
            ("apparent nutation=False", Sun.apparent_geocentric_position(e, nutation=False),
             Earth.apparent_heliocentric_position(e, nutation=False)),
        ]
    except Exception as ex:
        return [("exception", "Sun/Earth position at JDE %r raised %r" % (j, ex), None)]
    for lab, (sl, sb, sr), (el, eb, er) in pairs:
        dl = abs(wrap180(sl._deg - el._deg - 180.0))
        if dl > 1e-11 or abs(sb._deg + eb._deg) > 1e-13 or sr != er:
            out.append(("reflection", "Sun %s (%r, %r, %r) is not the reflection of Earth (%r, %r, %r) at JDE %r"
                        % (lab, sl._deg, sb._deg, sr, el._deg, eb._deg, er, j), dl))
        if not (-360.0 < sl._deg < 360.0) or not (0.98 < sr < 1.02):
            out.append(("range", "Sun %s longitude %r / distance %r at JDE %r" % (lab, sl._deg, sr, j), None))
    if e.jde() != Epoch(j).jde():
        out.append(("mutation", "position call shifted the caller's Epoch", None))
    return out


# -- obliquity, nutation ----------------------------------------------------------------

def check_obliquity(j):
    out = []
    e = Epoch(j)
    T = (e.jde() - J2000) / 36525.0
    try:
        eps0 = mean_obliquity(e)
        eps = true_obliquity(e)
        dpsi = nutation_longitude(e)
        deps = nutation_obliquity(e)
        om = Moon.longitude_mean_ascending_node(e).rad()
    except Exception as ex:
        return [("exception", "obliquity/nutation at JDE %r raised %r" % (j, ex), None)]
    if abs(T) <= 20:
        iau = 23 + 26 / 60.0 + 21.448 / 3600.0 + (-46.8150 * T - 0.00059 * T * T + 0.001813 * T ** 3) / 3600.0
        d = abs(eps0._deg - iau) * 3600.0
        if d > 3.0:
            out.append(("obliquity", "mean_obliquity = %r deg, IAU cubic %r (%.3f arcsec) at JDE %r"
                        % (eps0._deg, iau, d, j), d))
    d = abs(dpsi._deg * 3600.0 - (-17.20 * math.sin(om)))
    if d > 3.5:
        out.append(("nutation_longitude", "nutation in longitude %r arcsec vs main term %r at JDE %r"
                    % (dpsi._deg * 3600, -17.20 * math.sin(om), j), d))
    d = abs(deps._deg * 3600.0 - 9.20 * math.cos(om))
    if d > 1.5:
        out.append(("nutation_obliquity", "nutation in obliquity %r arcsec vs main term %r at JDE %r"
                    % (deps._deg * 3600, 9.20 * math.cos(om), j), d))
    d = abs(eps._deg - (eps0._deg + deps._deg))
    if d > 1e-9:
        out.append(("true_obliquity", "true obliquity %r != mean %r + nutation %r at JDE %r"
                    % (eps._deg, eps0._deg, deps._deg, j), d))
    return out


def run_epochs(block, ctx):
    for j in block:
        ctx.evals += 2
        res = check_reflection(j) + check_obliquity(j)
        for site, msg, dev in res:
            ctx.viol({"jde": j}, msg, dev=dev, site=site)
            ctx.maxi(site, dev)
        if abs(j - J2000) > 365250:
            ctx.nt_count += 1
        ctx.obs(j, len(res))
    ctx.outcome(len(block))
    ctx.sample({"jde": block[0]})


# -- frames --------------------------------------------------------------------------------

EQUINOX_OFFSETS = [0.0, 0.5, -0.5, 1.0, -1.0, 3.0, -3.0,
                   # both sides of the special value 'equinox = J2000' (0.1, 0.5, 2 years)
                   0.001, -0.001, 0.005, -0.005, 0.02, -0.02]


def check_mean_equinox(j):
    """rectangular_coordinates_mean_equinox against the harness's own rotation of the geometric geocentric
    position by the mean obliquity."""
    e = Epoch(j)
    try:
        x, y, z = Sun.rectangular_coordinates_mean_equinox(e)
        lon, lat, r = Sun.geometric_geocentric_position(e)
        eps = mean_obliquity(e).rad()
    except Exception as ex:
        return [("exception", "mean-equinox rectangular coordinates at JDE %r raised %r" % (j, ex), None)]
    ll, b = lon.rad(), lat.rad()
    X = (r * math.cos(b) * math.cos(ll),
         r * (math.cos(b) * math.sin(ll) * math.cos(eps) - math.sin(b) * math.sin(eps)),
         r * (math.cos(b) * math.sin(ll) * math.sin(eps) + math.sin(b) * math.cos(eps)))
    d = dist3(X, (x, y, z))
    if d > 1e-9:
        return [("mean_equinox_rotation", "rectangular_coordinates_mean_equinox = %r, the geocentric position (%r, %r, %r) "
                 "turned by the mean obliquity is %r (%.3g AU) at JDE %r" % ((x, y, z), lon._deg, lat._deg, r, X, d, j), d)]
    return []


def sun_latitude_zero_cases(tier):
    return [(y, q) for y in ((-1990, -1000, 0, 1000, 2000, 3000, 3990) if tier == "thorough" else (-1990, 2000, 3990))
            for q in range(8)]


def run_sun_latitude_zeros(spec, ctx):
    """spec = (year, eighth of the year): the Sun's geometric latitude (|b| < 1.2 arcsec) is scanned day by day,
    every sign change narrowed to adjacent doubles, and the mean-equinox coordinates checked there and 10 s, 1 min,
    2 min, 10 min around - where a 'Sun on the ecliptic' shortcut would be taken."""
    y, q = spec
    j = J2000 + (y - 2000.0) * 365.25 + q * 45.7
    end = j + 45.7
    f = lambda t: Sun.geometric_geocentric_position(Epoch(t))[1]._deg
    prev = f(j)
    found = 0
    while j < end:
        j2 = j + 1.0
        cur = f(j2)
        ctx.evals += 1
        if (prev > 0.0) != (cur > 0.0):
            lo, hi, slo = j, j2, prev > 0.0
            while True:
                mid = lo + (hi - lo) / 2.0
                if mid <= lo or mid >= hi:
                    break
                ctx.evals += 1
                if (f(mid) > 0.0) == slo:
                    lo = mid
                else:
                    hi = mid
            found += 1
            for t in [lo, hi] + [hi + d / 86400.0 for d in (-600.0, -120.0, -60.0, -10.0, -1.0, 1.0, 10.0, 60.0, 120.0, 600.0)]:
                ctx.evals += 1
                ctx.nt_count += 1
                for site, msg, dev in check_mean_equinox(t):
                    ctx.viol({"jde": t}, msg, dev=dev, site="latitude_zero_" + site)
        j, prev = j2, cur
    ctx.count("sun_latitude_zero_crossings", found)
    ctx.outcome((y, found))
    ctx.obs(y, q, found)
    ctx.sample({"year": y, "eighth": q, "crossings": found})


# -- instants at which an internal quantity of the apparent / precessed position takes a special value ---------------

def check_apparent_minus_geometric(j):
    """Apparent minus geometric longitude of the Sun = nutation in longitude - 20.4898''/R (and without nutation)."""
    e = Epoch(j)
    try:
        gl, gb, gr = Sun.geometric_geocentric_position(e)
        al, ab, ar = Sun.apparent_geocentric_position(e)
        nl, nb, nr = Sun.apparent_geocentric_position(e, nutation=False)
        dpsi = nutation_longitude(e)._deg * 3600.0
    except Exception as ex:
        return [("exception", "apparent / geometric position at JDE %r raised %r" % (j, ex), None)]
    out = []
    ab_ = -20.4898 / gr
    d1 = ((al._deg - gl._deg + 180.0) % 360.0 - 180.0) * 3600.0
    d2 = ((nl._deg - gl._deg + 180.0) % 360.0 - 180.0) * 3600.0
    if abs(d1 - (dpsi + ab_)) > 0.01 or abs(d2 - ab_) > 0.01 or ar != gr:
        out.append(("apparent_minus_geometric", "apparent - geometric longitude of the Sun = %r arcsec (%r without nutation), "
                    "nutation + aberration = %r (%r) at JDE %r, R = %r" % (d1, d2, dpsi + ab_, ab_, j, gr),
                    max(abs(d1 - (dpsi + ab_)), abs(d2 - ab_))))
    return out


def check_earth_j2000(j, limit=600.0):
    """(limit in arcseconds: the J2000 series carries the typos of finding C08-a, up to 143 arcsec; a quadrant error
    of the precession is 180 degrees)"""
    e = Epoch(j)
    try:
        L, B, R = Earth.geometric_heliocentric_position(e, tofk5=False)
        Lj, Bj, Rj = Earth.geometric_heliocentric_position_j2000(e, tofk5=False)
        l2, b2 = precession_ecliptical(e, Epoch(J2000), L, B)
    except Exception as ex:
        return [("exception", "Earth J2000 position at JDE %r raised %r" % (j, ex), None)]
    d = S.sep_ll(l2._deg, b2._deg, Lj._deg, Bj._deg) * 3600.0
    if d > limit:
        return [("earth_j2000", "Earth J2000 series is %.2f arcsec from the of-date position precessed to J2000, at JDE %r"
                 % (d, j), d)]
    return []


def _bisect_sign(f, lo, hi):
    slo = f(lo) > 0.0
    while True:
        mid = lo + (hi - lo) / 2.0
        if mid <= lo or mid >= hi:
            return lo, hi
        if (f(mid) > 0.0) == slo:
            lo = mid
        else:
            hi = mid


def run_special_instants(y, ctx):
    """Year y: (a) the two instants at which the Earth's radius vector passes 1 AU exactly, (b) the two at which the
    Earth's of-date longitude is 90 degrees from the node of the ecliptic of date on the J2000 ecliptic (where the
    arctangent of the ecliptical precession has a vanishing denominator) - each narrowed to adjacent doubles."""
    from ..ref import precession as PR
    j0 = J2000 + (y - 2000.0) * 365.25

    def f_r(t):
        return Earth.geometric_heliocentric_position(Epoch(t), tofk5=False)[2] - 1.0

    def f_q(t):
        T = (t - J2000) / 36525.0
        eta, pi_, p = PR.ecliptical_angles(T, -T)
        L = Earth.geometric_heliocentric_position(Epoch(t), tofk5=False)[0]._deg
        return math.cos(math.radians(pi_ - L))

    def f_n(t):
        T = (t - J2000) / 36525.0
        eta, pi_, p = PR.ecliptical_angles(T, -T)
        L = Earth.geometric_heliocentric_position(Epoch(t), tofk5=False)[0]._deg
        return math.sin(math.radians(pi_ - L))

    def f_c(t):
        return math.cos(math.radians(Sun.apparent_longitude_coarse(Epoch(t))[0]._deg))

    def f_psi(t):
        return nutation_longitude(Epoch(t))._deg

    def f_eps(t):
        return nutation_obliquity(Epoch(t))._deg

    def f_om(t):
        T = (t - J2000) / 36525.0
        om = 125.04452 + T * (-1934.136261 + T * (0.0020708 + T / 450000.0))
        return math.sin(math.radians(om))
    found = 0
    fam = [("R = 1 AU", f_r, 5.0, 366.0), ("longitude 90 deg from the node", f_q, 5.0, 366.0),
           ("longitude on the line of nodes", f_n, 5.0, 366.0),
           # nutation in longitude / obliquity passing through zero, and the node argument of the series passing 0 / 180
           ("nutation in longitude = 0", f_psi, 3.0, 9.4 * 365.25), ("nutation in obliquity = 0", f_eps, 3.0, 9.4 * 365.25),
           ("node argument of the nutation series = 0 or 180", f_om, 30.0, 9.4 * 365.25)]
    if 1800 <= y <= 2199:
        fam.append(("coarse apparent longitude = 90 or 270", f_c, 5.0, 366.0))
    for name, f, step, span in fam:
        t, prev = j0, f(j0)
        while t < j0 + span:
            t2 = t + step
            cur = f(t2)
            ctx.evals += 1
            if (prev > 0.0) != (cur > 0.0):
                lo, hi = _bisect_sign(f, t, t2)
                found += 1
                for x in (lo, hi, hi + 10.0 / 86400.0, lo - 10.0 / 86400.0, hi + 25.0 / 86400.0, lo - 25.0 / 86400.0,
                          math.nextafter(hi, math.inf), math.nextafter(lo, -math.inf)):
                    ctx.evals += 1
                    ctx.nt_count += 1
                    res = check_apparent_minus_geometric(x) + check_reflection(x) + check_obliquity(x)
                    if 1800 <= y <= 2199:
                        res += check_coarse(x)
                    res += check_earth_j2000(x)
                    for r_ in res:
                        ctx.viol({"jde": x, "what": name}, r_[1], dev=r_[2], site="special_" + r_[0])
            t, prev = t2, cur
    ctx.count("special_instants", found)
    ctx.outcome((y, found))
    ctx.obs(y, found)
    ctx.sample({"jde": j0, "what": "sample"})


def replay_special(case):
    j = case["jde"]
    res = check_apparent_minus_geometric(j) + check_reflection(j) + check_obliquity(j)
    y = 2000.0 + (j - J2000) / 365.25
    if 1800 <= y <= 2199:
        res += check_coarse(j)
    res += check_earth_j2000(j)
    return [r_[1] for r_ in res]


def check_frames(j):
    out = check_mean_equinox(j)
    e = Epoch(j)
    try:
        x, y, z = Sun.rectangular_coordinates_mean_equinox(e)
        lon, lat, r = Sun.geometric_geocentric_position(e)
    except Exception as ex:
        return [("exception", "mean-equinox rectangular coordinates at JDE %r raised %r" % (j, ex), None)]
    nrm = math.sqrt(x * x + y * y + z * z)
    if abs(nrm - r) > 1e-9:
        out.append(("norm_mean_equinox", "|xyz| = %r, r = %r at JDE %r" % (nrm, r, j), abs(nrm - r)))
    ra = math.degrees(math.atan2(y, x))
    dec = math.degrees(math.atan2(z, math.hypot(x, y)))

    def carried(target_jde):
        a1, d1 = precession_equatorial(e, Epoch(target_jde), Angle(ra), Angle(dec))
        v = S.vec(a1._deg, d1._deg)
        return tuple(r * c for c in v)
    variants = [("j2000", J2000, lambda: Sun.rectangular_coordinates_j2000(e)),
                ("b1950", B1950, lambda: Sun.rectangular_coordinates_b1950(e))]
    for off in EQUINOX_OFFSETS:
        tj = J2000 + 36525.0 * off
        variants.append(("equinox", tj, (lambda tj=tj: Sun.rectangular_coordinates_equinox(e, Epoch(tj)))))
    variants.append(("equinox_of_date", j, lambda: Sun.rectangular_coordinates_equinox(e, Epoch(j))))
    # both sides of the special value 'equinox = date': a year's tenth, and 3 / 47 minutes (where a 'same instant'
    # shortcut with a loose threshold would still fire)
    for dd in (36.525, -36.525, 3.0 / 1440.0, -47.0 / 1440.0):
        tj = j + dd
        variants.append(("equinox", tj, (lambda tj=tj: Sun.rectangular_coordinates_equinox(e, Epoch(tj)))))
    got = {}
    for name, tj, fn in variants:
        try:
            X = fn()
            V = carried(tj)
        except Exception as ex:
            out.append(("exception", "%s frame at JDE %r raised %r" % (name, j, ex), None))
            continue
        got[(name, tj)] = X
        d = dist3(X, V)
        if d > 1e-5:
            out.append(("frame_" + name, "Sun in the %s frame (equinox JDE %r) is %.3g AU from the of-date position "
                        "carried there by precession_equatorial, at JDE %r" % (name, tj, d, j), d, tj))
        n2 = math.sqrt(sum(c * c for c in X))
        if abs(n2 - r) > 1e-9:
            out.append(("norm_" + name, "|xyz| = %r in the %s frame (equinox JDE %r), r = %r at JDE %r"
                        % (n2, name, tj, r, j), abs(n2 - r), tj))
    if ("equinox", J2000) in got and ("j2000", J2000) in got:
        d = dist3(got[("equinox", J2000)], got[("j2000", J2000)])
        if d > 1e-9:
            out.append(("equinox_is_j2000", "rectangular_coordinates_equinox(e, J2000) differs from _j2000 by %.3g AU"
                        % d, d))
    if ("equinox_of_date", j) in got:
        d = dist3(got[("equinox_of_date", j)], (x, y, z))
        if d > 1e-5:
            out.append(("equinox_is_date", "rectangular_coordinates_equinox(e, e) differs from _mean_equinox by %.3g AU"
                        " at JDE %r" % (d, j), d))
    # ecliptical J2000 series of the Earth vs the of-date position precessed to J2000
    try:
        L, B, R = Earth.geometric_heliocentric_position(e, tofk5=False)
        Lj, Bj, Rj = Earth.geometric_heliocentric_position_j2000(e, tofk5=False)
        l2, b2 = precession_ecliptical(e, Epoch(J2000), L, B)
        d = S.sep_ll(l2._deg, b2._deg, Lj._deg, Bj._deg) * 3600.0
        if d > 2.0:
            out.append(("earth_j2000", "Earth J2000 series is %.2f arcsec from the of-date position precessed to "
                        "J2000, at JDE %r" % (d, j), d))
        if abs(R - Rj) > 1e-9:
            out.append(("earth_j2000_r", "radius vector differs between the of-date and J2000 series: %r vs %r"
                        % (R, Rj), abs(R - Rj)))
    except Exception as ex:
        out.append(("exception", "Earth J2000 position at JDE %r raised %r" % (j, ex), None))
    return out


def run_frames(block, ctx):
    for j in block:
        ctx.evals += 20
        ctx.nt_count += 1
        res = check_frames(j)
        for r_ in res:
            site, msg, dev = r_[:3]
            ctx.viol({"jde": j, "year": 2000.0 + (j - J2000) / 365.25,
                      "equinox": r_[3] if len(r_) > 3 else None}, msg, dev=dev, site=site)
            ctx.maxi(site, dev)
        ctx.obs(j, len(res))
    ctx.outcome(len(block))
    ctx.sample({"jde": block[0]})


# -- coarse Sun -------------------------------------------------------------------------------

def check_coarse(j):
    e = Epoch(j)
    out = []
    try:
        tl, r = Sun.true_longitude_coarse(e)
        gl, gb, gr = Sun.geometric_geocentric_position(e, tofk5=False)
        al, r2 = Sun.apparent_longitude_coarse(e)
        pl, pb, pr = Sun.apparent_geocentric_position(e)
        ca, cd, cr = Sun.apparent_rightascension_declination_coarse(e)
        pa, pd = ecliptical2equatorial(pl, pb, true_obliquity(e))
    except Exception as ex:
        return [("exception", "coarse Sun at JDE %r raised %r" % (j, ex), None)]
    for name, a, b in (("true longitude", tl._deg, gl._deg), ("apparent longitude", al._deg, pl._deg)):
        d = abs(wrap180(a - b))
        if d > 0.02:
            out.append(("coarse_longitude", "coarse %s %r vs VSOP87 %r (%.4f deg) at JDE %r" % (name, a, b, d, j), d))
    # each coordinate on its own (the right ascension difference is 1 / cos(dec) times the arc) and the arc
    d = max(S.sep_ll(ca._deg, cd._deg, pa._deg, pd._deg), abs(wrap180(ca._deg - pa._deg)), abs(cd._deg - pd._deg))
    if d > 0.02:
        out.append(("coarse_equatorial", "coarse apparent RA/dec (%r, %r) vs VSOP87 (%r, %r): %.4f deg at JDE %r"
                    % (ca._deg, cd._deg, pa._deg, pd._deg, d, j), d))
    for rr in (r, r2, cr):
        if abs(rr - gr) > 2e-4:
            out.append(("coarse_radius", "coarse radius vector %r vs VSOP87 %r at JDE %r" % (rr, gr, j), abs(rr - gr)))
    return out


def run_coarse(block, ctx):
    for j in block:
        ctx.evals += 3
        ctx.nt_count += 1
        res = check_coarse(j)
        for site, msg, dev in res:
            ctx.viol({"jde": j}, msg, dev=dev, site=site)
            ctx.maxi(site, dev)
    ctx.outcome(len(block))
    ctx.sample({"jde": block[0]})


# -- date-argument forms -----------------------------------------------------------------------

INSTANTS = [(-1500, 3, 14, 6), (-1, 12, 31, 0), (0, 2, 29, 12), (1, 1, 1, 0), (1000, 6, 15, 18),
            (1582, 10, 4, 0), (1582, 10, 15, 12), (1987, 4, 10, 0), (1992, 10, 13, 0), (2000, 1, 1, 12),
            (2024, 2, 29, 6), (3500, 7, 1, 0)]
FUNCS = {"mean_obliquity": mean_obliquity, "true_obliquity": true_obliquity,
         "nutation_longitude": nutation_longitude, "nutation_obliquity": nutation_obliquity}


KWARGS = [{}, {"utc": True}, {"leap_seconds": 10.0}, {"utc": True, "leap_seconds": 40.0}]


def check_forms(case):
    """Every date-argument form, with and without the UTC keywords, gives what the Epoch built with
    the same keywords gives; and in every form true = mean + nutation in obliquity."""
    y, m, d, h = case["instant"]
    fd = d + h / 24.0
    out = []
    for kw in KWARGS:
        try:
            ref_e = Epoch(y, m, fd, **kw)
        except Exception as ex:
            out.append(("exception", "Epoch(%r, **%r) raised %r" % (case["instant"], kw, ex), None))
            continue
        forms = [("args", lambda fn: fn(y, m, fd, **kw)), ("tuple", lambda fn: fn((y, m, fd), **kw)),
                 ("list", lambda fn: fn([y, m, fd], **kw)), ("epoch_copy", lambda fn: fn(Epoch(ref_e)))]
        if 1 <= y <= 9999:
            try:
                dt = datetime.datetime(y, m, d, h)
                forms.append(("datetime", lambda fn: fn(dt, **kw)))
                if h == 0:
                    forms.append(("date", lambda fn: fn(dt.date(), **kw)))
            except ValueError:
                pass
        got = {}
        for fname, fn in FUNCS.items():
            try:
                ref = fn(ref_e)._deg
            except Exception as ex:
                out.append(("exception", "%s(Epoch) raised %r" % (fname, ex), None))
                continue
            for lab, call in forms:
                try:
                    v = call(fn)._deg
                except Exception as ex:
                    out.append(("forms", "%s(%s form of %r, %r) raised %r" % (fname, lab, case["instant"], kw, ex),
                                None))
                    continue
                got[(fname, lab)] = v
                if abs(v - ref) > 1e-12:
                    out.append(("forms", "%s: %s form of %r with %r gives %r, Epoch form %r"
                                % (fname, lab, case["instant"], kw, v, ref), abs(v - ref)))
        for lab, _ in forms:
            try:
                s_ = got[("mean_obliquity", lab)] + got[("nutation_obliquity", lab)]
                t_ = got[("true_obliquity", lab)]
            except KeyError:
                continue
            if abs(s_ - t_) > 1e-12:
                out.append(("forms_sum", "true_obliquity %r != mean + nutation %r in %s form of %r with %r"
                            % (t_, s_, lab, case["instant"], kw), abs(s_ - t_)))
    return out


def run_forms(block, ctx):
    for case in block:
        ctx.evals += 4 * 6 * len(KWARGS)
        ctx.nt_count += 1
        for site, msg, dev in check_forms(case):
            ctx.viol(case, msg, dev=dev, site=site)
    ctx.outcome(len(block))
    ctx.sample(block[0])


# -- ordered pairs of calls in date form: a call must not be answered from another date's call -----------------

PAIR_YEARS = [-5, -4, -3, -2, -1, 0, 1, 2, 3, 4, 5, 99, 100, 1582, 1999, 2000, 2001, 2999, 3000]
PAIR_FUNCS = ["mean_obliquity", "true_obliquity", "nutation_longitude", "nutation_obliquity"]
PAIR_FORMS = ["ymd", "tuple", "epoch"]


def _pair_call(fname, form, y, md):
    f = {"mean_obliquity": mean_obliquity, "true_obliquity": true_obliquity, "nutation_longitude": nutation_longitude,
         "nutation_obliquity": nutation_obliquity}[fname]
    m, d = md
    if form == "ymd":
        return f(y, m, d)._deg
    if form == "tuple":
        return f((y, m, d))._deg
    return f(Epoch(y, m, d))._deg


def check_call_pairs(case):
    """case = function, form, (month, day): for every first year of the alphabet, in ONE freshly forked process the
    function is called for the first year and then for every other year (first year again in between); every answer
    is compared with the answer a freshly forked process gives to that call alone."""
    from .c20 import run_in_fork
    fname, form, md = case["function"], case["form"], tuple(case["md"])
    out = []
    base = {}
    for y in PAIR_YEARS:
        kind, v = run_in_fork(lambda y=y: _pair_call(fname, form, y, md))
        if kind != "ok":
            return [("exception", "%s(%s form of %r) alone raised %s" % (fname, form, (y,) + md, v), None)]
        base[y] = v
    for y1 in case.get("first_years") or PAIR_YEARS:
        others = [y for y in PAIR_YEARS if y != y1]

        def chain():
            res = []
            for y in others:
                _pair_call(fname, form, y1, md)
                res.append(_pair_call(fname, form, y, md))
            return res
        kind, got = run_in_fork(chain)
        if kind != "ok":
            out.append(("exception", "%s chain after year %r raised %s" % (fname, y1, got), None))
            continue
        for y, g in zip(others, got):
            if g != base[y]:
                out.append(("call_pair", "%s(%s form of %r) right after the same call for year %r = %r deg, alone it "
                            "gives %r" % (fname, form, (y,) + md, y1, g, base[y]), abs(g - base[y])))
    return out


def call_pair_cases():
    return [{"function": fn, "form": fm, "md": list(md)} for fn in PAIR_FUNCS for fm in PAIR_FORMS
            for md in ((1, 1.0), (6, 15.5))]


def run_call_pairs(block, ctx):
    for case in block:
        ctx.evals += len(PAIR_YEARS) * (2 * len(PAIR_YEARS) - 1)
        ctx.traces += len(PAIR_YEARS)
        ctx.nt_count += len(PAIR_YEARS) * (len(PAIR_YEARS) - 1)
        for site, msg, dev in check_call_pairs(case):
            ctx.viol(case, msg, dev=dev, site=site)
        ctx.outcome((case["function"], case["form"]))
    ctx.obs(block[0]["function"], block[0]["form"])
    if block[0]["form"] == "ymd" and block[0]["md"][0] == 1:
        ctx.sample(dict(block[0], first_years=[-1]))


# -- the Sun crossing 0 / 90 / 180 / 270 degrees: minutes around every equinox and solstice ---------------

SEASON_YEARS = [-990, -1, 1000, 1582, 1800, 1803, 1899, 1962, 1992, 2000, 2024, 2100, 2199, 2990]
SEASON_MINUTES = [0.0, 0.5, 1.0, 3.0, 8.0, 15.0, 25.0, 60.0, 600.0]


def check_season_seam(case):
    """The instants returned by the library's own get_equinox_solstice are where the apparent longitude
    passes a multiple of 90 degrees; the geometric, true and coarse longitudes pass it minutes earlier or
    later.  Quadrant fixes and 0/360 wraps of any of them go wrong only inside those minutes."""
    y, season, minutes = case["year"], case["season"], case["minutes"]
    try:
        t0 = Sun.get_equinox_solstice(y, season).jde()
    except Exception as ex:
        return [("exception", "get_equinox_solstice(%r, %r) raised %r" % (y, season, ex), None)]
    out = []
    for sg in (1.0, -1.0):
        if minutes == 0.0 and sg < 0:
            continue
        j = t0 + sg * minutes / 1440.0
        out += check_reflection(j)
        if 1800 <= y <= 2199:
            out += check_coarse(j)
    return out


def season_cases():
    return [{"year": y, "season": sn, "minutes": mi} for y in SEASON_YEARS for sn in ("spring", "summer", "autumn", "winter")
            for mi in SEASON_MINUTES]


def run_season_seam(block, ctx):
    for case in block:
        ctx.evals += 2 * 9
        ctx.nt_count += 1
        for site, msg, dev in check_season_seam(case):
            ctx.viol(case, msg, dev=dev, site="seam_" + site)
        ctx.outcome((case["season"], case["minutes"]))
    ctx.sample(block[0])


def clauses(tier):
    frames = [y2jde(1000 + i * 12.37) for i in range(162)]
    if tier == "thorough":
        frames = sorted(set(frames + [y2jde(1000 + i * 2.473) for i in range(809)]))
    wide = []
    for y in range(-2000, 4001, 5 if tier == "thorough" else 25):
        for off in ((1.0, 31.0, 62.0, 92.0, 123.0, 153.0, 183.0, 214.0, 244.0, 274.0, 305.0, 335.0)
                    if tier == "thorough" else (1.0, 92.0, 183.0, 274.0)):
            j = y2jde(y) + off
            if j < y2jde(4000) - 2:
                wide.append(j)
    coarse = []
    j = y2jde(1800)
    while j <= y2jde(2200):
        coarse.append(j)
        j += 1.0 if tier == "thorough" else 73.0
    # quick: every second day in the first and last 15 years of the range, where a secular error peaks
    if tier != "thorough":
        for a, b in ((1800, 1815), (2185, 2200)):
            j = y2jde(a) + 0.37
            while j < y2jde(b):
                coarse.append(j)
                j += 2.0
        coarse = sorted(set(coarse))
    return [
        Clause("reflection_obliquity_nutation", chunks(wide, 32), run_epochs,
               lambda c: [m for _, m, _ in check_reflection(c["jde"]) + check_obliquity(c["jde"])], floor=100),
        Clause("frames", chunks(frames, 32), run_frames, lambda c: [r_[1] for r_ in check_frames(c["jde"])],
               floor=100),
        Clause("special_instants", [-1500, 100, 1850, 1983, 1992, 2000, 2007, 2019, 2024, 2150, 3500], run_special_instants,
               replay_special, floor=150),
        Clause("sun_latitude_zeros", sun_latitude_zero_cases(tier), run_sun_latitude_zeros,
               lambda c: [m for _, m, _ in check_mean_equinox(c["jde"])], floor=300),
        Clause("call_pairs", chunks(call_pair_cases(), 24), run_call_pairs,
               lambda c: [m for _, m, _ in check_call_pairs(c)], floor=400, shape="H"),
        Clause("coarse_sun", chunks(coarse, 16), run_coarse, lambda c: [m for _, m, _ in check_coarse(c["jde"])],
               floor=100),
        Clause("season_seams", chunks(season_cases(), 16), run_season_seam,
               lambda c: [m for _, m, _ in check_season_seam(c)], floor=300),
        Clause("date_forms", [[{"instant": list(i)} for i in INSTANTS]], run_forms,
               lambda c: [m for _, m, _ in check_forms(c)], floor=10),
    ]
