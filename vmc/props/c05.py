"""C05 - coordinate conversions are inverse rotations; separation metric (L)."""
import itertools
import math

from ..engine import Clause, chunks
from ..ref import sphere as S

from pymeeus.Angle import Angle
from pymeeus.Coordinates import (equatorial2ecliptical, ecliptical2equatorial,
                                 equatorial2horizontal, horizontal2equatorial,
                                 equatorial2galactic, galactic2equatorial,
                                 angular_separation, relative_position_angle,
                                 circle_diameter, straight_line)

PROPERTY = "C05"
LEVEL = "exploration"
RULE = ("full product longitude alphabet (15 seam values + 48-point grid) x latitude alphabet "
        "(poles, 1e-6..1 degree from the poles, obliquity/polar-circle values, +-1e-9, 0) x "
        "obliquity / observer latitude alphabet per conversion pair; separations 1e-7..179.999 x "
        "4 position angles x 20 base points; non-trivial = direction within 1 degree of a pole "
        "of either frame, on the 0/360 seam (within 1e-6), or a pair closer than 1e-3 / farther "
        "than 179 degrees")
ASSUMPTIONS = ["independent oracle: rotation matrices and atan2(|u x v|, u.v) in double precision "
               "(accurate to ~1e-13 degree)",
               "azimuth and hour angle have no documented normalisation: any representative "
               "modulo 360 is accepted; ecliptical/galactic longitude and right ascension must be "
               "in [0, 360)"]
TOL = 1e-9

LONS_SEAM = [0.0, 1e-9, 1e-6, 45.0, 89.999999, 90.0, 135.0, 179.999999, 180.0, 180.000001, 225.0,
             270.0, 315.0, 359.999999, 359.999999999]
LONS = LONS_SEAM + [i * 7.5 + 0.123 for i in range(48)]
LATS = [90.0, 89.999999, 89.9999, 89.99, 89.9, 89.0, 85.0, 66.56, 45.0, 23.44, 1e-6, 1e-9]
LATS = sorted(set(LATS + [-x for x in LATS] + [0.0]))
OBLS = [0.0, 1e-6, 10.0, 23.4392911, 30.0]
PHIS = [90.0, 89.9999999, 89.99999, 89.999, 89.9, 66.5, 38.92, 23.0, 1e-7, 0.0, -23.0, -38.92, -66.5, -89.9, -89.999,
        -89.99999, -89.9999999, -90.0]


def bound(tier):
    lons, lats = lattice_for(tier)
    return ("%d longitudes x %d latitudes x (5 obliquities + 12 observer latitudes + galactic); "
            "all pairs of a 40-direction subset per conversion" % (len(lons), len(lats)))


def image(kind, lon, lat, par):
    """Independent rotation-matrix image of (lon, lat)."""
    v = S.vec(lon, lat)
    if kind == "equ2ecl":
        return S.lonlat(S.rot_x(v, par))
    if kind == "ecl2equ":
        return S.lonlat(S.rot_x(v, -par))
    if kind == "equ2hor":
        # frame: x to the south point, y to the west, z to the zenith
        x, y, z = v
        phi = math.radians(par)
        return S.lonlat((x * math.sin(phi) - z * math.cos(phi), y,
                         x * math.cos(phi) + z * math.sin(phi)))
    if kind == "hor2equ":
        x, y, z = v
        phi = math.radians(par)
        return S.lonlat((x * math.sin(phi) + z * math.cos(phi), y,
                         -x * math.cos(phi) + z * math.sin(phi)))
    if kind == "equ2gal":
        th = 192.25 - lon
        x, y, z = S.vec(th, lat)
        c2 = math.radians(27.4)
        X = x * math.sin(c2) - z * math.cos(c2)
        Z = x * math.cos(c2) + z * math.sin(c2)
        lo, la = S.lonlat((X, y, Z))
        return 303.0 - lo, la
    if kind == "gal2equ":
        th = lon - 123.0
        x, y, z = S.vec(th, lat)
        c2 = math.radians(27.4)
        X = x * math.sin(c2) - z * math.cos(c2)
        Z = x * math.cos(c2) + z * math.sin(c2)
        lo, la = S.lonlat((X, y, Z))
        return lo + 12.25, la
    raise KeyError(kind)


PAIRS = {
    "ecliptical": ("equ2ecl", "ecl2equ",
                   lambda a, b, p: equatorial2ecliptical(a, b, Angle(p)),
                   lambda a, b, p: ecliptical2equatorial(a, b, Angle(p)), True, True),
    "horizontal": ("equ2hor", "hor2equ",
                   lambda a, b, p: equatorial2horizontal(a, b, Angle(p)),
                   lambda a, b, p: horizontal2equatorial(a, b, Angle(p)), False, False),
    "galactic": ("equ2gal", "gal2equ",
                 lambda a, b, p: equatorial2galactic(a, b),
                 lambda a, b, p: galactic2equatorial(a, b), True, True),
}


def check_dir(case):
    pair, lon, lat, par = case["pair"], case["lon"], case["lat"], case["par"]
    kf, kb, fwd, back, normf, normb = PAIRS[pair]
    out = []
    for direction in ("forward_first", "backward_first"):
        f1, f2, k1, n1, n2 = (fwd, back, kf, normf, normb) if direction == "forward_first" else \
            (back, fwd, kb, normb, normf)
        a, b = Angle(lon), Angle(lat)
        try:
            l1, b1 = f1(a, b, par)
            l2, b2 = f2(l1, b1, par)
        except Exception as ex:
            out.append(("exception", "%s %s of (%r, %r; %r) raised %r" % (pair, direction, lon, lat, par, ex), None))
            continue
        if a._deg != lon or b._deg != lat:
            out.append(("mutation", "%s modified its arguments" % pair, None))
        for (L, B, nrm, nm) in ((l1, b1, n1, "first"), (l2, b2, n2, "second")):
            if not (isinstance(L, Angle) and isinstance(B, Angle)):
                out.append(("type", "%s %s returned %r" % (pair, direction, (L, B)), None))
                continue
            if not (-90.0 <= B._deg <= 90.0):
                out.append(("lat_range", "%s %s (%s step) of (%r, %r; %r): latitude %r outside [-90, 90]"
                            % (pair, direction, nm, lon, lat, par, B._deg), abs(B._deg) - 90))
            if nrm and not (0.0 <= L._deg < 360.0):
                out.append(("lon_range", "%s %s (%s step) of (%r, %r; %r): longitude %r outside [0, 360)"
                            % (pair, direction, nm, lon, lat, par, L._deg), None))
        if out and out[-1][0] == "type":
            continue
        rt = S.sep_ll(lon, lat, l2._deg, b2._deg)
        if not rt <= TOL:
            out.append(("roundtrip", "%s %s: (%r, %r; %r) -> (%r, %r) -> (%r, %r), %.3g deg away on the sphere"
                        % (pair, direction, lon, lat, par, l1._deg, b1._deg, l2._deg, b2._deg, rt), rt))
        il, ib = image(k1, lon, lat, par)
        d = S.sep_ll(il, ib, l1._deg, b1._deg)
        if not d <= TOL:
            out.append(("image", "%s %s of (%r, %r; %r) = (%r, %r), rotation matrix gives (%r, %r): %.3g deg"
                        % (pair, direction, lon, lat, par, l1._deg, b1._deg, il % 360, ib, d), d))
    return out


def lattice_for(tier):
    if tier != "thorough":
        return LONS, LATS
    lons = sorted(set(LONS_SEAM + [i * 2.0 + 0.123 for i in range(180)] + [i * 15.0 for i in range(24)]))
    near = [1e-12, 1e-10, 1e-8, 1e-7, 1e-5, 1e-3, 0.1, 0.5, 1.0]
    lats = sorted(set(LATS + [float(i) for i in range(-89, 90)] + [90.0 - x for x in near] + [-90.0 + x for x in near]
                      + [x for x in near] + [-x for x in near]))
    return lons, lats


def dir_cases(tier="quick"):
    cases = []
    lons, lats = lattice_for(tier)
    for lon in lons:
        for lat in lats:
            for e in OBLS:
                cases.append({"pair": "ecliptical", "lon": lon, "lat": lat, "par": e})
            for p in PHIS:
                cases.append({"pair": "horizontal", "lon": lon, "lat": lat, "par": p})
            cases.append({"pair": "galactic", "lon": lon, "lat": lat, "par": 0.0})
    return cases


def nontriv_dir(c):
    return abs(c["lat"]) >= 89.0 or c["lon"] < 1e-5 or c["lon"] > 359.99999 or \
        (c["pair"] == "horizontal" and abs(abs(c["par"]) - 90) < 1)


def run_dirs(block, ctx):
    for case in block:
        ctx.evals += 2
        res = check_dir(case)
        for site, msg, dev in res:
            ctx.viol(case, msg, dev=dev, site="%s_%s" % (case["pair"], site))
            ctx.maxi("%s_%s" % (case["pair"], site), dev)
        if nontriv_dir(case):
            ctx.nt_count += 1
        ctx.outcome((case["pair"], round(case["lat"]), len(res)))
        ctx.obs(case["pair"], case["lon"], case["lat"], case["par"], len(res))
    ctx.sample(block[0])


# -- separation preserved by each conversion ---------------------------------

def subset40():
    lons = [0.0, 1e-6, 90.0, 179.999999, 225.0, 359.999999, 37.623, 301.2]
    lats = [-89.99, -45.0, 0.0, 23.44, 89.9]
    return [(lo, la) for lo in lons for la in lats]


def check_pairs(case):
    pair, par = case["pair"], case["par"]
    kf, kb, fwd, back, _, _ = PAIRS[pair]
    pts = subset40()
    out = []
    for fn, nm in ((fwd, "forward"), (back, "backward")):
        try:
            img = [fn(Angle(lo), Angle(la), par) for lo, la in pts]
        except Exception as ex:
            return [("exception", "%s raised %r" % (pair, ex), None)]
        img = [(l._deg, b._deg) for l, b in img]
        worst = 0.0
        wcase = None
        for i in range(len(pts)):
            for j in range(len(pts)):
                if i == j:
                    continue
                s0 = S.sep_ll(pts[i][0], pts[i][1], pts[j][0], pts[j][1])
                s1 = S.sep_ll(img[i][0], img[i][1], img[j][0], img[j][1])
                if abs(s0 - s1) > worst:
                    worst = abs(s0 - s1)
                    wcase = (pts[i], pts[j], s0, s1)
        if worst > TOL:
            out.append(("rigidity", "%s %s (par %r) changes the angle between %r and %r: %r -> %r"
                        % (pair, nm, par, wcase[0], wcase[1], wcase[2], wcase[3]), worst))
    return out


def pair_cases():
    return ([{"pair": "ecliptical", "par": e} for e in OBLS] +
            [{"pair": "horizontal", "par": p} for p in PHIS] + [{"pair": "galactic", "par": 0.0}])


def run_pairs(block, ctx):
    for case in block:
        n = len(subset40())
        ctx.evals += 2 * n * (n - 1)
        ctx.nt_count += 1
        for site, msg, dev in check_pairs(case):
            ctx.viol(case, msg, dev=dev, site="%s_%s" % (case["pair"], site))
        ctx.outcome((case["pair"], case["par"]))
    ctx.sample(block[0])


# -- metric -------------------------------------------------------------------

SEPS = [1e-7, 1e-6, 1e-5, 1e-4, 1e-3, 1e-2, 1.0, 30.0, 90.0, 150.0, 179.0, 179.9, 179.99, 179.999,
        # a few 1e-9 degree either side of quadrature (a guard that takes "almost 90" for 90)
        90.0 - 5e-9, 90.0 + 5e-9, 90.0 - 3e-9, 90.0 + 2e-9, 90.0 + 2e-8, 90.0 - 1e-6, 90.0 + 1e-4]
PAS = [0.0, 37.0, 90.0, 200.0]
BASES = [(lo, la) for lo in (0.0, 10.0, 123.0, 359.9999) for la in (-89.0, -30.0, 0.0, 45.0, 88.0)]


def check_metric(case):
    lo, la, s0, pa = case["lon"], case["lat"], case["sep"], case["pa"]
    lo2, la2 = S.offset(lo, la, s0, pa)
    a1, d1, a2, d2 = Angle(lo), Angle(la), Angle(lo2), Angle(la2)
    ref = S.sep_ll(a1._deg, d1._deg, a2._deg, d2._deg)
    out = []
    try:
        g = angular_separation(a1, d1, a2, d2)
        g2 = angular_separation(a2, d2, a1, d1)
        if not isinstance(g, Angle):
            return [("sep_type", "angular_separation returned %r" % (g,), None)]
        if abs(g._deg - ref) > TOL:
            out.append(("separation", "angular_separation((%r,%r),(%r,%r)) = %r, vector value %r"
                        % (lo, la, lo2, la2, g._deg, ref), abs(g._deg - ref)))
        if abs(g._deg - g2._deg) > TOL:
            out.append(("sep_symmetry", "angular_separation not symmetric: %r vs %r" % (g._deg, g2._deg),
                        abs(g._deg - g2._deg)))
    except Exception as ex:
        out.append(("sep_exception", "angular_separation raised %r for %r" % (ex, case), None))
    if 1e-7 <= s0 <= 179.999:
        try:
            p12 = relative_position_angle(a1, d1, a2, d2)._deg
            p21 = relative_position_angle(a2, d2, a1, d1)._deg
            r12 = S.position_angle(a1._deg, d1._deg, a2._deg, d2._deg)
            # the cross-product value loses accuracy like 1e-16/sep: scale the tolerance
            tol = max(TOL, 2e-14 / math.radians(min(s0, 180 - s0)))
            dv = abs((p12 - r12 + 180.0) % 360.0 - 180.0)
            if dv > tol:
                out.append(("position_angle", "relative_position_angle((%r,%r),(%r,%r)) = %r, cross-product "
                            "value %r" % (lo, la, lo2, la2, p12, r12), dv))
            # antisymmetry on the sphere: P21 = P12 + 180 only in the plane; the exact
            # spherical relation is checked through the reference for the swapped pair
            r21 = S.position_angle(a2._deg, d2._deg, a1._deg, d1._deg)
            dv = abs((p21 - r21 + 180.0) % 360.0 - 180.0)
            if dv > tol:
                out.append(("position_angle", "relative_position_angle swapped = %r, cross-product value %r"
                            % (p21, r21), dv))
            if s0 <= 1e-3 and abs(la) < 80:
                dv = abs((p21 - p12 - 180.0 + 180.0) % 360.0 - 180.0)
                if dv > 1e-3 + 4 * s0 * abs(math.tan(math.radians(la))):
                    out.append(("pa_antisymmetry", "position angles of a close pair differ by %r, not 180"
                                % (p21 - p12), dv))
        except Exception as ex:
            out.append(("pa_exception", "relative_position_angle raised %r for %r" % (ex, case), None))
    return out


def metric_cases(tier="quick"):
    bases, pas = BASES, PAS
    if tier == "thorough":
        bases = [(lo, la) for lo in (0.0, 10.0, 123.0, 200.0, 300.0, 359.9999, 1e-7)
                 for la in (-89.9, -89.0, -60.0, -30.0, -1e-6, 0.0, 23.44, 45.0, 88.0, 89.9)]
        pas = [0.0, 37.0, 90.0, 135.0, 180.0, 200.0, 270.0, 359.0]
    return [{"lon": lo, "lat": la, "sep": s, "pa": pa} for (lo, la) in bases for s in SEPS for pa in pas]


def run_metric(block, ctx):
    for case in block:
        ctx.evals += 4
        res = check_metric(case)
        for site, msg, dev in res:
            ctx.viol(case, msg, dev=dev, site=site)
            ctx.maxi(site, dev)
        if case["sep"] <= 1e-3 or case["sep"] >= 179:
            ctx.nt_count += 1
        ctx.outcome((case["sep"], len(res)))
        ctx.obs(case, len(res))
    ctx.sample(block[0])


def check_circle(case):
    lo, la = case["lon"], case["lat"]
    s1, pa1, s2, pa2 = case["s1"], case["pa1"], case["s2"], case["pa2"]
    p1 = (lo, la)
    p2 = S.offset(lo, la, s1, pa1)
    p3 = S.offset(lo, la, s2, pa2)
    A = [Angle(p1[0]), Angle(p1[1]), Angle(p2[0]), Angle(p2[1]), Angle(p3[0]), Angle(p3[1])]
    vals = [x._deg for x in A]
    seps = [S.sep_ll(vals[0], vals[1], vals[2], vals[3]), S.sep_ll(vals[0], vals[1], vals[4], vals[5]),
            S.sep_ll(vals[2], vals[3], vals[4], vals[5])]
    mx = max(seps)
    out = []
    try:
        d = circle_diameter(*A)
        if not isinstance(d, Angle):
            return [("circle_type", "circle_diameter returned %r" % (d,), None)]
        lo_b, hi_b = mx, 2.0 / math.sqrt(3.0) * mx
        slack = 1e-9 + 1e-6 * mx     # plane-triangle formula on a sphere: relative 1e-6 at <= 5 deg
        if not (lo_b - slack <= d._deg <= hi_b + slack + mx * 2e-3 * (mx / 5.0) ** 2):
            out.append(("circle", "circle_diameter = %r not in [%r, %r] for separations %r"
                        % (d._deg, lo_b, hi_b, seps), max(lo_b - d._deg, d._deg - hi_b)))
        # order invariance
        for perm in itertools.permutations(range(3)):
            B = []
            for i in perm:
                B += [A[2 * i], A[2 * i + 1]]
            d2 = circle_diameter(*B)
            if abs(d2._deg - d._deg) > 1e-9 + 1e-9 * mx:
                out.append(("circle_order", "circle_diameter depends on the order of the bodies: %r vs %r"
                            % (d2._deg, d._deg), abs(d2._deg - d._deg)))
                break
    except Exception as ex:
        out.append(("circle_exception", "circle_diameter raised %r for %r" % (ex, case), None))
    return out


def circle_cases():
    out = []
    for (lo, la) in [(10.0, 0.0), (123.0, 45.0), (359.9999, -30.0), (0.0, 80.0), (200.0, -60.0)]:
        for s1, s2 in [(a, b) for a in (1e-3, 0.1, 1.0, 5.0) for b in (1e-3, 0.05, 0.7, 4.0)] + \
                [(1e-5, 1e-5), (1e-5, 2e-5), (5e-5, 3e-5), (5e-5, 6e-5), (2e-4, 2e-4), (2e-4, 1e-4), (3e-6, 3e-6)]:
            if True:
                for pa1, pa2 in ((0.0, 90.0), (37.0, 200.0), (10.0, 15.0), (90.0, 270.0), (0.0, 60.0)):
                    out.append({"lon": lo, "lat": la, "s1": s1, "pa1": pa1, "s2": s2, "pa2": pa2})
    return out


def run_circle(block, ctx):
    for case in block:
        ctx.evals += 7
        ctx.nt_count += 1
        for site, msg, dev in check_circle(case):
            ctx.viol(case, msg, dev=dev, site=site)
        ctx.outcome((case["s1"], case["s2"]))
    ctx.sample(block[0])


def check_line(case):
    """Three points on one great circle: straight_line must report 180 deg
    between the arcs / zero distance from the great circle."""
    lo, la, pa = case["lon"], case["lat"], case["pa"]
    p1 = S.offset(lo, la, case["s1"], pa)
    p3 = S.offset(lo, la, case["s3"], pa + 180.0)
    A = [Angle(p1[0]), Angle(p1[1]), Angle(lo), Angle(la), Angle(p3[0]), Angle(p3[1])]
    try:
        psi, omega = straight_line(*A)
    except Exception as ex:
        return [("line_exception", "straight_line raised %r for %r" % (ex, case), None)]
    out = []
    if abs(omega._deg) > 1e-6:
        out.append(("line", "straight_line: omega = %r for three points on one great circle (%r)"
                    % (omega._deg, case), abs(omega._deg)))
    return out


def line_cases():
    return [{"lon": lo, "lat": la, "pa": pa, "s1": s1, "s3": s3}
            for (lo, la) in [(100.0, 10.0), (250.0, -40.0), (30.0, 60.0)]
            for pa in (20.0, 75.0, 140.0) for s1 in (2.0, 15.0) for s3 in (3.0, 25.0)]


def run_line(block, ctx):
    for case in block:
        ctx.evals += 1
        ctx.nt_count += 1
        for site, msg, dev in check_line(case):
            ctx.viol(case, msg, dev=dev, site=site)
        ctx.outcome(case["pa"])
    ctx.sample(block[0])


# -- the caller keeps ONE parameter object and updates it in place -------------------

def check_shared(case):
    """History: one Angle object for the obliquity / observer latitude is re-used over the
    whole parameter alphabet (updated with set()) and one object per coordinate as well;
    every round trip must still close."""
    pair = case["pair"]
    kf, kb, fwd, back, _, _ = PAIRS[pair]
    pars = OBLS if pair == "ecliptical" else (PHIS if pair == "horizontal" else [0.0])
    out = []
    par_obj = Angle(pars[0])
    a, b = Angle(0.0), Angle(0.0)
    dirs = [(10.0, 20.0), (200.0, -45.0), (359.5, 70.0), (95.0, -5.0)]

    def call(fn, x, y, pobj):
        if pair == "ecliptical":
            from pymeeus.Coordinates import equatorial2ecliptical as f1, ecliptical2equatorial as f2
            return (f1 if fn == "f" else f2)(x, y, pobj)
        if pair == "horizontal":
            return (equatorial2horizontal if fn == "f" else horizontal2equatorial)(x, y, pobj)
        return (equatorial2galactic if fn == "f" else galactic2equatorial)(x, y)
    for p in list(pars) + list(reversed(pars)):
        par_obj.set(p)
        for lo, la in dirs:
            a.set(lo)
            b.set(la)
            try:
                l1, b1 = call("f", a, b, par_obj)
                l2, b2 = call("b", l1, b1, par_obj)
                rt = S.sep_ll(lo, la, l2._deg, b2._deg)
                il, ib = image(kf, lo, la, p)
                im = S.sep_ll(il, ib, l1._deg, b1._deg)
            except Exception as ex:
                out.append(("shared_exception", "%s with re-used argument objects raised %r" % (pair, ex), None))
                continue
            if rt > TOL or im > TOL:
                out.append(("shared_object", "%s with ONE re-used parameter object (now %r): (%r, %r) round trip off by "
                            "%.3g deg, image off by %.3g deg" % (pair, p, lo, la, rt, im), max(rt, im)))
    return out


def run_shared(block, ctx):
    for case in block:
        ctx.evals += 1
        ctx.nt_count += 1
        for site, msg, dev in check_shared(case):
            ctx.viol(case, msg, dev=dev, site=site)
        ctx.outcome(case["pair"])
    ctx.sample(block[0])


# -- position angle of a body standing exactly at a celestial pole ---------------------------------

def check_pa_pole(case):
    """The position angle of body 1 as seen from body 2 is measured from the direction of the north
    pole: a body 1 AT the north pole has position angle 0 from everywhere, at the south pole 180.
    (Angle(90).rad() is 6e-17 rad short of the pole, hence the tolerance 2e-14 / cos(dec2).)"""
    lo1, pole, lo2, la2 = case["lon1"], case["pole"], case["lon2"], case["lat2"]
    out = []
    try:
        p = relative_position_angle(Angle(lo1), Angle(pole), Angle(lo2), Angle(la2))._deg
    except Exception as ex:
        return [("pa_exception", "relative_position_angle raised %r for %r" % (ex, case), None)]
    exp = 0.0 if pole > 0 else 180.0
    tol = max(TOL, 2e-14 / max(1e-12, math.cos(math.radians(la2))))
    dv = abs((p - exp + 180.0) % 360.0 - 180.0)
    if dv > tol:
        out.append(("pa_pole", "relative_position_angle of a body at the pole %r (lon %r) seen from (%r, %r) = %r, "
                    "expected %r" % (pole, lo1, lo2, la2, p, exp), dv))
    return out


def pa_pole_cases():
    return [{"lon1": lo1, "pole": pole, "lon2": lo2, "lat2": la2}
            for pole in (90.0, -90.0) for lo1 in (0.0, 41.0, 180.0, 359.9)
            for lo2 in (0.0, 77.0, 200.0, 221.0, 359.9) for la2 in (89.9999, 89.0, 60.0, 23.4, 0.0, -45.0, -89.99)]


def run_pa_pole(block, ctx):
    for case in block:
        ctx.evals += 1
        ctx.nt_count += 1
        for site, msg, dev in check_pa_pole(case):
            ctx.viol(case, msg, dev=dev, site=site)
        ctx.outcome((case["pole"], case["lat2"]))
    ctx.sample(block[0])


# -- a call right after a call whose parameter differs by a hair ------------------------------------

NEAR_DELTAS = [3e-9, -3e-9, 1e-8, -1e-8, 3e-8, -3e-8, 1e-7, -1e-6]        # degrees
NEAR_DIRS = [(10.0, 20.0), (200.0, -45.0), (95.0, -5.0), (330.0, 60.0)]


def check_near_param(case):
    """f(x; p) is called first, then f(x; p + d) with |d| = 3e-9 .. 1e-6 degree (and the other way
    round); every result is compared with the rotation-matrix image for ITS OWN parameter, so a result
    remembered from the neighbouring parameter (a cache that takes nearly equal parameters for equal)
    shows as an image error of the size of d."""
    pair, par = case["pair"], case["par"]
    kf, kb, fwd, back, _, _ = PAIRS[pair]
    out = []
    for d in NEAR_DELTAS:
        for (pa, pb) in ((par, par + d), (par + d, par)):
            for lo, la in NEAR_DIRS:
                try:
                    fwd(Angle(lo), Angle(la), pa)
                    l1, b1 = fwd(Angle(lo), Angle(la), pb)
                    il, ib = image(kf, lo, la, pb)
                    e1 = S.sep_ll(il, ib, l1._deg, b1._deg)
                    back(Angle(lo), Angle(la), pa)
                    l2, b2 = back(Angle(lo), Angle(la), pb)
                    jl, jb = image(kb, lo, la, pb)
                    e2 = S.sep_ll(jl, jb, l2._deg, b2._deg)
                except Exception as ex:
                    out.append(("near_exception", "%s near-parameter sequence raised %r" % (pair, ex), None))
                    continue
                if e1 > TOL or e2 > TOL:
                    out.append(("near_parameter", "%s with parameter %r right after a call with %r: image of (%r, %r) "
                                "off by %.3g deg (forward) / %.3g deg (backward)" % (pair, pb, pa, lo, la, e1, e2),
                                max(e1, e2)))
    return out


def near_param_cases():
    return ([{"pair": "ecliptical", "par": e} for e in OBLS + [23.4457889, 84381.448 / 3600.0]] +
            [{"pair": "horizontal", "par": p} for p in PHIS if abs(p) < 89.99999] +
            [{"pair": "horizontal", "par": p} for p in (51.4778, -33.356111, 12.5)])


def run_near_param(block, ctx):
    for case in block:
        ctx.evals += 4 * len(NEAR_DELTAS) * 2 * len(NEAR_DIRS)
        ctx.traces += len(NEAR_DELTAS) * 2
        ctx.nt_count += 1
        for site, msg, dev in check_near_param(case):
            ctx.viol(case, msg, dev=dev, site=site)
        ctx.outcome((case["pair"], case["par"]))
    ctx.sample(block[0])


# -- output-side seams: inputs whose IMAGE lies next to a quadrant boundary of the result -------------------------

OUT_DELTAS = [0.0, 2e-9, -3e-9, 5e-9, -5e-9, 1e-8, -1e-8, 1e-7, -1e-7, 1e-6, -1e-6, 1e-5, -1e-5, 1e-4, -1e-3]
OUT_LATS = [-70.0, -20.0, 0.0, 35.0, 80.0]


def out_seam_cases():
    """For each conversion f with inverse g: the input g_image(L, B) whose image has longitude L = q + d for
    q in {0, 90, 180, 270} and |d| up to 1e-3 degree - where an arctangent of the result changes quadrant."""
    cases = []
    for pair, pars in (("ecliptical", [23.4392911, 10.0]), ("horizontal", [38.92, -66.5, 1e-7]), ("galactic", [0.0])):
        kf, kb = PAIRS[pair][0], PAIRS[pair][1]
        for par in pars:
            for direction, k_fwd, k_inv in (("forward_first", kf, kb), ("backward_first", kb, kf)):
                # the quadrant boundaries of the result, and (galactic pair) of the auxiliary angle the result is
                # an offset of: l = 303 - x, alpha = x' + 12.25
                for q in (0.0, 90.0, 180.0, 270.0) + ((33.0, 123.0, 213.0, 303.0, 12.25, 102.25, 192.25, 282.25)
                                                      if pair == "galactic" else ()):
                    for d in OUT_DELTAS:
                        for B in OUT_LATS:
                            lo, la = image(k_inv, q + d, B, par)
                            cases.append({"pair": pair, "par": par, "direction": direction, "lon": lo % 360.0, "lat": la,
                                          "target": [q + d, B]})
    return cases


def check_out_seam(case):
    pair, par, direction, lon, lat = case["pair"], case["par"], case["direction"], case["lon"], case["lat"]
    kf, kb, fwd, back, _, _ = PAIRS[pair]
    f, k = (fwd, kf) if direction == "forward_first" else (back, kb)
    try:
        l1, b1 = f(Angle(lon), Angle(lat), par)
    except Exception as ex:
        return [("exception", "%s %s of (%r, %r; %r) raised %r" % (pair, direction, lon, lat, par, ex), None)]
    il, ib = image(k, lon, lat, par)
    d = S.sep_ll(il, ib, l1._deg, b1._deg)
    if not d <= TOL:
        return [("out_seam", "%s %s of (%r, %r; %r) = (%r, %r), rotation matrix gives (%r, %r) [target longitude %r]: %.3g "
                 "deg" % (pair, direction, lon, lat, par, l1._deg, b1._deg, il % 360, ib, case["target"][0], d), d)]
    return []


def run_out_seams(block, ctx):
    for case in block:
        ctx.evals += 1
        ctx.nt_count += 1
        for site, msg, dev in check_out_seam(case):
            ctx.viol(case, msg, dev=dev, site=site)
        ctx.outcome((case["pair"], case["direction"], case["target"][0] // 90))
    ctx.sample(block[0])


def clauses(tier):
    return [
        Clause("directions", chunks(dir_cases(tier), 64), run_dirs,
               lambda c: [m for _, m, _ in check_dir(c)], floor=2000),
        Clause("shared_objects", [[{"pair": k} for k in PAIRS]], run_shared,
               lambda c: [m for _, m, _ in check_shared(c)], floor=3, shape="H"),
        Clause("output_seams", chunks(out_seam_cases(), 16), run_out_seams, lambda c: [m for _, m, _ in check_out_seam(c)],
               floor=1000),
        Clause("near_parameters", chunks(near_param_cases(), 8), run_near_param,
               lambda c: [m for _, m, _ in check_near_param(c)], floor=15, shape="H"),
        Clause("rigidity", chunks(pair_cases(), 18), run_pairs,
               lambda c: [m for _, m, _ in check_pairs(c)], floor=10),
        Clause("metric", chunks(metric_cases(tier), 16), run_metric,
               lambda c: [m for _, m, _ in check_metric(c)], floor=100),
        Clause("pa_pole", chunks(pa_pole_cases(), 4), run_pa_pole,
               lambda c: [m for _, m, _ in check_pa_pole(c)], floor=100),
        Clause("circle", chunks(circle_cases(), 8), run_circle,
               lambda c: [m for _, m, _ in check_circle(c)], floor=100),
        # straight_line() is not part of the C05 statement: its collinear-input
        # crash is judged by the totality clause of C20 (see DESIGN.md)
    ]
