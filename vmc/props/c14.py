"""C14 - seasons, equation of time, sunrise/sunset, rise/transit/set (L)."""
import math

from ..engine import Clause, chunks
from ..ref import calendar as cal

from pymeeus.Angle import Angle
from pymeeus.Epoch import Epoch
from pymeeus.Sun import Sun
from pymeeus.Coordinates import (true_obliquity, nutation_longitude, ecliptical2equatorial,
                                 equatorial2horizontal, times_rise_transit_set)

PROPERTY = "C14"
LEVEL = "exploration"
RULE = ("seasons: every year -1000..3000 x 4 (complete); equation of time: every day of the sample "
        "years (quick 10 years, thorough every 10th year -2000..4000 and six full centuries); sunrise/"
        "sunset: 8 dates x 13 latitudes x 7 longitudes x 3 heights; general routine: full product of 5 "
        "motions x 3 alpha0 x 6 delta0 x 7 latitudes x 3 longitudes x 3 standard altitudes; non-trivial "
        "= season (all), a day on which |E| > 10 min or the day-to-day change > 20 s, |latitude| >= 60, "
        "a body whose right ascension straddles 0/360 or that is circumpolar/never rises")
ASSUMPTIONS = ["Sun altitude from the library's own apparent position, apparent sidereal time and "
               "equatorial2horizontal; the instants returned by rise_set are UTC (UT ~ UTC)",
               "a rising is 'grazing' when |cos H0| > 0.8: those cases must only not crash",
               "when the minutes field of the equation of time is 0 its sign is not representable: both "
               "signs are tried"]
SEASONS = ["spring", "summer", "autumn", "winter"]
_FAST = None


def bound(tier):
    return "seasons complete; EoT daily over %s" % ("601 + 600 years" if tier == "thorough" else "10 years")


def fast():
    global _FAST
    if _FAST is None:
        _FAST = cal.Fast(-2100, 4100)
    return _FAST


def wrap180(x):
    return (x + 180.0) % 360.0 - 180.0


# -- seasons ---------------------------------------------------------------------------------

def check_year(y, prev):
    """prev: list of 4 JDEs of year y-1 or None.  Returns (violations, jdes)."""
    out = []
    js = []
    for k, t in enumerate(SEASONS):
        try:
            e = Sun.get_equinox_solstice(y, t)
            j = e.jde()
            lon, lat, r = Sun.apparent_geocentric_position(e)
        except Exception as ex:
            out.append(("season_exception", "get_equinox_solstice(%d, %r) raised %r" % (y, t, ex), None))
            js.append(None)
            continue
        js.append(j)
        if y % 7 == 0:
            # the returned Epoch belongs to the caller: moving it must not move the next answer
            try:
                e.set(2000, 1, 1.5)
                j2 = Sun.get_equinox_solstice(y, t).jde()
                if j2 != j:
                    out.append(("season_aliasing", "get_equinox_solstice(%d, %r) returns JDE %r after the caller moved the "
                                "Epoch returned by the previous call (was %r)" % (y, t, j2, j), abs(j2 - j)))
            except Exception as ex:
                out.append(("season_exception", "second get_equinox_solstice(%d, %r) raised %r" % (y, t, ex), None))
        d = abs(wrap180(lon._deg - 90.0 * k))
        if d > 1e-5:
            out.append(("season_longitude", "get_equinox_solstice(%d, %r): apparent longitude of the Sun is %r, "
                        "%.3g deg from %d" % (y, t, lon._deg % 360, d, 90 * k), d))
        yy = fast().date(int(math.floor(j + 0.5)))[0]
        if yy != y:
            out.append(("season_year", "get_equinox_solstice(%d, %r) falls in year %d" % (y, t, yy), None))
        if prev and prev[k] is not None:
            g = j - prev[k]
            if not (365.2 <= g <= 365.3):
                out.append(("season_year_gap", "%s %d is %r days after %s %d" % (t, y, g, t, y - 1), g))
    for k in range(3):
        if js[k] is not None and js[k + 1] is not None:
            g = js[k + 1] - js[k]
            if not (88.0 <= g <= 95.0):
                out.append(("season_gap", "%s -> %s %d: %r days" % (SEASONS[k], SEASONS[k + 1], y, g), g))
    return out, js


def run_seasons(block, ctx):
    prev = None
    y0 = block[0]
    if y0 > -1000:
        _, prev = check_year(y0 - 1, None)
    for y in block:
        ctx.evals += 4
        ctx.nt_count += 4
        res, prev = check_year(y, prev)
        for site, msg, dev in res:
            ctx.viol({"year": y}, msg, dev=dev, site=site)
            ctx.maxi(site, dev)
        ctx.obs(y, prev)
    ctx.outcome(len(block))
    ctx.sample({"year": y0, "instants": prev})


def replay_seasons(case):
    y = case["year"]
    prev = check_year(y - 1, None)[1] if y > -1000 else None
    return [m for _, m, _ in check_year(y, prev)[0]]


def check_season_range(case):
    out = []
    for y in (-1001, 3001, -5000, 10000):
        for t in SEASONS:
            try:
                Sun.get_equinox_solstice(y, t)
                out.append("get_equinox_solstice(%d, %r) accepted an out-of-range year" % (y, t))
            except ValueError:
                pass
            except Exception as ex:
                out.append("get_equinox_solstice(%d, %r) raised %r" % (y, t, ex))
    for y in (-1000, 3000):
        for t in SEASONS:
            try:
                Sun.get_equinox_solstice(y, t)
            except Exception as ex:
                out.append("get_equinox_solstice(%d, %r) raised %r" % (y, t, ex))
    try:
        Sun.get_equinox_solstice(2000, "fall")
        out.append("get_equinox_solstice accepted target 'fall'")
    except ValueError:
        pass
    except Exception as ex:
        out.append("get_equinox_solstice(2000, 'fall') raised %r" % ex)
    return out


def run_season_range(_, ctx):
    ctx.evals += 25
    ctx.nt_count += 4
    for msg in check_season_range({}):
        ctx.viol({}, msg, site="season_range")
    ctx.sample({"years": [-1001, 3001]})


# -- equation of time ---------------------------------------------------------------------------

def eot_values(ms):
    m, s = ms
    if m != 0:
        return [m + math.copysign(s / 60.0, m)]
    return [s / 60.0, -s / 60.0]


def check_eot_year(y):
    out = []
    n0 = fast().n(y, 1, 1)
    n1 = fast().n(y + 1, 1, 1)
    prev = None
    stats = {"max": 0.0, "maxstep": 0.0, "nt": 0}
    lim = 17.5 if 1800 <= y <= 2200 else 25.0
    for n in range(n0, n1 + 1):
        j = n - 0.5
        try:
            ms = Sun.equation_of_time(Epoch(j))
        except Exception as ex:
            out.append(("eot_exception", "equation_of_time at JDE %r raised %r" % (j, ex), None, j))
            prev = None
            continue
        if not (isinstance(ms, tuple) and len(ms) == 2 and isinstance(ms[0], int) and 0.0 <= ms[1] < 60.0):
            out.append(("eot_fields", "equation_of_time at JDE %r = %r" % (j, ms), None, j))
            prev = None
            continue
        vals = eot_values(ms)
        if prev is not None:
            cand = [(abs(v - p), v) for v in vals for p in prev]
            step, v = min(cand)
            # keep every sign candidate that has a predecessor within the limit
            keep = sorted(set(v2 for st2, v2 in cand if st2 * 60.0 < 45.0))
            vals = keep or vals
            if step * 60.0 >= 45.0:
                out.append(("eot_step", "equation of time changes by %.1f s between JDE %r and %r (%r -> %r)"
                            % (step * 60, j - 1, j, prev, ms), step * 60, j))
            stats["maxstep"] = max(stats["maxstep"], step * 60)
            if step * 60 > 20:
                stats["nt"] += 1
        a = min(abs(v) for v in vals)
        if a > lim:
            out.append(("eot_size", "equation of time %r (%.2f min) exceeds %r min at JDE %r" % (ms, a, lim, j), a, j))
        stats["max"] = max(stats["max"], a)
        if a > 10:
            stats["nt"] += 1
        prev = vals
    return out, stats


# -- the (minutes, seconds) decomposition at its own seam: instants where E passes a whole minute --------------

EOT_SEAM_YEARS = [-2000, -1000, 0, 352, 1000, 1582, 1900, 2000, 2024, 2100, 3000, 3999]
EOT_DELTAS = [1e-9, 1e-8, 1e-7, 1e-6, 1e-5, 1e-4]       # days (86 microseconds .. 8.6 s)


def _eot_signed(j, near):
    """Equation of time in minutes at JDE j, the sign of a (0, s) result resolved by the neighbour value."""
    ms = Sun.equation_of_time(Epoch(j))
    vals = eot_values(ms)
    return min(vals, key=lambda v: abs(v - near))


def check_eot_seam(case):
    """Within year y, every instant at which the equation of time equals a whole number of minutes is
    located by bisection (on daily brackets); microseconds to seconds either side of it the value must
    be continuous: the seconds field runs up to 59.99.. on one side and restarts at 0 on the other, with
    the minutes carried."""
    y = case["year"]
    out = []
    n0 = fast().n(y, 1, 1)
    n1 = fast().n(y + 1, 1, 1)
    prev = None
    seams = 0
    for n in range(n0, n1 + 1):
        j = n - 0.5
        try:
            v = _eot_signed(j, prev[1] if prev else 0.0)
        except Exception as ex:
            out.append(("eot_exception", "equation_of_time at JDE %r raised %r" % (j, ex), None))
            prev = None
            continue
        if prev is not None and math.floor(v) != math.floor(prev[1]) and abs(v - prev[1]) < 0.75:
            k = max(math.floor(v), math.floor(prev[1]))         # the whole minute crossed
            lo, hi, vlo = prev[0], j, prev[1]
            for _ in range(48):
                mid = (lo + hi) / 2.0
                vm = _eot_signed(mid, vlo)
                if (vm - k) * (vlo - k) > 0:
                    lo, vlo = mid, vm
                else:
                    hi = mid
            seams += 1
            for d in EOT_DELTAS:
                a, b = _eot_signed(hi - d, k), _eot_signed(hi + d, k)
                rate = abs(v - prev[1])                           # minutes per day
                if abs(a - b) * 60.0 > 0.5 + 2.0 * d * rate * 60.0:
                    out.append(("eot_seam", "equation of time jumps from %.6f to %.6f min across the instant it "
                                "passes %d min (JDE %r -+ %g d)" % (a, b, k, hi, d), abs(a - b) * 60.0))
                    break
        prev = (j, v)
    return out, seams


def run_eot_seams(block, ctx):
    for case in block:
        res, seams = check_eot_seam(case)
        ctx.evals += 370 + seams * (48 + 2 * len(EOT_DELTAS))
        ctx.nt_count += seams
        for site, msg, dev in res:
            ctx.viol(case, msg, dev=dev, site=site)
        ctx.outcome((case["year"], seams))
    ctx.sample(block[0])


def run_eot(block, ctx):
    for y in block:
        res, st = check_eot_year(y)
        ctx.evals += 366
        ctx.nt_count += st["nt"]
        for site, msg, dev, j in res:
            ctx.viol({"year": y, "jde": j}, msg, dev=dev, site=site)
        ctx.maxi("eot_minutes", st["max"])
        ctx.maxi("eot_step_seconds", st["maxstep"])
        ctx.obs(y, st["max"])
    ctx.outcome(len(block))
    ctx.sample({"year": block[0]})


# -- sunrise / sunset -------------------------------------------------------------------------------

def sun_alt(ep_utc, lat, lon_east):
    y, m, d, h, mi, s = ep_utc.get_full_date()
    tt = Epoch(y, m, d, h, mi, s, utc=True)
    lon, la, r = Sun.apparent_geocentric_position(tt)
    eps = true_obliquity(tt)
    dpsi = nutation_longitude(tt)
    ra, dec = ecliptical2equatorial(lon, la, eps)
    st = ep_utc.apparent_sidereal_time(eps, dpsi) * 360.0
    H = Angle(st + lon_east - ra._deg)
    az, el = equatorial2horizontal(H, dec, Angle(lat))
    return el._deg, wrap180(H._deg)


def day_extremes(e, lat, lon_east):
    """Min and max altitude of the Sun over the civil day (sampled every 4 min)."""
    lo, hi = 99.0, -99.0
    j0 = e.jde()
    for k in range(0, 361):
        a, _ = sun_alt(Epoch(j0 - 0.5 + k / 360.0 * 2.0), lat, lon_east)
        lo, hi = min(lo, a), max(hi, a)
    return lo, hi


def check_riseset(case):
    (y, m, d), lat, lon, alt = case["date"], case["lat"], case["lon"], case["height"]
    e = Epoch(y, m, d)
    h0 = -0.83 - 2.076 * math.sqrt(alt) / 60.0
    out = []
    try:
        r, s = e.rise_set(Angle(lat), Angle(lon), alt)
    except ValueError as ex:
        if abs(lat) > 66.55:
            return []
        lo, hi = day_extremes(e, lat, lon)
        if lo > h0 - 1.0 or hi < h0 + 1.0:
            return []           # the Sun does not cross that altitude on this day
        return [("riseset_refused", "rise_set(%r, lat %r, lon %r, h %r) raised ValueError(%s)"
                 % (case["date"], lat, lon, alt, ex), None)]
    except Exception as ex:
        return [("riseset_exception", "rise_set(%r, lat %r, lon %r) raised %r" % (case["date"], lat, lon, ex), None)]
    if abs(lat) > 66.55:
        return [("riseset_polar", "rise_set accepted latitude %r beyond the polar circle" % lat, None)]
    if e.jde() != Epoch(y, m, d).jde():
        out.append(("mutation", "rise_set changed its Epoch", None))
    ar, Hr = sun_alt(r, lat, lon)
    as_, Hs = sun_alt(s, lat, lon)
    for nm, a in (("rise", ar), ("set", as_)):
        if abs(a - h0) > 1.0:
            out.append(("riseset_altitude", "Sun%s %r at lat %r lon %r h %r: altitude %r, standard %r"
                        % (nm, case["date"], lat, lon, alt, a, h0), abs(a - h0)))
    if not (r.jde() < s.jde()) or not (Hr < 0.0 < Hs):
        out.append(("riseset_order", "rise %r / set %r: hour angles %r, %r (rise must precede transit, set follow it)"
                    % (r.jde(), s.jde(), Hr, Hs), None))
    return out


DATES = [(1900, 1, 1), (1950, 3, 21), (1972, 7, 1), (1999, 6, 21), (2019, 4, 2), (2024, 2, 29), (2050, 9, 23),
         (2100, 12, 21), (1900, 3, 20), (1900, 9, 22), (1916, 9, 20), (2084, 9, 20), (2092, 3, 15), (2100, 3, 12),
         (2100, 9, 18)]
RS_LATS = [0.0, 23.4, -23.4, 45.0, -45.0, 48.133, -48.133, 60.0, -60.0, 65.0, -65.0, 66.5, -66.5, 67.0, -70.0]
RS_LONS = [0.0, 75.0, -75.0, 11.567, 120.0, 179.9, -179.9]
RS_H = [0.0, 520.0, 5000.0]


def riseset_cases():
    return [{"date": list(dt), "year": dt[0], "lat": la, "lon": lo, "height": h} for dt in DATES for la in RS_LATS
            for lo in RS_LONS for h in RS_H]


def run_riseset(block, ctx):
    for case in block:
        ctx.evals += 1
        res = check_riseset(case)
        for site, msg, dev in res:
            ctx.viol(case, msg, dev=dev, site=site)
            ctx.maxi(site, dev)
        if abs(case["lat"]) >= 60:
            ctx.nt_count += 1
        ctx.outcome((case["lat"], len(res)))
    ctx.sample(block[0])


# -- general rise / transit / set ----------------------------------------------------------------------

MOTIONS = [(0.0, 0.0), (1.05, 0.39), (-1.5, -1.0), (1.5, 1.5), (0.3, -1.5)]
A0S = [41.73, 180.0, 359.9]
D0S = [-60.0, -18.0, 0.0, 18.44, 60.0, 85.0]
PHIS = [0.0, 42.3333, -42.3333, 60.0, -60.0, 70.0, -70.0]
LONW = [71.0833, 0.0, -120.0]
H0S = [-0.5667, -0.8333, 0.125]
THETA0, DT = 177.74208, 56.0


def body(a0, d0, ar, dr, t, acc=(0.0, 0.0)):
    """Position at day t: linear motion plus an acceleration (deg/day^2); the routine's three-point interpolation
    is exact for it."""
    return (a0 + ar * t + acc[0] * t * t) % 360.0, d0 + dr * t + acc[1] * t * t


def check_rts(case):
    lon_w, lat, a0, d0, (ar, dr), h0 = case["lon_w"], case["lat"], case["a0"], case["d0"], case["motion"], case["h0"]
    acc = tuple(case.get("accel", (0.0, 0.0)))
    A = [body(a0, d0, ar, dr, t, acc) for t in (-1, 0, 1)]
    theta0 = case.get("theta0", THETA0)
    args = [Angle(lon_w), Angle(lat)] + [Angle(v) for p in A for v in p] + [Angle(h0), DT, Angle(theta0)]
    before = [x._deg for x in args if isinstance(x, Angle)]
    try:
        r = times_rise_transit_set(*args)
    except Exception as ex:
        return [("rts_exception", "times_rise_transit_set(%r) raised %r" % (case, ex), None)]
    out = []
    if [x._deg for x in args if isinstance(x, Angle)] != before:
        out.append(("mutation", "times_rise_transit_set modified its arguments", None))
    cosH = (math.sin(math.radians(h0)) - math.sin(math.radians(lat)) * math.sin(math.radians(d0))) / \
        (math.cos(math.radians(lat)) * math.cos(math.radians(d0)))
    if r == (None, None, None):
        if abs(cosH) <= 1.0:
            out.append(("rts_none", "no times reported although the body crosses the altitude (cos H0 = %r): %r"
                        % (cosH, case), None))
        return out
    if abs(cosH) > 1.0:
        return out + [("rts_spurious", "times %r reported although the body never crosses the altitude "
                       "(cos H0 = %r): %r" % (r, cosH, case), None)]
    if not (isinstance(r, tuple) and len(r) == 3 and all(isinstance(x, float) and math.isfinite(x) for x in r)):
        return out + [("rts_type", "times_rise_transit_set returned %r" % (r,), None)]
    if abs(cosH) > 0.8:
        return out          # grazing: must only not crash
    rise, transit, sett = r

    def alt_ha(ut_h):
        m = ut_h / 24.0
        n = m + DT / 86400.0
        a, d = body(a0, d0, ar, dr, n, acc)
        th = theta0 + 360.985647 * m
        H = th - lon_w - a
        az, el = equatorial2horizontal(Angle(H), Angle(d), Angle(lat))
        return el._deg, wrap180(H)
    er, Hr = alt_ha(rise)
    es, Hs = alt_ha(sett)
    _, Ht = alt_ha(transit)
    for nm, v in (("rise", abs(er - h0)), ("set", abs(es - h0))):
        if v > 0.005:
            out.append(("rts_altitude", "at the %s time %r h the body is at altitude %r, standard altitude %r (%r)"
                        % (nm, rise if nm == "rise" else sett, er if nm == "rise" else es, h0, case), v))
    if abs(Ht) > 0.005:
        out.append(("rts_transit", "at the transit time %r h the hour angle is %r deg (%r)" % (transit, Ht, case),
                    abs(Ht)))
    if not (Hr < 0.0 < Hs):
        out.append(("rts_order", "hour angle at rise %r, at set %r (%r)" % (Hr, Hs, case), None))
    return out


def rts_cases():
    return [{"lon_w": lw, "lat": la, "a0": a0, "d0": d0, "motion": list(mo), "h0": h0}
            for lw in LONW for la in PHIS for a0 in A0S for d0 in D0S for mo in MOTIONS for h0 in H0S]


RTS_SEAM_EPS = [1e-4, -1e-4, 5e-4, -5e-4, 1.4e-3, -1.4e-3, 4e-3, -4e-3]      # days: 9 s .. 6 min


def rts_seam_cases():
    """Right ascensions chosen so that the first approximation of the transit, the rising or the setting
    falls seconds to minutes before / after 0h = 24h UT, where the day fraction wraps."""
    out = []
    for lw in (71.0833, -120.0):
        for la in (0.0, 42.3333, -60.0):
            for d0 in (-18.0, 18.44):
                for mo in MOTIONS:
                    for h0 in (-0.5667,):
                        cosH = (math.sin(math.radians(h0)) - math.sin(math.radians(la)) * math.sin(math.radians(d0))) / \
                            (math.cos(math.radians(la)) * math.cos(math.radians(d0)))
                        if abs(cosH) > 0.8:
                            continue
                        H0 = math.degrees(math.acos(cosH))
                        for ev, sh in (("transit", 0.0), ("rise", H0), ("set", -H0)):
                            for eps in RTS_SEAM_EPS:
                                a0 = (THETA0 - lw + sh + 360.0 * (1.0 - eps)) % 360.0
                                out.append({"lon_w": lw, "lat": la, "a0": a0, "d0": d0, "motion": list(mo), "h0": h0,
                                            "seam": ev, "eps": eps})
    return out


def rts_accelerated_cases():
    """Bodies whose daily motion changes from one day to the next (comets, near-Earth asteroids): 0.03 .. 0.15
    deg/day^2 on top of motions of up to 1.5 deg/day - the second differences of the interpolation matter."""
    return [{"lon_w": lw, "lat": la, "a0": a0, "d0": d0, "motion": list(mo), "h0": -0.5667, "accel": list(ac)}
            for lw in (71.0833, -120.0) for la in (0.0, 42.3333, -60.0) for a0 in (41.73, 180.0, 300.0) for d0 in (-18.0, 18.44)
            for mo in ((1.05, 0.39), (-1.5, -1.0), (0.3, -1.5)) for ac in ((0.06, 0.04), (-0.1, 0.05), (0.15, -0.1), (0.0, 0.12))]


def rts_dense_seam_cases():
    """Fast bodies with an event within +-6 minutes of 0h UT on a 0.17-second grid: where an intermediate correction
    of ONE of the three events happens to vanish is not a round number."""
    out = []
    h0 = -0.5667
    # (the last family: a low southern body for a northern observer, moving 1.3 deg/day in both coordinates - a short
    # diurnal arc, where a rising or setting time left after ONE correction pass is 0.04 degree of altitude off)
    for lw, la, d0, motions in ((71.0833, 42.3333, 18.44, ((1.05, 0.39), (-1.5, -1.0))),
                                (71.0833, 0.0, 18.44, ((1.05, 0.39), (-1.5, -1.0))),
                                (-109.98, 46.3, -27.18, ((-1.3, 1.27), (1.3, -1.27)))):
        cosH = (math.sin(math.radians(h0)) - math.sin(math.radians(la)) * math.sin(math.radians(d0))) / \
            (math.cos(math.radians(la)) * math.cos(math.radians(d0)))
        H0 = math.degrees(math.acos(cosH))
        for mo in motions:
            for ev, sh in (("transit", 0.0), ("rise", H0), ("set", -H0)):
                for k in range(-2000, 2001):
                    eps = k * 2e-6
                    a0 = (THETA0 - lw + sh + 360.0 * (1.0 - eps)) % 360.0
                    out.append({"lon_w": lw, "lat": la, "a0": a0, "d0": d0, "motion": list(mo), "h0": h0, "seam": ev,
                                "eps": eps})
    return out


def rts_zero_hour_cases():
    """Bodies whose right ascension passes 0h = 24h during the three days (prograde and retrograde, slow and fast),
    seen from eastern and western longitudes at four sidereal times: the hour-angle reductions by +-360 degrees."""
    return [{"lon_w": lw, "lat": la, "a0": a0, "d0": 1.07, "motion": list(mo), "h0": -0.5667, "theta0": th, "seam": "0h"}
            for lw in (-116.4, 71.0833, 0.0) for la in (39.9, -42.3333) for a0 in (0.15, 0.05, 359.95, 359.85)
            for mo in ((-0.3, -0.13), (-1.5, -1.0), (0.3, 0.1), (1.05, 0.39)) for th in (300.0, 177.74208, 90.0, 0.5)]


def run_rts(block, ctx):
    for case in block:
        ctx.evals += 1
        res = check_rts(case)
        for site, msg, dev in res:
            ctx.viol(case, msg, dev=dev, site=site)
            ctx.maxi(site, dev)
        if case.get("seam") or case.get("accel") or case["a0"] > 350 or abs(case["d0"]) >= 60:
            ctx.nt_count += 1
        ctx.outcome((case["lat"], case["d0"], len(res)))
    ctx.sample(block[0])


TH_LATS = [42.3333, -42.3333, 50.0, -50.0, 60.0, -60.0, 70.0, -70.0, 85.0, 1.0]
TH_H0 = [-18.0, -6.0, -0.8333, -0.5667, 0.125, 5.0]


def threshold_cases(tier):
    """Declinations on a fine grid through both 'never crosses' thresholds (never rises / never
    sets) for each latitude and standard altitude, twilight altitudes included."""
    step = 0.05 if tier == "thorough" else 0.25
    n = int(round(179.0 / step))
    return [{"lon_w": 0.0, "lat": la, "a0": 41.73, "d0": round(-89.5 + k * step, 6), "motion": [0.0, 0.0], "h0": h0}
            for la in TH_LATS for h0 in TH_H0 for k in range(n + 1)]


def run_threshold(block, ctx):
    for case in block:
        ctx.evals += 1
        res = check_rts(case)
        for site, msg, dev in res:
            ctx.viol(case, msg, dev=dev, site=site)
        h0, lat, d0 = case["h0"], case["lat"], case["d0"]
        up = 90.0 - abs(lat - d0)
        lo = -90.0 + abs(lat + d0)
        # culmination between the geometric horizon and the standard altitude: the narrow band in which
        # a decision that ignores h0 goes wrong
        if min(0.0, h0) <= up <= max(0.0, h0) or min(0.0, h0) <= lo <= max(0.0, h0):
            ctx.nt_count += 1
        ctx.outcome((lat, h0, len(res)))
    ctx.sample(block[0])


def clauses(tier):
    years = list(range(-1000, 3001))
    if tier == "thorough":
        eot_years = sorted(set(list(range(-2000, 4000, 10)) + [y for c in (-2000, -500, 500, 1500, 1950, 3900)
                                                             for y in range(c, c + 100)]))
    else:
        eot_years = [-2000, -500, 0, 1000, 1582, 1900, 2000, 2024, 3000, 3999]
    return [
        Clause("seasons", chunks(years, 64), run_seasons, replay_seasons, floor=16000),
        Clause("season_range", [0], run_season_range, check_season_range, floor=4),
        Clause("equation_of_time", chunks(eot_years, 64), run_eot,
               lambda c: [r[1] for r in check_eot_year(c["year"])[0]], floor=50),
        Clause("eot_minute_seams", [[{"year": y}] for y in (EOT_SEAM_YEARS if tier != "thorough" else
                                                             sorted(set(EOT_SEAM_YEARS + list(range(-2000, 4000, 40)))))],
               run_eot_seams, lambda c: [r[1] for r in check_eot_seam(c)[0]], floor=100),
        Clause("sunrise_sunset", chunks(riseset_cases(), 32), run_riseset,
               lambda c: [m for _, m, _ in check_riseset(c)], floor=100),
        Clause("rise_transit_set", chunks(rts_cases(), 32), run_rts,
               lambda c: [m for _, m, _ in check_rts(c)], floor=200),
        Clause("rts_accelerated", chunks(rts_accelerated_cases(), 16), run_rts,
               lambda c: [m for _, m, _ in check_rts(c)], floor=200),
        Clause("rts_dense_seam", chunks(rts_dense_seam_cases(), 64), run_rts,
               lambda c: [m for _, m, _ in check_rts(c)], floor=20000),
        Clause("rts_day_seam", chunks(rts_seam_cases() + rts_zero_hour_cases(), 16), run_rts,
               lambda c: [m for _, m, _ in check_rts(c)], floor=200),
        Clause("rts_threshold", chunks(threshold_cases(tier), 32), run_threshold,
               lambda c: [m for _, m, _ in check_rts(c)], floor=200),
    ]
