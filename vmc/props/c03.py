"""C03 - Angle: canonical range, congruence mod 360, closed arithmetic.
L: constructor lattice; H: BFS over operator histories on real Angle objects
against exact rationals."""
import itertools
import math
from fractions import Fraction

from ..engine import Clause, chunks
from ..fp import ulps
from ..ref import angle as R

from pymeeus.Angle import Angle

PROPERTY = "C03"
LEVEL = "model_checking"
RULE = ("constructor lattice: full product magnitude x sign x +-1 ulp x input form, and "
        "D x M x S x form for sexagesimal input; operators: BFS to the stated depth over "
        "every (operator, form, operand type, operand) event on real Angle objects, each "
        "transition compared with the exact rational result; non-trivial = the exact result "
        "needed a reduction (|exact| >= 360) or lies within 1e-6 of 0 or +-360 or the operand "
        "is negative/fractional, and the scaled tolerance is below 180 degrees")
ASSUMPTIONS = ["% is the sign-magnitude modulo the library documents: sign(a)*(|a| mod b)",
               "** is compared only where the real power exists and is below 1e15 in magnitude",
               "a divisor with 0 < |b| < 1e-10 given as Angle may raise ZeroDivisionError "
               "(documented comparison tolerance)",
               "radian inputs are compared with an 80-digit value of pi"]

SCALE_MAX = 1e15


def bound(tier):
    return ("constructor lattice complete; operator BFS depth 2 over the full event set" +
            ("; depth 3 over the reduced event set" if tier == "thorough" else ""))


# ---------------------------------------------------------------------------
# constructors (L)

MAGS = [0.0, 5e-324, 1e-300, 1e-20, 1e-10, 1.0, 59.999999, 90.0, 180.0, 359.99999999, 360.0,
        720.0, 1080.0, 1e6, 1e9 + 0.5, 123456789.123, 1e15, 25.0, 24.0, 23.999999999, 375.0]
FORMS1 = ["float", "int", "tuple1", "list1", "radians", "set_radians", "radians_list",
          "radians_tuple", "ra", "set_ra", "ra_tuple", "copy", "set_on_used",
          # both keywords given, one of them switched off
          "radians_ra_off", "ra_radians_off", "both_off", "set_radians_ra_off"]


def build1(form, x):
    """Returns (Angle, exact input in degrees) or None if the form does not apply."""
    if form == "float":
        return Angle(x), Fraction(x)
    if form == "int":
        if x != int(x) or abs(x) > 2**62:
            return None
        return Angle(int(x)), Fraction(int(x))
    if form == "tuple1":
        return Angle((x,)), Fraction(x)
    if form == "list1":
        return Angle([x]), Fraction(x)
    if form == "radians":
        return Angle(x, radians=True), R.rad2deg_exact(x)
    if form == "set_radians":
        a = Angle(77.7)
        a.set_radians(x)
        return a, R.rad2deg_exact(x)
    if form == "radians_list":
        return Angle([x], radians=True), R.rad2deg_exact(x)
    if form == "radians_tuple":
        return Angle((x,), radians=True), R.rad2deg_exact(x)
    if form == "ra":
        return Angle(x, ra=True), Fraction(x) * 15
    if form == "set_ra":
        a = Angle(-33.3)
        a.set_ra(x)
        return a, Fraction(x) * 15
    if form == "ra_tuple":
        return Angle((x,), ra=True), Fraction(x) * 15
    if form == "copy":
        return Angle(Angle(x)), Fraction(x)
    if form == "radians_ra_off":
        return Angle(x, ra=False, radians=True), R.rad2deg_exact(x)
    if form == "ra_radians_off":
        return Angle(x, radians=False, ra=True), Fraction(x) * 15
    if form == "both_off":
        return Angle(x, radians=False, ra=False), Fraction(x)
    if form == "set_radians_ra_off":
        a = Angle(5.5)
        a.set(x, radians=True, ra=False)
        return a, R.rad2deg_exact(x)
    if form == "set_on_used":
        a = Angle(123.456)
        a.to_positive()
        a.set(x)
        return a, Fraction(x)
    raise KeyError(form)


def judge_value(v, exact, what, need_sign=True):
    """Common oracle: range, congruence, sign. Returns list of (site, msg, dev)."""
    out = []
    if not isinstance(v, float) or not math.isfinite(v):
        return [("type", "%s holds %r" % (what, v), None)]
    if not (-360.0 < v < 360.0):
        out.append(("range", "%s = %r is outside (-360, 360)" % (what, v), abs(v)))
    tol = R.tol_for(exact)
    if tol < 180:
        dev = R.cong_dev(v, exact)
        if dev > tol:
            out.append(("congruence", "%s = %r is not congruent to the exact value %s (off by %.3g)"
                        % (what, v, _show(exact), float(dev)), float(dev)))
        elif need_sign and v != 0.0 and exact != 0 and (v < 0) != (exact < 0) \
                and R.cong_dev(0, exact) > tol:
            out.append(("sign", "%s = %r has not the sign of the input %s" % (what, v, _show(exact)), None))
    return out


def _show(fr):
    try:
        return repr(float(fr))
    except OverflowError:
        return str(fr)


def nontrivial(exact):
    if R.tol_for(exact) >= 180:
        return False
    a = abs(exact)
    if a >= 360:
        return True
    return a < Fraction(1, 10**6) or abs(a - 360) < Fraction(1, 10**6) or exact < 0 \
        or exact.denominator != 1


def check_ctor1(case):
    x = case["x"]
    form = case["form"]
    try:
        r = build1(form, x)
    except Exception as ex:
        return [("exception", "Angle form %s of %r raised %r" % (form, x, ex), None)]
    if r is None:
        return []
    a, exact = r
    return judge_value(a._deg, exact, "Angle[%s](%r)" % (form, x))


def run_ctor1(block, ctx):
    for x in block:
        for form in FORMS1:
            case = {"x": x, "form": form}
            ctx.evals += 1
            res = check_ctor1(case)
            for site, msg, dev in res:
                ctx.viol(case, msg, dev=dev, site=site)
            try:
                r = build1(form, x)
                if r is not None and nontrivial(r[1]):
                    ctx.nt((x, form))
                ctx.outcome(None if r is None else r[0]._deg)
            except Exception:
                pass
            ctx.obs(x, form, len(res))
    ctx.sample({"x": block[0], "form": "ra"})


DS = [0, 1, -1, 23, -23, 359, 360, 361, -743, 0.5, -0.5, 12.999999, -359, 719, 359.99999999999994]
MS = [0, 1, -1, 26, 59, 60, 61, -26, 59.999999, 0.5, 125, 59.99999999999999]
SS = [0, 0.0, 1, -1, 48.999, 59.9999999, 60, 61, -48.9, 3600, 1e-9, 59.99999999999999, 59.999999999999]
FORMS3 = ["args", "tuple", "list", "args4", "tuple4", "list4", "args2", "tuple2", "ra_args",
          "set_args", "args4_signed", "tuple4_signed", "list4_signed"]


def fractional_pieces():
    """Sexagesimal triples whose fractional minutes (or degrees) push a value to the seconds that lies 0 .. 1e-3
    arcsecond from a whole second - where a 'clean the round-off' step would move the angle by up to 1e-8 degree."""
    fm = []
    for mi in (0, 26, 59):
        for si in (0, 1, 29, 49, 59):
            for dd in (0.0, 1e-6, -1e-6, 2e-5, -2e-5, 4.9e-5, -4.9e-5, 1e-3):
                v = mi + (si + dd) / 60.0
                if v >= 0:
                    fm += [v, round(v, 6)]
    fm = sorted(set(fm))
    out = [(d, m, sec) for d in (0, 23, -23, 359) for m in fm for sec in (0, 12.5, 59.5)]
    out += [(sg * (23 + m / 60.0), mm, sec) for sg in (1, -1) for m in fm[::3] for mm in (0, 26) for sec in (0, 12.5)]
    return out


# -- round(Angle, n): decimal ties that are not binary ties ---------------------------------------------------

def rounding_cases():
    """(x, n): x = +-(10 i + 5) / 10^(n+1) - the decimal written ...5 one place beyond the rounding position, whose
    binary value lies just below or just above the tie - for n = 0 .. 6 and i < 20 000; and the 0.005-degree lattice
    0 .. 360 for n = 0 .. 4."""
    out = []
    for n in range(0, 7):
        for i in range(0, 20000):
            x = (10 * i + 5) / 10.0 ** (n + 1)
            if x < 360.0:
                out += [(x, n), (-x, n)]
    for k in range(0, 72000, 7):
        for n in range(0, 5):
            out.append((k * 0.005, n))
    return out


def check_rounding(case):
    x, n = case["x"], case["n"]
    try:
        r = round(Angle(x), n)
    except Exception as ex:
        return [("exception", "round(Angle(%r), %d) raised %r" % (x, n, ex), None)]
    exp = math.fmod(round(x, n), 360.0)     # correctly rounded (half-even on the exact binary value), reduced
    if not isinstance(r, Angle) or r._deg != exp:
        return [("round", "round(Angle(%r), %d) = %r, the value rounded to %d places is %r"
                 % (x, n, getattr(r, "_deg", r), n, exp), abs(getattr(r, "_deg", 0.0) - exp))]
    return []


def run_rounding(block, ctx):
    for x, n in block:
        ctx.evals += 1
        case = {"x": x, "n": n}
        for site, msg, dev in check_rounding(case):
            ctx.viol(case, msg, dev=dev, site=site)
    ctx.nt_count += len(block)
    ctx.outcome(block[0][1])
    ctx.obs(block[0], block[-1])
    ctx.sample({"x": block[0][0], "n": block[0][1]})


def build3(form, d, m, s):
    neg = d < 0 or m < 0 or s < 0
    mag = abs(Fraction(d)) + abs(Fraction(m)) / 60 + abs(Fraction(s)) / 3600
    exact = -mag if neg else mag
    if form == "args":
        return Angle(d, m, s), exact
    if form == "tuple":
        return Angle((d, m, s)), exact
    if form == "list":
        return Angle([d, m, s]), exact
    if form == "set_args":
        a = Angle(200.5)
        a.set(d, m, s)
        return a, exact
    if form == "ra_args":
        return Angle(d, m, s, ra=True), exact * 15
    if form in ("args2", "tuple2"):
        if s != 0:
            return None
        neg2 = d < 0 or m < 0
        mag2 = abs(Fraction(d)) + abs(Fraction(m)) / 60
        e2 = -mag2 if neg2 else mag2
        return (Angle(d, m) if form == "args2" else Angle((d, m))), e2
    # the pieces keep their own signs and an explicit +1 is given as well: the sign is carried by any piece
    if form == "args4_signed":
        return Angle(d, m, s, 1.0), exact
    if form == "tuple4_signed":
        return Angle((d, m, s, 1.0)), exact
    if form == "list4_signed":
        return Angle([d, m, s, 1.0]), exact
    # explicit sign element
    out = []
    sg = -1.0 if neg else 1.0
    if form == "args4":
        return Angle(abs(d), abs(m), abs(s), sg), exact
    if form == "tuple4":
        return Angle((abs(d), abs(m), abs(s), sg)), exact
    if form == "list4":
        return Angle([abs(d), abs(m), abs(s), sg]), exact
    raise KeyError(form)


def check_ctor3(case):
    d, m, s = case["dms"]
    form = case["form"]
    try:
        r = build3(form, d, m, s)
    except Exception as ex:
        return [("exception", "Angle form %s of %r raised %r" % (form, (d, m, s), ex), None)]
    if r is None:
        return []
    a, exact = r
    return judge_value(a._deg, exact, "Angle[%s]%r" % (form, (d, m, s)))


def run_ctor3(block, ctx):
    for (d, m, s) in block:
        for form in FORMS3:
            case = {"dms": [d, m, s], "form": form}
            ctx.evals += 1
            res = check_ctor3(case)
            for site, msg, dev in res:
                ctx.viol(case, msg, dev=dev, site=site)
            try:
                r = build3(form, d, m, s)
                if r is not None and nontrivial(r[1]):
                    ctx.nt((repr((d, m, s)), form))
                ctx.outcome(None if r is None else r[0]._deg)
            except Exception:
                pass
            ctx.obs(d, m, s, form, len(res))
    ctx.sample({"dms": list(block[0]), "form": "tuple"})


# ---------------------------------------------------------------------------
# operators (H)

INITIALS = [0.0, -0.0, 1e-20, -1e-20, 1.0, -1.0, 90.0, 180.0, -180.0, 359.999999999,
            -359.999999999, math.nextafter(360.0, 0.0), 123.456, -271.5, 0.1]
OPERANDS = [0, 1, -1, 2, 0.5, 360, -360, 720.5, 1e-3, 3, -2.5, 7, 1e6, 725]
OPERANDS_RED = [1, 360, -2.5, 0.5]
BINOPS = ["add", "sub", "mul", "div", "mod", "pow"]
UNARY = [("neg",), ("abs",), ("round", 0), ("round", 3), ("to_positive",), ("copy",)]


def make_events(operands, kinds=("plain", "refl", "inplace"), types=("Angle", "int", "float")):
    ev = []
    for op in BINOPS:
        for kind in kinds:
            for t in types:
                if kind == "refl" and t == "Angle":
                    continue
                for y in operands:
                    if t == "int" and y != int(y):
                        continue
                    ev.append((op, kind, t, y))
    return ev + list(UNARY)


def operand(t, y):
    if t == "Angle":
        return Angle(y)
    if t == "int":
        return int(y)
    return float(y)


def apply_bin(a, op, kind, yobj):
    if kind == "plain":
        if op == "add":
            return a + yobj
        if op == "sub":
            return a - yobj
        if op == "mul":
            return a * yobj
        if op == "div":
            return a / yobj
        if op == "mod":
            return a % yobj
        return a ** yobj
    if kind == "refl":
        if op == "add":
            return yobj + a
        if op == "sub":
            return yobj - a
        if op == "mul":
            return yobj * a
        if op == "div":
            return yobj / a
        if op == "mod":
            return yobj % a
        return yobj ** a
    f = a
    if op == "add":
        f += yobj
    elif op == "sub":
        f -= yobj
    elif op == "mul":
        f *= yobj
    elif op == "div":
        f /= yobj
    elif op == "mod":
        f %= yobj
    else:
        f **= yobj
    return f


def exact_bin(op, l, r):
    """Exact real-number result of l op r, or a marker: 'zde' (division by
    zero), None (no real result / out of reach)."""
    if op == "add":
        return l + r
    if op == "sub":
        return l - r
    if op == "mul":
        return l * r
    if op == "div":
        return "zde" if r == 0 else l / r
    if op == "mod":
        return "zde" if r == 0 else R.smod(l, r)
    return R.pow_exact(l, r)


def bits(v):
    return (v, math.copysign(1.0, v))


def check_event(a, ev):
    """a: real Angle (must not be modified).  Returns (violations, result Angle
    or None, exact or None)."""
    out = []
    before = bits(a._deg)
    before_tol = a._tol
    what = None
    try:
        if ev[0] in BINOPS:
            op, kind, t, y = ev
            yobj = operand(t, y)
            yval = Fraction(yobj._deg) if t == "Angle" else Fraction(yobj)
            ybits = bits(yobj._deg) if t == "Angle" else None
            l, r = (yval, Fraction(a._deg)) if kind == "refl" else (Fraction(a._deg), yval)
            exact = exact_bin(op, l, r)
            what = "%s %s %s(%r) on Angle(%r)" % (kind, op, t, y, a._deg)
            tiny_angle_divisor = False
            if op in ("div", "mod") and exact != "zde":
                div_is_angle = (kind == "refl") or t == "Angle"
                tiny_angle_divisor = div_is_angle and abs(r) < Fraction(1, 10**10) and op == "div"
            try:
                res = apply_bin(a, op, kind, yobj)
            except ZeroDivisionError:
                if exact == "zde" or tiny_angle_divisor:
                    res = None
                elif op == "pow" and exact is None:
                    res = None
                else:
                    return [("zde", "%s raised ZeroDivisionError, exact result %s"
                             % (what, _show(exact)), None)], None, None
                if bits(a._deg) != before:
                    out.append(("mutation", "%s modified its left operand" % what, None))
                return out, None, None
            except (OverflowError, TypeError, ValueError) as ex:
                if op == "pow" and (exact is None or abs(exact) > SCALE_MAX):
                    return out, None, None     # no real / representable power
                return [("exception", "%s raised %r" % (what, ex), None)], None, None
            if exact == "zde":
                return [("zde", "%s returned %r instead of raising ZeroDivisionError"
                         % (what, res), None)], None, None
            if t == "Angle" and bits(yobj._deg) != ybits:
                out.append(("mutation", "%s modified its right operand" % what, None))
            if kind == "inplace" and res is a and not (op in ("add", "sub") and yval == 0):
                # rebinding is how the class keeps in-place operators pure
                out.append(("mutation", "%s returned the receiver itself" % what, None))
            # agreement of the in-place form with the plain form
            if kind == "inplace" and isinstance(res, Angle):
                try:
                    plain = apply_bin(a, op, "plain", operand(t, y))
                    if bits(plain._deg) != bits(res._deg):
                        out.append(("inplace", "%s = %r differs from the plain form %r"
                                    % (what, res._deg, plain._deg), None))
                except Exception as ex:
                    out.append(("inplace", "plain form of %s raised %r" % (what, ex), None))
        else:
            exact = None
            v = Fraction(a._deg)
            if ev[0] == "neg":
                res = -a
                exact = -v
            elif ev[0] == "abs":
                res = abs(a)
                exact = abs(v)
            elif ev[0] == "round":
                res = round(a, ev[1])
                exact = Fraction(round(a._deg, ev[1]))
                if abs(exact - v) > Fraction(1, 2 * 10**ev[1]) + Fraction(1, 10**12):
                    out.append(("round", "round(Angle(%r), %d) = %r" % (a._deg, ev[1], float(exact)), None))
            elif ev[0] == "to_positive":
                c = Angle(a)
                res = c.to_positive()
                exact = v
                if res is not c:
                    out.append(("to_positive", "to_positive() did not return its receiver", None))
                if isinstance(res, Angle) and not (0.0 <= res._deg < 360.0):
                    out.append(("to_positive", "Angle(%r).to_positive() = %r is outside [0, 360)"
                                % (a._deg, res._deg), res._deg))
            elif ev[0] == "copy":
                res = Angle(a)
                exact = v
                if res is a or bits(res._deg) != before or res._tol != a._tol:
                    out.append(("copy", "Angle(Angle(%r)) = %r" % (a._deg, res._deg), None))
            what = "%s on Angle(%r)" % (ev[0], a._deg)
    except Exception as ex:
        return [("exception", "%s raised %r" % (what or ev, ex), None)], None, None
    if bits(a._deg) != before or a._tol != before_tol:
        out.append(("mutation", "%s modified its receiver: %r -> %r" % (what, before[0], a._deg), None))
        # the explorer owns this object (it is a state of the search): put it back, and do not let the
        # result alias it
        if res is a:
            res = Angle(a)
        a._deg = before[0]
        a._tol = before_tol
    if not isinstance(res, Angle):
        out.append(("type", "%s returned %r, not an Angle" % (what, type(res).__name__), None))
        return out, None, None
    if exact is None or abs(exact) > SCALE_MAX:
        # no real result to compare with; the range must still hold
        if not (-360.0 < res._deg < 360.0):
            out.append(("range", "%s = %r is outside (-360, 360)" % (what, res._deg), None))
        return out, res, None
    need_sign = False
    out += judge_value(res._deg, exact, what, need_sign=need_sign)
    return out, res, exact


def observe_state(a):
    """rad() and get_ra() views of a state."""
    out = []
    v = a._deg
    try:
        r = a.rad()
        e = v * math.pi / 180.0
        if abs(r - e) > 4 * math.ulp(e) + 5e-324:
            out.append(("rad", "Angle(%r).rad() = %r, expected %r" % (v, r, e), abs(r - e)))
        h = a.get_ra()
        e = v / 15.0
        if abs(h - e) > 4 * math.ulp(e) + 5e-324:
            out.append(("get_ra", "Angle(%r).get_ra() = %r, expected %r" % (v, h, e), abs(h - e)))
        if float(a) != v or a() != v:
            out.append(("float", "float(Angle(%r)) = %r" % (v, float(a)), None))
    except Exception as ex:
        out.append(("views", "views of Angle(%r) raised %r" % (v, ex), None))
    return out


def ev_json(ev):
    return list(ev)


def run_bfs(spec, ctx):
    x0, depth, events_by_level = spec
    a0 = Angle(x0)
    seen = {bits(a0._deg): (a0, 0, None)}
    frontier = [a0]
    for site, msg, dev in observe_state(a0):
        ctx.viol({"start": x0, "event": None}, msg, dev=dev, site=site)
    for lvl in range(1, depth + 1):
        events = events_by_level[lvl - 1]
        nxt = []
        for a in frontier:
            for ev in events:
                ctx.transitions += 1
                ctx.evals += 1
                res, r, exact = check_event(a, ev)
                for site, msg, dev in res:
                    ctx.viol({"start": a._deg, "event": ev_json(ev)}, msg, dev=dev,
                             site=("%s_%s" % (ev[0], site)) if site in ("congruence", "zde") else site)
                if exact is not None and nontrivial(exact):
                    ctx.nt_count += 1
                if r is None:
                    continue
                k = bits(r._deg)
                if k not in seen:
                    seen[k] = (r, lvl, (bits(a._deg), ev))
                    for site, msg, dev in observe_state(r):
                        ctx.viol({"start": a._deg, "event": ev_json(ev)}, msg, dev=dev, site=site)
                    nxt.append(r)
        frontier = nxt
    ctx.states += len(seen)
    ctx.traces += len(seen)
    ctx.outcome((x0, len(seen)))
    ctx.obs(x0, len(seen), sorted(k[0] for k in seen)[:40])
    # one sample history
    ks = sorted(seen, key=lambda k: (seen[k][1], k))
    k = ks[-1]
    hist = []
    while seen[k][2] is not None and len(hist) <= depth:
        pk, ev = seen[k][2]
        hist.append(ev_json(ev))
        k = pk
    ctx.sample({"initial": x0, "history": hist[::-1], "state": ks[-1][0]})
    ctx.count("states_reached_from_%r" % x0, len(seen))


def replay_bfs(case):
    a = Angle()
    a._deg = case["start"]
    if case.get("event") is None:
        return [m for _, m, _ in observe_state(a)]
    ev = tuple(case["event"])
    if ev[0] in BINOPS:
        y = ev[3]
        if ev[2] == "int":
            y = int(y)
        ev = (ev[0], ev[1], ev[2], y)
    res, r, _ = check_event(a, ev)
    out = [m for _, m, _ in res]
    if r is not None:
        out += [m for _, m, _ in observe_state(r)]
    return out


# ---------------------------------------------------------------------------
# H: histories of observers and in-place mutators on ONE object.  After every
# step all views of the object must equal those of a fresh Angle holding the
# same value (differential oracle: state reached by a history vs the same state
# reached directly), so anything remembered across calls is exposed.

HIST_EVENTS = [("rad",), ("get_ra",), ("dms_tuple",), ("str",), ("to_positive",),
               ("set", -90.0), ("set", 370.5), ("set_dms", (-12, 30, 0.5)), ("set_radians", -1.0),
               ("set_ra", -3.0), ("set_tolerance", 1e-3), ("iadd", 200.0), ("float",)]


def views(a):
    return (a.rad(), a.get_ra(), float(a), a(), a.dms_tuple(), a.ra_tuple(), str(a),
            a.dms_str(n_dec=2), repr(a), int(a), abs(a)._deg, (-a)._deg,
            Angle(a).to_positive()._deg)


def hist_apply(a, ev):
    """Returns (object to continue with, expected exact value or None=unchanged)."""
    k = ev[0]
    if k == "rad":
        a.rad()
    elif k == "get_ra":
        a.get_ra()
    elif k == "dms_tuple":
        a.dms_tuple()
        a.ra_tuple()
    elif k == "str":
        str(a)
        a.dms_str()
        a.ra_str()
    elif k == "float":
        float(a)
        int(a)
        a()
    elif k == "to_positive":
        r = a.to_positive()
        if r is not a:
            raise AssertionError("to_positive() did not return its receiver")
    elif k == "set":
        a.set(ev[1])
    elif k == "set_dms":
        a.set(*ev[1])
    elif k == "set_radians":
        a.set_radians(ev[1])
    elif k == "set_ra":
        a.set_ra(ev[1])
    elif k == "set_tolerance":
        a.set_tolerance(ev[1])
    elif k == "iadd":
        b = a
        b += ev[1]
        return b
    return a


def check_history(case):
    a = Angle(case["start"])
    out = []
    done = []
    for ev in case["history"]:
        ev = tuple(tuple(x) if isinstance(x, list) else x for x in ev)
        try:
            a = hist_apply(a, ev)
        except Exception as ex:
            out.append("history %r + %r raised %r" % (done, ev, ex))
            break
        done.append(ev)
        fresh = Angle(a._deg)
        try:
            va, vf = views(a), views(fresh)
        except Exception as ex:
            out.append("views after history %r raised %r" % (done, ex))
            break
        if va != vf:
            diff = [i for i in range(len(va)) if va[i] != vf[i]]
            out.append("after history %r on Angle(%r) the object (value %r) answers %r where a "
                       "fresh Angle of the same value answers %r (view indexes %r)"
                       % (done, case["start"], a._deg, [va[i] for i in diff],
                          [vf[i] for i in diff], diff))
            break
        if not (-360.0 < a._deg < 360.0):
            out.append("after history %r the value %r is outside (-360, 360)" % (done, a._deg))
        # the radian / hour views of the object itself, judged absolutely (state shared by all Angle objects and
        # keyed on the value would mislead the fresh object in the same way)
        for site, msg, dev in observe_state(a):
            out.append("after history %r on Angle(%r): %s" % (done, case["start"], msg))
        if out:
            break
    return out


def history_cases(depth):
    out = []
    for x0 in (-90.0, 123.456, -1e-20, 359.999999999):
        for d in range(1, depth + 1):
            for h in itertools.product(HIST_EVENTS, repeat=d):
                out.append({"start": x0, "history": [list(e) for e in h]})
    return out


def run_history(block, ctx):
    for case in block:
        ctx.evals += 1
        ctx.states += 1
        ctx.transitions += len(case["history"])
        ctx.traces += 1
        if len(case["history"]) > 1:
            ctx.nt_count += 1
        for msg in check_history(case):
            ctx.viol(case, msg, site="object_history")
        ctx.outcome(len(case["history"]))
    ctx.obs(len(block))
    ctx.sample(block[len(block) // 2])


# -- the comparison tolerance carried by an operand is not part of its value --------------------------------

TOL_LEFTS = [90.0, -12.5, 0.5, 1e-3, 359.999, 0.0]
TOL_RIGHTS = [0.5, 2.0, -7.0, 1e-3, 1e-8, 123.456]
TOL_VALUES = [1.0, 1e-3, 0.0]


def check_operand_tolerance(case):
    """Every binary operator (plain and in-place) with Angle, float and int right operands is evaluated once with
    default-tolerance operands and again after set_tolerance() on the LEFT operand (a copy of a coarse Angle
    behaves the same): value, or exception class, must not change - what an operator computes depends on the
    operands' values.  (The right operand of / and % is left alone: the class documents that a divisor smaller
    than its own tolerance counts as zero.)"""
    x, y, tol = case["left"], case["right"], case["tol"]
    out = []
    for op in BINOPS:
        for kind in ("plain", "inplace"):
            for t in ("Angle", "float"):
                def run(left):
                    try:
                        r = apply_bin(left, op, kind, operand(t, y))
                        return ("ok", repr(r._deg) if isinstance(r, Angle) else repr(r))
                    except Exception as ex:
                        return ("exc", type(ex).__name__)
                ref = run(Angle(x))
                a = Angle(x)
                a.set_tolerance(tol)
                got = run(a)
                b = Angle(a)                # copy of a coarse-tolerance Angle
                got2 = run(b)
                for lab, g in (("after set_tolerance(%r)" % tol, got), ("as a copy of such an Angle", got2)):
                    if g != ref:
                        out.append("%s %s of Angle(%r) and %s(%r) gives %r %s, %r with the default tolerance"
                                   % (kind, op, x, t, y, g, lab, ref))
    return out


def operand_tolerance_cases():
    return [{"left": x, "right": y, "tol": tol} for x in TOL_LEFTS for y in TOL_RIGHTS for tol in TOL_VALUES]


def run_operand_tolerance(block, ctx):
    for case in block:
        ctx.evals += len(BINOPS) * 2 * 2 * 3
        ctx.transitions += len(BINOPS) * 2 * 2 * 2
        ctx.states += 1
        ctx.traces += 1
        ctx.nt_count += 1
        for msg in check_operand_tolerance(case):
            ctx.viol(case, msg, site="operand_tolerance")
        ctx.outcome((case["tol"],))
    ctx.sample(block[0])


def ctor_values():
    vals = set()
    for m in MAGS:
        for sg in (1.0, -1.0):
            for v in ulps(sg * m, 1):
                vals.add(v)
    return sorted(vals, key=lambda v: (abs(v), v))


def clauses(tier):
    full = make_events(OPERANDS)
    red = make_events(OPERANDS_RED, types=("Angle", "float"))
    specs = [(x0, 2, [full, full]) for x0 in INITIALS]
    if tier == "thorough":
        specs += [(x0, 3, [red, red, red]) for x0 in INITIALS]
    dms = list(itertools.product(DS, MS, SS))
    return [
        Clause("constructors", chunks(ctor_values(), 16), run_ctor1,
               lambda c: [m for _, m, _ in check_ctor1(c)], floor=300),
        Clause("sexagesimal", chunks(dms, 32), run_ctor3,
               lambda c: [m for _, m, _ in check_ctor3(c)], floor=3000),
        Clause("sexagesimal_fractions", chunks(fractional_pieces(), 32), run_ctor3,
               lambda c: [m for _, m, _ in check_ctor3(c)], floor=3000),
        Clause("rounding", chunks(rounding_cases(), 2000), run_rounding,
               lambda c: [m for _, m, _ in check_rounding(c)], floor=100000),
        Clause("operator_bfs", specs, run_bfs, replay_bfs, floor=5000, shape="H"),
        Clause("operand_tolerance", chunks(operand_tolerance_cases(), 8), run_operand_tolerance,
               check_operand_tolerance, floor=50, shape="H"),
        Clause("object_history", chunks(history_cases(4 if tier == "thorough" else 3), 32),
               run_history, check_history, floor=1000, shape="H"),
    ]
