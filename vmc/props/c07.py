"""C07 - VSOP87 heliocentric positions are physical, continuous, self-consistent (L)."""
import importlib
import math
import os
from fractions import Fraction

from ..engine import Clause, chunks

from pymeeus.Angle import Angle
from pymeeus.Epoch import Epoch
from pymeeus.Coordinates import vsop_pos, kepler_equation, nutation_longitude

PROPERTY = "C07"
LEVEL = "exploration"
RULE = ("8 planets x epoch lattice (quick: every 40th year -2000..4000 at 3 phases; thorough: every "
        "10 days over the whole range) x {range, inclination, radius, rate, Kepler position, direct "
        "re-summation, FK5, aberration} ; the 0/360 longitude seam of every planet located by "
        "bisection at 6 eras and probed at +-1e-7..1e-3 day; step walks over whole orbits for "
        "monotonicity; 1-second steps at the C02 boundary instants; non-trivial = epoch more than "
        "10 centuries from J2000 (where a mis-nested power of t shows) or a seam/1-second probe")
ASSUMPTIONS = ["perihelion/aphelion distances, inclination, Keplerian rates from the library's own "
               "orbital_elements_mean_equinox (kepler_equation is judged by C11)",
               "direct summation: float sums per series in table order, powers of t combined exactly "
               "in fractions; longitude allowance 1e-11 rad + 1e-14 |L unreduced| (DESIGN.md)"]
NAMES = ["Mercury", "Venus", "Earth", "Mars", "Jupiter", "Saturn", "Uranus", "Neptune"]
KEPLER_TOL = {"Mercury": 0.1, "Venus": 0.1, "Earth": 0.1, "Mars": 0.1, "Jupiter": 1.0, "Saturn": 2.0,
              "Uranus": 2.0, "Neptune": 2.5}
J2000 = 2451545.0
_MOD = {}


def mod(nm):
    if nm not in _MOD:
        M = importlib.import_module("pymeeus." + nm)
        _MOD[nm] = (M, getattr(M, nm))
    return _MOD[nm]


def bound(tier):
    return ("8 planets x %s epochs; seam probes 8 x 6 eras x 11 offsets; orbit walks %s"
            % ("219 146 (every 10 days)" if tier == "thorough" else "453",
               "daily over 2 orbits at 4 eras" if tier == "thorough" else
               "720 steps over 1 orbit at 2 eras"))


def y2jde(y):
    return J2000 + (y - 2000.0) * 365.25


def wrap180(x):
    return (x + 180.0) % 360.0 - 180.0


def direct_sum(tab, t):
    """Term-by-term float sums per series, combined with exact powers of t."""
    tot = Fraction(0)
    T = Fraction(t)
    for i, ser in enumerate(tab):
        s = 0.0
        for A, B, C in ser:
            s += A * math.cos(B + C * t)
        tot += Fraction(s) * T ** i
    return tot / 100000000


def kepler_position(l, a, ecc, i, om, arg):
    Mn = l - arg - om
    E, v = kepler_equation(ecc, Mn)
    r_k = a * (1 - ecc * math.cos(E.rad()))
    u = (v + arg).rad()
    ir, omr = i.rad(), om.rad()
    x = r_k * (math.cos(omr) * math.cos(u) - math.sin(omr) * math.sin(u) * math.cos(ir))
    y = r_k * (math.sin(omr) * math.cos(u) + math.cos(omr) * math.sin(u) * math.cos(ir))
    return math.degrees(math.atan2(y, x)) % 360.0, r_k


def kepler_latitude(l, a, ecc, i, om, arg):
    E, v = kepler_equation(ecc, l - arg - om)
    return math.degrees(math.asin(math.sin((v + arg).rad()) * math.sin(i.rad())))


def check_epoch(nm, jde):
    M, P = mod(nm)
    out = []
    try:
        e = Epoch(jde)
        j0 = e.jde()
        L, B, R = P.geometric_heliocentric_position(e, tofk5=False)
        L1, B1, R1 = P.geometric_heliocentric_position(e)            # FK5 (default)
        L2, _, _ = P.geometric_heliocentric_position(e + 1.0, tofk5=False)
        l, a, ecc, i, om, arg = P.orbital_elements_mean_equinox(e)
    except Exception as ex:
        return [("exception", "%s at JDE %r raised %r" % (nm, jde, ex), None)]
    if e.jde() != j0:
        out.append(("mutation", "%s position call shifted the caller's Epoch" % nm, None))
    if not all(isinstance(x, Angle) for x in (L, B, L1, B1)) or not isinstance(R, float):
        return [("type", "%s position types %r" % (nm, (L, B, R)), None)]
    for lab, lon in (("VSOP87 frame", L), ("FK5", L1)):
        if not (0.0 <= lon._deg < 360.0):
            out.append(("lon_range", "%s heliocentric longitude (%s) %r outside [0, 360) at JDE %r"
                        % (nm, lab, lon._deg, jde), None))
    if abs(B._deg) > i._deg + 0.05:
        out.append(("lat_bound", "%s |B| = %r exceeds inclination %r + 0.05 at JDE %r" % (nm, abs(B._deg), i._deg, jde),
                    abs(B._deg) - i._deg))
    q, Q = a * (1 - ecc), a * (1 + ecc)
    if not (q * 0.99 <= R <= Q * 1.01):
        out.append(("radius", "%s R = %r outside [q, Q](1%%) = [%r, %r] at JDE %r" % (nm, R, q, Q, jde), None))
    n = 0.9856076686 / (a * math.sqrt(a))
    rmin = n * math.sqrt(1 - ecc * ecc) / (1 + ecc) ** 2
    rmax = n * math.sqrt(1 - ecc * ecc) / (1 - ecc) ** 2
    rate = wrap180(L2._deg - L._deg)
    if not (rmin * 0.97 <= rate <= rmax * 1.03):
        out.append(("rate", "%s daily motion %r deg outside the Keplerian extremes [%r, %r] (3%%) at JDE %r"
                    % (nm, rate, rmin, rmax, jde), None))
    lonk, rk = kepler_position(l, a, ecc, i, om, arg)
    dl = abs(wrap180(L._deg - lonk))
    if dl > KEPLER_TOL[nm]:
        out.append(("kepler_lon", "%s VSOP87 longitude %r vs Kepler position from the mean elements %r: %r deg "
                    "at JDE %r" % (nm, L._deg, lonk, dl, jde), dl))
    if abs(R - rk) / rk > 0.01:
        out.append(("kepler_r", "%s R = %r vs Kepler %r at JDE %r" % (nm, R, rk, jde), abs(R - rk) / rk))
    latk = kepler_latitude(l, a, ecc, i, om, arg)
    if abs(B._deg - latk) > KEPLER_TOL[nm]:
        out.append(("kepler_lat", "%s VSOP87 latitude %r vs Kepler position from the mean elements %r at JDE %r"
                    % (nm, B._deg, latk, jde), abs(B._deg - latk)))
    # the second element set (equinox J2000) against the J2000 position, where the library has one
    if hasattr(P, "geometric_heliocentric_position_j2000") and hasattr(P, "orbital_elements_j2000"):
        try:
            Lj, Bj, Rj = P.geometric_heliocentric_position_j2000(e, tofk5=False)
            ej = P.orbital_elements_j2000(e)
            lonj, rj = kepler_position(*ej)
            latj = kepler_latitude(*ej)
            dj = max(abs(wrap180(Lj._deg - lonj)), abs(Bj._deg - latj))
            if dj > KEPLER_TOL[nm] or abs(Rj - rj) / rj > 0.01:
                out.append(("kepler_j2000", "%s J2000 position (%r, %r, %r) vs Kepler position from the J2000 elements "
                            "(%r, %r, %r) at JDE %r" % (nm, Lj._deg, Bj._deg, Rj, lonj, latj, rj, jde), dj))
        except Exception as ex:
            out.append(("exception", "%s J2000 elements / position raised %r at JDE %r" % (nm, ex, jde), None))
    # evaluator vs direct summation of the same tables
    t = (e.jde() - J2000) / 365250.0
    try:
        vl, vb, vr = vsop_pos(e, M.VSOP87_L, M.VSOP87_B, M.VSOP87_R)
        dL = direct_sum(M.VSOP87_L, t)
        dB = direct_sum(M.VSOP87_B, t)
        dR = direct_sum(M.VSOP87_R, t)
        two_pi = Fraction(math.pi) * 2
        dd = (Fraction(vl.rad()) - dL) % two_pi
        dd = float(min(dd, two_pi - dd))
        tolL = 1e-11 + 1e-14 * abs(float(dL))
        if dd > tolL:
            out.append(("evaluator_L", "%s vsop_pos longitude differs from direct summation by %.3g rad at JDE %r"
                        % (nm, dd, jde), dd))
        db = abs(float(Fraction(vb.rad()) - dB))
        dr = abs(float(Fraction(vr) - dR))
        if db > 1e-11:
            out.append(("evaluator_B", "%s vsop_pos latitude differs from direct summation by %.3g rad at JDE %r"
                        % (nm, db, jde), db))
        if dr > 1e-11:
            out.append(("evaluator_R", "%s vsop_pos radius differs from direct summation by %.3g AU at JDE %r"
                        % (nm, dr, jde), dr))
        if vl._deg != L._deg or vb._deg != B._deg or vr != R:
            out.append(("wrapper", "%s.geometric_heliocentric_position(tofk5=False) differs from vsop_pos on "
                        "its own tables" % nm, None))
    except Exception as ex:
        out.append(("exception", "vsop_pos / direct summation raised %r" % ex, None))
    # FK5 correction has its documented size
    T = (e.jde() - J2000) / 36525.0
    lp = math.radians(L._deg - T * (1.397 + 0.00031 * T))
    exp_l = -0.09033 + 0.03916 * (math.cos(lp) + math.sin(lp)) * math.tan(B.rad())
    exp_b = 0.03916 * (math.cos(lp) - math.sin(lp))
    got_l = wrap180(L1._deg - L._deg) * 3600.0
    got_b = (B1._deg - B._deg) * 3600.0
    if abs(got_l - exp_l) > 1e-6 or abs(got_b - exp_b) > 1e-6 or R1 != R:
        out.append(("fk5", "%s FK5 correction (%r, %r) arcsec, documented (%r, %r) at JDE %r"
                    % (nm, got_l, got_b, exp_l, exp_b, jde), max(abs(got_l - exp_l), abs(got_b - exp_b))))
    # aberration (+ nutation)
    try:
        if nm == "Earth":
            variants = [(P.apparent_heliocentric_position(e, nutation=False), 0.0, "nutation=False"),
                        (P.apparent_heliocentric_position(e), nutation_longitude(e)._deg * 3600.0, "default")]
        else:
            variants = [(P.apparent_heliocentric_position(e), nutation_longitude(e)._deg * 3600.0, "default")]
        for (la, ba, ra), nut, lab in variants:
            ab = wrap180(la._deg - L1._deg) * 3600.0
            if abs(ab - (-20.4898 / R1) - nut) > 1e-6 or ba._deg != B1._deg or ra != R1:
                out.append(("aberration", "%s apparent - geometric = %r arcsec, expected %r (%s) at JDE %r"
                            % (nm, ab, -20.4898 / R1 + nut, lab, jde), abs(ab - (-20.4898 / R1) - nut)))
            if not (0.0 <= la._deg < 360.0):
                out.append(("lon_range", "%s apparent heliocentric longitude %r outside [0, 360) at JDE %r"
                            % (nm, la._deg, jde), None))
    except Exception as ex:
        out.append(("exception", "%s apparent position raised %r at JDE %r" % (nm, ex, jde), None))
    return out


def run_epochs(block, ctx):
    nm, jdes = block
    for j in jdes:
        ctx.evals += 1
        res = check_epoch(nm, j)
        for site, msg, dev in res:
            ctx.viol({"planet": nm, "jde": j}, msg, dev=dev, site=site)
            ctx.maxi(nm + "_" + site, dev)
        if abs(j - J2000) > 365250.0:
            ctx.nt_count += 1
        ctx.obs(nm, j, len(res))
    ctx.outcome((nm, len(jdes)))
    ctx.sample({"planet": nm, "jde": jdes[len(jdes) // 2]})


def replay_epoch(case):
    return [m for _, m, _ in check_epoch(case["planet"], case["jde"])]


# -- the 0/360 seam -----------------------------------------------------------------

SEAM_OFFSETS = [0.0, 1e-7, -1e-7, 1e-6, -1e-6, 1e-5, -1e-5, 1e-4, -1e-4, 1e-3, -1e-3]


def find_seam(nm, j_start):
    """Epoch (JDE) after j_start at which the planet's longitude passes 360 -> 0."""
    M, P = mod(nm)
    a = M.ORBITAL_ELEM[1][0]
    period = 365.25 * a ** 1.5
    step = period / 40.0
    j = j_start
    prev = P.geometric_heliocentric_position(Epoch(j), tofk5=False)[0]._deg
    for _ in range(60):
        j2 = j + step
        cur = P.geometric_heliocentric_position(Epoch(j2), tofk5=False)[0]._deg
        if cur < prev - 180.0:
            lo, hi = j, j2
            for _ in range(80):
                mid = (lo + hi) / 2.0
                if mid == lo or mid == hi:
                    break
                v = P.geometric_heliocentric_position(Epoch(mid), tofk5=False)[0]._deg
                if v > 180.0:
                    lo = mid
                else:
                    hi = mid
            return hi
        j, prev = j2, cur
    return None


def check_seam(case):
    nm, j = case["planet"], case["jde"]
    M, P = mod(nm)
    out = []
    try:
        e = Epoch(j)
        calls = [("geometric tofk5=False", P.geometric_heliocentric_position(e, tofk5=False)),
                 ("geometric FK5", P.geometric_heliocentric_position(e)),
                 ("apparent", P.apparent_heliocentric_position(e))]
        if nm == "Earth":
            calls.append(("apparent nutation=False", P.apparent_heliocentric_position(e, nutation=False)))
    except Exception as ex:
        return [("exception", "%s at seam JDE %r raised %r" % (nm, j, ex), None)]
    for lab, (L, B, R) in calls:
        if not (0.0 <= L._deg < 360.0):
            out.append(("lon_range", "%s %s longitude %r outside [0, 360) at JDE %r (0/360 seam)"
                        % (nm, lab, L._deg, j), None))
    return out


def run_seam(block, ctx):
    nm, years = block
    for y in years:
        js = find_seam(nm, y2jde(y))
        if js is None:
            ctx.viol({"planet": nm, "year": y}, "no 0/360 crossing found within 1.5 orbits", site="seam_search")
            continue
        # both sides of the FK5 shift (0.09 arcsec of longitude) and of the aberration (20 arcsec)
        M, P = mod(nm)
        a = M.ORBITAL_ELEM[1][0]
        rate = 0.9856076686 / (a * math.sqrt(a))          # deg/day
        extra = [0.09033 / 3600.0 / rate * f for f in (0.5, 1.0, 1.5)] + \
                [20.5 / 3600.0 / rate / a * f for f in (0.5, 1.0, 1.5)]
        for off in SEAM_OFFSETS + extra:
            j = js + off
            ctx.evals += 1
            ctx.nt_count += 1
            for site, msg, dev in check_seam({"planet": nm, "jde": j}):
                ctx.viol({"planet": nm, "jde": j}, msg, dev=dev, site=site)
        ctx.obs(nm, y, js)
    ctx.outcome(nm)
    ctx.sample({"planet": nm, "seam_search_from_year": years[0]})


# -- zero crossings of the quantities the FK5 correction is built from ------------------------------------------

def fk5_quantities(nm, j):
    M, P = mod(nm)
    L, B, R = P.geometric_heliocentric_position(Epoch(j), tofk5=False)
    T = (j - J2000) / 36525.0
    lp = math.radians(L._deg - T * (1.397 + 0.00031 * T))
    return (B._deg, math.cos(lp) - math.sin(lp), math.cos(lp) + math.sin(lp), math.sin(lp), math.cos(lp))


def check_fk5(case):
    """FK5 correction at one instant: tofk5=True minus tofk5=False against the documented expression."""
    nm, j = case["planet"], case["jde"]
    M, P = mod(nm)
    try:
        e = Epoch(j)
        L, B, R = P.geometric_heliocentric_position(e, tofk5=False)
        L1, B1, R1 = P.geometric_heliocentric_position(e)
    except Exception as ex:
        return [("exception", "%s at JDE %r raised %r" % (nm, j, ex), None)]
    T = (e.jde() - J2000) / 36525.0
    lp = math.radians(L._deg - T * (1.397 + 0.00031 * T))
    exp_l = -0.09033 + 0.03916 * (math.cos(lp) + math.sin(lp)) * math.tan(B.rad())
    exp_b = 0.03916 * (math.cos(lp) - math.sin(lp))
    got_l = wrap180(L1._deg - L._deg) * 3600.0
    got_b = (B1._deg - B._deg) * 3600.0
    if abs(got_l - exp_l) > 1e-6 or abs(got_b - exp_b) > 1e-6 or R1 != R:
        return [("fk5", "%s FK5 correction (%r, %r) arcsec, documented (%r, %r) at JDE %r [%s]"
                 % (nm, got_l, got_b, exp_l, exp_b, j, case.get("what", "")), max(abs(got_l - exp_l), abs(got_b - exp_b)))]
    return []


def run_fk5_zeros(spec, ctx):
    """spec = (planet, start year, span in days, step in days): the latitude B, cos l' - sin l' (the latitude
    correction) and cos l' + sin l' (the coefficient of tan B) of the tofk5=False position are scanned; every
    sign change is narrowed to two adjacent doubles by bisection and the FK5 correction is checked there and on
    the 2 doubles on each side - where a 'nothing to correct' shortcut would be taken."""
    nm, year, span, step = spec
    j = y2jde(year)
    end = j + span
    prev = fk5_quantities(nm, j)
    found = 0
    while j < end:
        j2 = j + step
        cur = fk5_quantities(nm, j2)
        ctx.evals += 1
        for k, what in enumerate(("latitude = 0", "cos - sin = 0", "cos + sin = 0", "sin l' = 0", "cos l' = 0")):
            if (prev[k] > 0.0) != (cur[k] > 0.0) and abs(prev[k] - cur[k]) < 1.0:
                lo, hi, slo = j, j2, prev[k] > 0.0
                while True:
                    mid = lo + (hi - lo) / 2.0
                    if mid <= lo or mid >= hi:
                        break
                    ctx.evals += 1
                    if (fk5_quantities(nm, mid)[k] > 0.0) == slo:
                        lo = mid
                    else:
                        hi = mid
                pts = [lo, hi]
                a, b = lo, hi
                for _ in range(2):
                    a, b = math.nextafter(a, -math.inf), math.nextafter(b, math.inf)
                    pts += [a, b]
                found += 1
                for t in pts:
                    ctx.evals += 1
                    ctx.nt_count += 1
                    case = {"planet": nm, "jde": t, "what": what}
                    for site, msg, dev in check_fk5(case):
                        ctx.viol(case, msg, dev=dev, site="fk5_zero")
        j, prev = j2, cur
    ctx.count("fk5_zero_crossings", found)
    ctx.outcome((nm, found > 0))
    ctx.obs(nm, year, found)
    ctx.sample({"planet": nm, "year": year, "crossings": found})


def fk5_specs(tier):
    out = []
    years = (-1990, -500, 1000, 2000, 3900) if tier == "thorough" else (-1990, 2000, 3900)
    for nm in NAMES:
        M, P = mod(nm)
        a = M.ORBITAL_ELEM[1][0]
        period = 365.25 * a ** 1.5
        for y in years:
            if nm == "Earth":
                # the Earth's latitude (|B| < 1.2 arcsec) changes sign every few days
                for q in range(4):
                    out.append((nm, y + 0.25 * q, 91.4, 0.5))
            else:
                span = min(period * 1.02, (y2jde(4000) - 3.0) - y2jde(y))
                out.append((nm, y, span, period / 80.0))
    return out


# -- instants at which the nutation in longitude passes through zero ---------------------------------------------------

def run_nutation_zeros(spec, ctx):
    """spec = (start year, span in years): zeros of the nutation in longitude (a few per 18.6 years, in clusters) are
    narrowed to adjacent doubles; the apparent positions of four planets are checked there - a correction loop that
    stops at the first vanishing correction would drop the aberration with it."""
    y0, span = spec
    f = lambda t: nutation_longitude(Epoch(t))._deg
    t = y2jde(y0)
    end = t + span * 365.25
    prev = f(t)
    found = 0
    while t < end:
        t2 = t + 3.0
        cur = f(t2)
        ctx.evals += 1
        if (prev > 0.0) != (cur > 0.0):
            lo, hi, slo = t, t2, prev > 0.0
            while True:
                mid = lo + (hi - lo) / 2.0
                if mid <= lo or mid >= hi:
                    break
                if (f(mid) > 0.0) == slo:
                    lo = mid
                else:
                    hi = mid
            found += 1
            for x in (lo, hi, math.nextafter(lo, -math.inf), math.nextafter(hi, math.inf), lo - 0.2 / 86400.0, hi + 0.2 / 86400.0):
                for nm in ("Earth", "Venus", "Mars", "Neptune"):
                    ctx.evals += 1
                    ctx.nt_count += 1
                    for site, msg, dev in check_epoch(nm, x):
                        ctx.viol({"planet": nm, "jde": x}, msg, dev=dev, site="nutation_zero_" + site)
        t, prev = t2, cur
    ctx.count("nutation_zero_crossings", found)
    ctx.outcome((y0, found))
    ctx.obs(spec, found)
    ctx.sample({"planet": "Earth", "jde": y2jde(y0)})


# -- monotone longitude over whole orbits ----------------------------------------------

def run_walk(block, ctx):
    nm, year, n_orbits, daily = block
    M, P = mod(nm)
    e0 = Epoch(y2jde(year))
    l, a, ecc, i, om, arg = P.orbital_elements_mean_equinox(e0)
    period = 365.25 * a ** 1.5
    step = 1.0 if daily else max(1.0, period / 720.0)
    nsteps = int(n_orbits * period / step)
    n = 0.9856076686 / (a * math.sqrt(a))
    rmin = n * math.sqrt(1 - ecc * ecc) / (1 + ecc) ** 2 * 0.97
    rmax = n * math.sqrt(1 - ecc * ecc) / (1 - ecc) ** 2 * 1.03
    j = e0.jde()
    prev = P.geometric_heliocentric_position(Epoch(j), tofk5=False)[0]._deg
    total = 0.0
    for k in range(nsteps):
        j2 = j + step
        cur = P.geometric_heliocentric_position(Epoch(j2), tofk5=False)[0]._deg
        d = wrap180(cur - prev)
        ctx.evals += 1
        if not (rmin * step <= d <= rmax * step):
            ctx.viol({"planet": nm, "jde": j, "step": step},
                     "%s longitude changes by %r deg over %r day(s) from JDE %r (Keplerian band [%r, %r] per day)"
                     % (nm, d, step, j, rmin, rmax), site="walk_rate")
        total += d
        j, prev = j2, cur
    if abs(total - 360.0 * n_orbits) > 360.0 * n_orbits * 0.02 + 2.0:
        ctx.viol({"planet": nm, "year": year}, "%s advanced %r deg in %r orbital periods" % (nm, total, n_orbits),
                 site="walk_total")
    ctx.nt_count += nsteps
    ctx.outcome((nm, year))
    ctx.obs(nm, year, total)
    ctx.sample({"planet": nm, "from_year": year, "steps": nsteps, "step_days": step})


def replay_walk(case):
    nm = case["planet"]
    M, P = mod(nm)
    if "jde" not in case:
        return []
    j, step = case["jde"], case["step"]
    e0 = Epoch(j)
    l, a, ecc, i, om, arg = P.orbital_elements_mean_equinox(e0)
    n = 0.9856076686 / (a * math.sqrt(a))
    rmin = n * math.sqrt(1 - ecc * ecc) / (1 + ecc) ** 2 * 0.96
    rmax = n * math.sqrt(1 - ecc * ecc) / (1 - ecc) ** 2 * 1.04
    d = wrap180(P.geometric_heliocentric_position(Epoch(j + step), tofk5=False)[0]._deg -
                P.geometric_heliocentric_position(Epoch(j), tofk5=False)[0]._deg)
    if not (rmin * step <= d <= rmax * step):
        return ["%s longitude changes by %r deg over %r day(s) from JDE %r" % (nm, d, step, j)]
    return []


# -- continuity at 1-second steps ----------------------------------------------------------

def check_second(case):
    """A one-second step must move (L, B, R) by the local rate, estimated from the
    +-60 s central difference: a discontinuity at the boundary instant shows up as
    a one-second step that differs from it."""
    nm, j = case["planet"], case["jde"]
    M, P = mod(nm)
    s = 1.0 / 86400.0
    try:
        p0 = P.geometric_heliocentric_position(Epoch(j), tofk5=False)
        p1 = P.geometric_heliocentric_position(Epoch(j + s), tofk5=False)
        pm = P.geometric_heliocentric_position(Epoch(j - 60 * s), tofk5=False)
        pp = P.geometric_heliocentric_position(Epoch(j + 60 * s), tofk5=False)
        pb = P.geometric_heliocentric_position(Epoch(j - s), tofk5=False)
    except Exception as ex:
        return [("exception", "%s at JDE %r raised %r" % (nm, j, ex), None)]
    out = []
    # the aberration / nutation identity at two instants one minute apart, evaluated one right
    # after the other (a correction remembered from the previous call would be stale)
    try:
        for jj in (j, j + 60 * s, j - 30 * s):
            e = Epoch(jj)
            g = P.geometric_heliocentric_position(e)
            a = P.apparent_heliocentric_position(e)
            nut = nutation_longitude(e)._deg * 3600.0
            ab = wrap180(a[0]._deg - g[0]._deg) * 3600.0
            if abs(ab - (-20.4898 / g[2]) - nut) > 1e-6:
                out.append(("aberration_sequence", "%s apparent - geometric = %r arcsec at JDE %r, expected %r (calls "
                            "one minute apart)" % (nm, ab, jj, -20.4898 / g[2] + nut), abs(ab - (-20.4898 / g[2]) - nut)))
    except Exception as ex:
        out.append(("exception", "%s apparent position raised %r" % (nm, ex), None))
    for idx, name in ((0, "longitude"), (1, "latitude"), (2, "radius")):
        def val(p):
            return p[idx]._deg if idx < 2 else p[idx]
        rate = (wrap180(val(pp) - val(pm)) if idx == 0 else val(pp) - val(pm)) / 120.0
        for lab, a, b in (("forward", p0, p1), ("backward", pb, p0)):
            d = wrap180(val(b) - val(a)) if idx == 0 else val(b) - val(a)
            if abs(d - rate) > 1e-7:
                out.append(("continuity", "%s %s changes by %r in the second %s of JDE %r, local rate %r per second"
                            % (nm, name, d, lab, j, rate), abs(d - rate)))
    return out


def run_seconds(block, ctx):
    for case in block:
        ctx.evals += 1
        ctx.nt_count += 1
        for site, msg, dev in check_second(case):
            ctx.viol(case, msg, dev=dev, site=site)
    ctx.outcome(len(block))
    ctx.sample(block[0])


# -- table-level clauses -------------------------------------------------------------------

def check_tables(case):
    nm = case["planet"]
    M, P = mod(nm)
    out = []
    L1 = [t for t in M.VSOP87_L[1] if t[1] == 0.0 and t[2] == 0.0]
    if len(L1) != 1:
        return [("tables", "%s: L1 has %d constant terms" % (nm, len(L1)), None)]
    rate_series = math.degrees(L1[0][0] / 1e8) / 10.0        # degrees per century
    rate_elem = M.ORBITAL_ELEM[0][1]
    rel = abs(rate_series - rate_elem) / rate_elem
    if rel > 1e-6:
        out.append(("mean_longitude_rate", "%s: series rate %r deg/cy vs orbital-element rate %r (rel %.3g)"
                    % (nm, rate_series, rate_elem, rel), rel))
    a = M.ORBITAL_ELEM[1][0]
    n_sid = (rate_elem - 1.3969713) / 36525.0               # sidereal mean motion, deg/day
    k = 0.9856076686 / (a * math.sqrt(a))
    rel = abs(n_sid / k - 1.0)
    lim = 1e-3 if nm in ("Mercury", "Venus", "Earth", "Mars", "Jupiter") else 1e-2
    if rel > lim:
        out.append(("kepler3", "%s: n = %r deg/day, k a^-1.5 = %r (rel %.3g)" % (nm, n_sid, k, rel), rel))
    # through the API as well
    try:
        e0, e1 = Epoch(J2000), Epoch(J2000 + 36525.0)
        l0 = P.orbital_elements_mean_equinox(e0)
        l1 = P.orbital_elements_mean_equinox(e1)
        turns = round((rate_elem - wrap180(l1[0]._deg - l0[0]._deg)) / 360.0)
        api_rate = wrap180(l1[0]._deg - l0[0]._deg) + 360.0 * turns
        if abs(api_rate - rate_series) / rate_series > 2e-6:
            out.append(("mean_longitude_rate", "%s: mean longitude advances %r deg/cy through the API, series %r"
                        % (nm, api_rate, rate_series), abs(api_rate - rate_series) / rate_series))
    except Exception as ex:
        out.append(("exception", "%s orbital elements raised %r" % (nm, ex), None))
    return out


def run_tables(block, ctx):
    for case in block:
        ctx.evals += 1
        ctx.nt_count += 1
        for site, msg, dev in check_tables(case):
            ctx.viol(case, msg, dev=dev, site=site)
            ctx.maxi(site, dev)
        ctx.outcome(case["planet"])
    ctx.sample(block[0])


# -- every table term at its own zero crossing ----------------------------------------------------------

def crossing_probes(B, C, t_near):
    """Float JDEs around the zero of cos(B + C t) nearest to t_near (millennia from J2000): the float
    closest to the zero among +-8 ulps, and its neighbours at +-1 and +-3 ulps."""
    k = round((B + C * t_near - math.pi / 2.0) / math.pi)
    tz = (math.pi / 2.0 + k * math.pi - B) / C
    j = J2000 + 365250.0 * tz
    cand = [j]
    up = dn = j
    for _ in range(8):
        up = math.nextafter(up, math.inf)
        dn = math.nextafter(dn, -math.inf)
        cand += [up, dn]
    best = min(cand, key=lambda x: abs(math.cos(B + C * ((x - J2000) / 365250.0))))
    out = [best]
    for n in (1, 3):
        u = d = best
        for _ in range(n):
            u = math.nextafter(u, math.inf)
            d = math.nextafter(d, -math.inf)
        out += [u, d]
    return out


def check_term(case):
    """At the instant where ONE term of a series passes through zero (so that its value, the partial sum
    or a one-term series is ~0) the evaluator must still equal the plain sum of all terms."""
    nm, coord, order, idx, era = case["planet"], case["coord"], case["order"], case["term"], case["era"]
    M, P = mod(nm)
    tab = {"L": M.VSOP87_L, "B": M.VSOP87_B, "R": M.VSOP87_R}[coord]
    A, B, C = tab[order][idx]
    out = []
    for j in crossing_probes(B, C, (era - 2000.0) / 1000.0):
        if not (y2jde(-2000) < j < y2jde(4000)):
            continue
        e = Epoch(j)
        t = (e.jde() - J2000) / 365250.0
        try:
            v = vsop_pos(e, M.VSOP87_L, M.VSOP87_B, M.VSOP87_R)
        except Exception as ex:
            out.append(("exception", "vsop_pos raised %r at JDE %r" % (ex, j), None))
            continue
        d = direct_sum(tab, t)
        if coord == "L":
            two_pi = Fraction(math.pi) * 2
            dd = (Fraction(v[0].rad()) - d) % two_pi
            dev = float(min(dd, two_pi - dd))
            tol = 1e-11 + 1e-14 * abs(float(d))
        elif coord == "B":
            dev, tol = abs(float(Fraction(v[1].rad()) - d)), 1e-11
        else:
            dev, tol = abs(float(Fraction(v[2]) - d)), 1e-11
        if dev > tol:
            out.append(("evaluator_" + coord, "%s %s%d term %d (A=%r) passes through zero at JDE %r: vsop_pos differs from "
                        "direct summation by %.3g" % (nm, coord, order, idx, A, j, dev), dev))
    return out


# -- instants at which two consecutive rows of a series have the same argument; zeros of whole order sums ----------

def float_sum(tab, t):
    tot = 0.0
    for i, ser in enumerate(tab):
        tot += math.fsum(A * math.cos(B + C * t) for A, B, C in ser) * t ** i
    return tot / 1e8


def check_evaluator_at(nm, j, what):
    """vsop_pos against a plain float summation of the same tables, all three coordinates, at one instant."""
    M, P = mod(nm)
    e = Epoch(j)
    t = (e.jde() - J2000) / 365250.0
    try:
        v = vsop_pos(e, M.VSOP87_L, M.VSOP87_B, M.VSOP87_R)
    except Exception as ex:
        return [("exception", "vsop_pos raised %r at JDE %r (%s)" % (ex, j, what), None)]
    out = []
    dl = float_sum(M.VSOP87_L, t)
    dd = (v[0].rad() - dl) % (2.0 * math.pi)
    dd = min(dd, 2.0 * math.pi - dd)
    if dd > 1e-11 + 1e-13 * abs(dl):
        out.append(("evaluator_L", "%s: vsop_pos longitude differs from the plain sum by %.3g rad at JDE %r (%s)"
                    % (nm, dd, j, what), dd))
    db = abs(v[1].rad() - float_sum(M.VSOP87_B, t))
    if db > 1e-11:
        out.append(("evaluator_B", "%s: vsop_pos latitude differs from the plain sum by %.3g rad at JDE %r (%s)"
                    % (nm, db, j, what), db))
    dr = abs(v[2] - float_sum(M.VSOP87_R, t))
    if dr > 1e-11:
        out.append(("evaluator_R", "%s: vsop_pos radius differs from the plain sum by %.3g AU at JDE %r (%s)"
                    % (nm, dr, j, what), dr))
    return out


def coincidence_cases(tier):
    """(planet, coordinate, order, row): rows `row` and `row + 1` of the series have equal arguments B + C t at
    t* = (B1 - B2) / (C2 - C1); kept when t* lies in the range of validity.  Quick: the first 12 rows of every
    series (the large amplitudes); thorough: every consecutive pair."""
    cases = []
    for nm in NAMES:
        M, P = mod(nm)
        for coord, tab in (("L", M.VSOP87_L), ("B", M.VSOP87_B), ("R", M.VSOP87_R)):
            for order, ser in enumerate(tab):
                for idx in range(len(ser) - 1):
                    if tier != "thorough" and idx >= 12:
                        break
                    (A1, B1, C1), (A2, B2, C2) = ser[idx], ser[idx + 1]
                    if C1 == C2:
                        continue
                    ts = (B1 - B2) / (C2 - C1)
                    if -3.99 < ts < 1.99:
                        cases.append({"planet": nm, "coord": coord, "order": order, "row": idx, "t": ts})
    return cases


def check_coincidence(case):
    j = J2000 + 365250.0 * case["t"]
    pts = [j, math.nextafter(j, math.inf), math.nextafter(j, -math.inf)]
    out = []
    for x in pts:
        out += check_evaluator_at(case["planet"], x, "rows %d and %d of %s%d have the same argument"
                                  % (case["row"], case["row"] + 1, case["coord"], case["order"]))
    return out


def run_coincidences(block, ctx):
    for case in block:
        ctx.evals += 3
        ctx.nt_count += 1
        for site, msg, dev in check_coincidence(case):
            ctx.viol(case, msg, dev=dev, site="coincidence_" + site)
        ctx.outcome((case["planet"], case["coord"], case["order"]))
    ctx.obs(block[0], block[-1])
    ctx.sample(block[0])


def order_zero_specs(tier):
    """(planet, coordinate, order, start year, span in years, step in days)."""
    out = []
    for nm in NAMES:
        M, P = mod(nm)
        slow = nm in ("Jupiter", "Saturn", "Uranus", "Neptune")
        if tier != "thorough" and not slow:
            continue
        for coord, tab in (("L", M.VSOP87_L), ("B", M.VSOP87_B), ("R", M.VSOP87_R)):
            for order in range(1, len(tab)):
                if not tab[order]:
                    continue
                for y in ((-1990, -1000, 0, 1000, 2000, 3000) if tier == "thorough" else (-1990, 1000, 3000)):
                    out.append((nm, coord, order, y, 990 if tier == "thorough" else 500, 20.0 if slow else 3.0))
                    if order < len(tab) - 1:
                        out.append((nm, coord, order, y, 990 if tier == "thorough" else 500, 20.0 if slow else 3.0, "horner"))
    return out


def run_order_zeros(spec, ctx):
    """The sum of ONE order of a series (L1, R2, ...) is scanned; every sign change is narrowed to adjacent doubles
    and the evaluator compared with the plain sum there: an accumulation that stops 'when the next order no longer
    changes the result' stops for good where that order happens to pass through zero."""
    nm, coord, order, y0, span, step = spec[:6]
    M, P = mod(nm)
    tab = {"L": M.VSOP87_L, "B": M.VSOP87_B, "R": M.VSOP87_R}[coord]
    ser = tab[order]
    if len(spec) > 6:
        # the Horner partial sum S_order + t (S_order+1 + t (...)) instead of the single order sum
        def f(j):
            t = (j - J2000) / 365250.0
            acc = 0.0
            for i in range(len(tab) - 1, order - 1, -1):
                acc = acc * t + math.fsum(A * math.cos(B + C * t) for A, B, C in tab[i])
            return acc
    else:
        f = lambda j: math.fsum(A * math.cos(B + C * ((j - J2000) / 365250.0)) for A, B, C in ser)
    j = y2jde(y0)
    end = min(j + span * 365.25, y2jde(4000) - 3.0)
    prev = f(j)
    found = 0
    while j < end:
        j2 = j + step
        cur = f(j2)
        ctx.evals += 1
        if (prev > 0.0) != (cur > 0.0):
            lo, hi, slo = j, j2, prev > 0.0
            while True:
                mid = lo + (hi - lo) / 2.0
                if mid <= lo or mid >= hi:
                    break
                if (f(mid) > 0.0) == slo:
                    lo = mid
                else:
                    hi = mid
            found += 1
            for x in (lo, hi, math.nextafter(lo, -math.inf), math.nextafter(hi, math.inf)):
                ctx.evals += 1
                ctx.nt_count += 1
                case = {"planet": nm, "jde": x, "what": "%s%d%s passes through zero" % (coord, order, " (Horner partial sum)" if len(spec) > 6 else "")}
                for site, msg, dev in check_evaluator_at(nm, x, case["what"]):
                    ctx.viol(case, msg, dev=dev, site="order_zero_" + site)
        j, prev = j2, cur
    ctx.count("order_sum_zero_crossings", found)
    ctx.outcome((nm, coord, order))
    ctx.obs(spec, found)
    ctx.sample({"planet": nm, "jde": y2jde(y0), "what": "sample"})


# -- instants at which TWO consecutive rows of a series are both (almost) zero ------------------------------------------

def vt_numpy_available():
    import shutil as _sh
    return _sh.which("python3-vt") is not None


def run_double_zeros(spec, ctx):
    """spec = (planet, coordinate).  The zeros of every row over the whole range (1.2e9 in all) are enumerated with
    numpy in the tooling interpreter (vmc/aux/double_zero_search.py): the shortlist keeps those at which the NEXT row
    is below 1.5e-7 (table units) too.  Every candidate is then refined here and the evaluator compared with the plain
    sum on the doubles around it - a loop that stops 'once two consecutive terms are negligible' stops there."""
    import json as _json
    import subprocess as _sp
    import tempfile as _tf
    nm, coord = spec
    M, P = mod(nm)
    tab = {"L": M.VSOP87_L, "B": M.VSOP87_B, "R": M.VSOP87_R}[coord]
    fd, path = _tf.mkstemp(prefix="vmc_dz_", suffix=".json")
    try:
        with os.fdopen(fd, "w") as f:
            _json.dump({"series": [[i, [list(r) for r in ser]] for i, ser in enumerate(tab)],
                        "t0": -3.999, "t1": 1.999, "eps": 1.5e-7}, f)
        r = _sp.run(["python3-vt", os.path.join(os.path.dirname(os.path.dirname(os.path.abspath(__file__))), "aux",
                                                "double_zero_search.py"), path], capture_output=True, text=True, timeout=3000)
    finally:
        os.unlink(path)
    if r.returncode != 0:
        raise RuntimeError("double_zero_search failed: " + r.stderr[-500:])
    cands = _json.loads(r.stdout)
    zeros = sum(int(6.0 * abs(row[2]) / math.pi) for ser in tab for row in ser[:-1])
    ctx.evals += zeros
    ctx.count("row_zeros_enumerated", zeros)
    ctx.count("double_zero_candidates", len(cands))
    for order, k, t in cands:
        (A, B, C), (A2, B2, C2) = tab[order][k], tab[order][k + 1]
        j = J2000 + 365250.0 * t
        # the doubles around the candidate at which both term values are smallest
        best = min((j + d * 4.66e-10 for d in range(-400, 401, 8)),
                   key=lambda x: max(abs(A * math.cos(B + C * ((x - J2000) / 365250.0))),
                                     abs(A2 * math.cos(B2 + C2 * ((x - J2000) / 365250.0)))))
        for x in (best, math.nextafter(best, math.inf), math.nextafter(best, -math.inf)):
            ctx.evals += 1
            ctx.nt_count += 1
            what = "rows %d and %d of %s%d are both near zero" % (k, k + 1, coord, order)
            for site, msg, dev in check_evaluator_at(nm, x, what):
                ctx.viol({"planet": nm, "jde": x, "what": what}, msg, dev=dev, site="double_zero_" + site)
    ctx.outcome((nm, coord, len(cands) > 0))
    ctx.obs(spec, len(cands))
    ctx.sample({"planet": nm, "jde": J2000, "what": "sample"})


def term_cases(tier):
    cases = []
    for nm in NAMES:
        M, P = mod(nm)
        for coord, tab in (("L", M.VSOP87_L), ("B", M.VSOP87_B), ("R", M.VSOP87_R)):
            for order, ser in enumerate(tab):
                if tier != "thorough" and len(ser) > 60:
                    continue            # quick: the short (high-order) series, where one term is most of the sum
                for idx, (A, B, C) in enumerate(ser):
                    if C == 0.0 or A == 0.0:
                        continue
                    for era in ((-1900.0, 2000.0, 3900.0) if tier == "thorough" else (2000.0, -1900.0)):
                        cases.append({"planet": nm, "coord": coord, "order": order, "term": idx, "era": era})
    return cases


def run_terms(block, ctx):
    for case in block:
        ctx.evals += 5
        ctx.nt_count += 1
        for site, msg, dev in check_term(case):
            ctx.viol(case, msg, dev=dev, site=site)
            ctx.maxi(site, dev)
        ctx.outcome((case["planet"], case["coord"], case["order"]))
    ctx.obs(block[0], block[-1])
    ctx.sample(block[0])


def epoch_lattice(tier):
    if tier == "thorough":
        j0, j1 = y2jde(-2000) + 1.0, y2jde(4000) - 2.0
        n = int((j1 - j0) / 10.0)
        return [j0 + 10.0 * i for i in range(n + 1)]
    out = []
    for y in range(-2000, 4001, 40):
        for ph in (17.3, 139.9, 261.4):
            j = y2jde(y) + ph
            if j < y2jde(4000) - 2.0:
                out.append(j)
    return out


def clauses(tier):
    lat = epoch_lattice(tier)
    eshards = []
    for nm in NAMES:
        for blk in chunks(lat, 64 if tier == "thorough" else 4):
            eshards.append((nm, blk))
    seam_years = [-1990, -1000, 0, 1000, 2000, 3900]
    walks = []
    for nm in NAMES:
        if tier == "thorough":
            for y in (-1990, 0, 2000, 3640):
                walks.append((nm, y, 2, True))
        else:
            for y in (-1990, 2000):
                walks.append((nm, y, 1, False))
    from .c02 import boundary_instants
    secs = [{"planet": nm, "jde": j} for nm in NAMES for j in boundary_instants("quick")
            if y2jde(-2000) + 1 <= j <= y2jde(4000) - 2]
    return [
        Clause("epochs", eshards, run_epochs, replay_epoch, floor=500),
        Clause("seam", [(nm, seam_years) for nm in NAMES], run_seam,
               lambda c: [m for _, m, _ in check_seam(c)] if "jde" in c else [], floor=100),
        Clause("orbit_walk", walks, run_walk, replay_walk, floor=1000),
        Clause("one_second", chunks(secs, 16), run_seconds,
               lambda c: [m for _, m, _ in check_second(c)], floor=100),
        Clause("term_zero_crossings", chunks(term_cases(tier), 64), run_terms,
               lambda c: [m for _, m, _ in check_term(c)], floor=300),
        Clause("row_coincidences", chunks(coincidence_cases(tier), 64), run_coincidences,
               lambda c: [m for _, m, _ in check_coincidence(c)], floor=300),
        Clause("order_sum_zeros", order_zero_specs(tier), run_order_zeros,
               lambda c: [m for _, m, _ in check_evaluator_at(c["planet"], c["jde"], c.get("what", ""))], floor=300),
        Clause("nutation_zeros", [(y, 5.0) for y in ((1980, 1985, 1990, 1995, 2000, 2005, 2010, 2015, -1000, -995, 3000, 3005)
                                                   if tier != "thorough" else range(1900, 2100, 5))],
               run_nutation_zeros, replay_epoch, floor=20),
        Clause("fk5_zero_crossings", fk5_specs(tier), run_fk5_zeros, lambda c: [m for _, m, _ in check_fk5(c)],
               floor=500),
    ] + ([Clause("double_zero_rows", [(nm, c) for nm in NAMES for c in ("L", "B", "R")], run_double_zeros,
                 lambda c: [m for _, m, _ in check_evaluator_at(c["planet"], c["jde"], c.get("what", ""))], floor=20)]
         if (tier == "thorough" and vt_numpy_available()) else []) + [
        Clause("tables", [[{"planet": nm} for nm in NAMES]], run_tables,
               lambda c: [m for _, m, _ in check_tables(c)], floor=8),
    ]
