"""C02 - instants survive JDE <-> date/time; input forms agree; Epoch arithmetic
(L: JDE lattice and form product; H: BFS over operator histories on real Epoch
objects with an exact-rational reference)."""
import datetime
import itertools
import math
from fractions import Fraction

from ..engine import Clause, chunks
from ..fp import ulps
from ..ref import calendar as cal

from pymeeus.Epoch import Epoch

PROPERTY = "C02"
LEVEL = "model_checking"
RULE = ("round trip: every point of the JDE lattice (boundary instants x second "
        "offsets x +-2 ulp); forms: full product instant x input form; arithmetic: "
        "BFS over all operator/operand events to the stated depth on real Epoch "
        "objects against exact Fractions, all ordered pairs of reached states "
        "compared; non-trivial = lattice point within 1 s of a civil-day boundary, "
        "a form other than the reference form, a transition whose operand is non-zero")
ASSUMPTIONS = ["calendar reference model of C01",
               "== is compared with the documented 1e-10 day tolerance, < and > strictly",
               "events that would leave [0, 5.4e6] are disabled"]

OFFSETS_S = [0, 1e-3, 0.5, 1, 59, 60, 3599, 3600, 86399, 86399.999]
YEARS_Q = [-4712, -1, 0, 1, 4, 100, 1500, 1582, 1583, 1600, 1700, 1900, 1972, 2000,
           2017, 2100, 6000]
_FAST = None


def fast():
    global _FAST
    if _FAST is None:
        _FAST = cal.Fast(cal.Y_MIN, 11000)
    return _FAST


def bound(tier):
    return ("lattice: month starts of %s years x %d offsets x 2 signs x 5 ulp "
            "neighbours; BFS depth %s"
            % ("17 + every 25th" if tier == "thorough" else "17",
               len(OFFSETS_S), "3 (full events) + 4 (reduced operands)"
               if tier == "thorough" else "3 (full events)"))


def boundary_instants(tier):
    f = fast()
    b = {0.0, 0.5, 2299159.5, 2299160.5, 2299161.5, 2400000.5, 2451545.0, 5.4e6,
         5399999.5, 1721057.5, 1721423.5}
    years = list(YEARS_Q)
    if tier == "thorough":
        years += list(range(-4700, 6001, 25))
    for y in sorted(set(years)):
        for m in range(1, 13):
            b.add(f.n(y, m, 1) - 0.5)
    return sorted(x for x in b if 0.0 <= x <= 5.4e6)


def lattice(tier):
    pts = set()
    for b in boundary_instants(tier):
        for off in OFFSETS_S:
            for sg in (1, -1):
                x = b + sg * off / 86400.0
                for v in ulps(x, 2):
                    if 0.0 <= v <= 5.4e6:
                        pts.add(v)
    return sorted(pts)


def model_date(j):
    """Exact civil date and time of day (as Fraction of a day) of float JDE j."""
    J = Fraction(j) + Fraction(1, 2)
    n = J.numerator // J.denominator
    return fast().date(n), J - n, n


def check_point(j):
    """Returns (violations [(site,msg,dev)], date tuple or None)."""
    out = []
    try:
        e = Epoch(j)
        ej = e.jde()
        t = e.get_full_date()
    except Exception as ex:
        return [("exception", "Epoch(%r) / get_full_date raised %r" % (j, ex), None)], None
    y, m, d, h, mi, s = t
    if abs(ej - j) > 1e-8:
        out.append(("ctor", "Epoch(%r).jde() = %r" % (j, ej), abs(ej - j)))
    ok_types = (isinstance(y, int) and isinstance(m, int) and isinstance(d, int)
                and isinstance(h, int) and isinstance(mi, int))
    in_range = ok_types and 1 <= m <= 12 and 0 <= h <= 23 and 0 <= mi <= 59 and 0 <= s < 60 \
        and 1 <= d <= cal.mlen(y, m) and not (y == 1582 and m == 10 and 5 <= d <= 14)
    if not in_range:
        out.append(("range", "get_full_date(%r) = %r: field out of canonical range" % (j, t), None))
        return out, None
    # against the model (exact): same civil day, same time of day
    (my, mm, md), tod, n = model_date(j)
    n_impl = fast().n(y, m, d)
    impl_inst = Fraction(n_impl) + Fraction(h, 24) + Fraction(mi, 1440) + Fraction(s) / 86400
    dev = abs(float(impl_inst - (Fraction(j) + Fraction(1, 2))))
    if dev > 1e-8:
        out.append(("fields", "get_full_date(%r) = %r is %.3g day from the instant (model date %r)"
                    % (j, t, dev, (my, mm, md)), dev))
    try:
        j2 = Epoch(y, m, d, h, mi, s).jde()
        if abs(j2 - j) > 1e-8:
            out.append(("roundtrip", "Epoch(*get_full_date(%r)).jde() = %r" % (j, j2), abs(j2 - j)))
    except Exception as ex:
        out.append(("roundtrip", "rebuilding %r raised %r" % (t, ex), None))
    return out, t


def run_roundtrip(block, ctx):
    prev_t = None
    prev_j = None
    for j in block:
        ctx.evals += 1
        res, t = check_point(j)
        for site, msg, dev in res:
            ctx.viol({"jde": j}, msg, dev=dev, site=site)
        if t is not None and prev_t is not None and t < prev_t:
            ctx.viol({"jde": j, "prev": prev_j},
                     "date tuple decreases: %r at %r after %r at %r" % (t, j, prev_t, prev_j),
                     site="monotone")
        if t is not None:
            prev_t, prev_j = t, j
        frac = (j + 0.5) % 1.0
        if min(frac, 1 - frac) * 86400 <= 1.0:
            ctx.nt_count += 1
        ctx.outcome(t[3:5] if t else None)
        ctx.obs(j, t)
    ctx.sample({"jde": block[len(block) // 2]})


def replay_roundtrip(case):
    out = [m for _, m, _ in check_point(case["jde"])[0]]
    if "prev" in case:
        t0 = check_point(case["prev"])[1]
        t1 = check_point(case["jde"])[1]
        if t0 is not None and t1 is not None and t1 < t0:
            out.append("date tuple decreases: %r then %r" % (t0, t1))
    return out


# ---------------------------------------------------------------------------
# input forms

TIMES = [(0, 0, 0.0), (12, 0, 0.0), (23, 59, 59.999), (6, 30, 15.25), (23, 59, 59.999998), (7, 12, 59.999996),
         (0, 0, 0.000001), (0, 0, 0.5), (0, 0, 0.999999), (0, 7, 0.25), (5, 0, 0.75)]


def form_instants(tier):
    f = fast()
    days = [(-4712, 1, 1), (-1000, 8, 17), (-1, 12, 31), (0, 2, 29), (1, 1, 1), (333, 1, 27),
            (837, 4, 10), (1500, 2, 29), (1582, 10, 4), (1582, 10, 15), (1600, 12, 31),
            (1900, 1, 1), (1972, 6, 30), (1987, 6, 19), (2000, 1, 1), (2024, 2, 29),
            (2100, 3, 1), (6000, 12, 31), (9999, 12, 31)]
    return [(d, t) for d in days for t in TIMES]


FORMS = ["args", "tuple", "list", "fracday", "fracday_tuple", "short", "long", "long_lower",
         "short_upper", "copy", "set_args", "set_tuple", "set_list", "set_copy", "datetime",
         "date", "floats", "jde_float", "cid_epoch", "cid_args", "cid_tuple", "cid_list",
         "cid_datetime", "cid_date", "frac_hour", "frac_minute", "frac_hour_tuple"]


def build_form(form, y, m, d, h, mi, s):
    """Returns the JDE obtained through `form`, or None when the form cannot
    express this instant (documented restriction)."""
    fd = d + h / 24.0 + mi / 1440.0 + s / 86400.0
    us = int(round((s % 1) * 1e6))
    if form == "args":
        return Epoch(y, m, d, h, mi, s).jde()
    if form == "tuple":
        return Epoch((y, m, d, h, mi, s)).jde()
    if form == "list":
        return Epoch([y, m, d, h, mi, s]).jde()
    if form == "fracday":
        return Epoch(y, m, fd).jde()
    if form == "fracday_tuple":
        return Epoch((y, m, fd)).jde()
    if form == "short":
        return Epoch(y, cal.SHORT[m - 1], d, h, mi, s).jde()
    if form == "long":
        return Epoch(y, cal.LONG[m - 1], d, h, mi, s).jde()
    if form == "long_lower":
        return Epoch(y, cal.LONG[m - 1].lower(), d, h, mi, s).jde()
    if form == "short_upper":
        return Epoch(y, cal.SHORT[m - 1].upper(), d, h, mi, s).jde()
    if form == "copy":
        src = Epoch(y, m, d, h, mi, s)
        c = Epoch(src)
        return c.jde()
    if form.startswith("set_"):
        e = Epoch(1234567.891)
        e.get_full_date()
        if form == "set_args":
            e.set(y, m, d, h, mi, s)
        elif form == "set_tuple":
            e.set((y, m, d, h, mi, s))
        elif form == "set_list":
            e.set([y, m, d, h, mi, s])
        else:
            e.set(Epoch(y, m, d, h, mi, s))
        return e.jde()
    if form in ("datetime", "date", "cid_datetime", "cid_date"):
        # datetime is proleptic Gregorian: it cannot express e.g. 1500-02-29
        if not 1 <= y <= 9999:
            return None
        try:
            dt = datetime.datetime(y, m, d, h, mi, int(s), us)
        except ValueError:
            return None
        if form.endswith("date") and (h, mi, s) != (0, 0, 0.0):
            return None
        if form == "datetime":
            return Epoch(dt).jde()
        if form == "date":
            return Epoch(dt.date()).jde()
        if form == "cid_datetime":
            return Epoch.check_input_date(dt).jde()
        return Epoch.check_input_date(dt.date()).jde()
    if form == "frac_hour":
        return Epoch(y, m, d, h + mi / 60.0 + s / 3600.0).jde()
    if form == "frac_hour_tuple":
        return Epoch((y, m, d, h + mi / 60.0 + s / 3600.0)).jde()
    if form == "frac_minute":
        return Epoch(y, m, d, h, mi + s / 60.0).jde()
    if form == "floats":
        return Epoch(y, float(m), float(d), float(h), float(mi), s).jde()
    if form == "jde_float":
        return Epoch(Epoch(y, m, d, h, mi, s).jde()).jde()
    # check_input_date: the helper behind every date-taking function
    if form == "cid_epoch":
        return Epoch.check_input_date(Epoch(y, m, d, h, mi, s)).jde()
    if form == "cid_args":
        return Epoch.check_input_date(y, m, fd).jde()
    if form == "cid_tuple":
        return Epoch.check_input_date((y, m, fd)).jde()
    if form == "cid_list":
        return Epoch.check_input_date([y, m, fd]).jde()
    raise KeyError(form)


def check_form(case):
    y, m, d, h, mi, s = case["instant"]
    form = case["form"]
    n = fast().n(y, m, d)
    ref = Fraction(n) - Fraction(1, 2) + Fraction(h, 24) + Fraction(mi, 1440) + Fraction(s) / 86400
    try:
        v = build_form(form, y, m, d, h, mi, s)
    except Exception as ex:
        return [("form %s of %r raised %r" % (form, case["instant"], ex), None)]
    if v is None:
        return []
    dev = abs(float(Fraction(v) - ref))
    if dev > 1e-9:
        return [("form %s of %r gives JDE %r, instant is %r (dev %.3g day)"
                 % (form, case["instant"], v, float(ref), dev), dev)]
    return []


def run_forms(block, ctx):
    for (dd, tt) in block:
        for form in FORMS:
            case = {"instant": list(dd) + list(tt), "form": form,
                    "has_time": tt != (0, 0, 0.0)}
            ctx.evals += 1
            if form != "args":
                ctx.nt_count += 1
            res = check_form(case)
            for msg, dev in res:
                ctx.viol(case, msg, dev=dev, site=form)
            ctx.outcome((form, bool(res)))
            ctx.obs(case["instant"], form, len(res))
    ctx.sample({"instant": list(block[0][0]) + list(block[0][1]), "form": "set_tuple"})


def replay_forms(case):
    return [m for m, _ in check_form(case)]


# ---------------------------------------------------------------------------
# H: arithmetic BFS on real objects

INITIALS = [0.0, 2299159.5, 2299160.5, 2451545.0, 1234567.891, 4.4e6]
OPERANDS_FULL = [0, 1e-9, -1e-9, 1e-3, -1e-3, 0.5, -0.5, 1, -1, 1.0, -1.0, 365.25, -365.25,
                 36525, -36525, 36525.0, 1e6, -1e6, 1000000, -1000000]
OPERANDS_RED = [1e-9, -1e-9, 0.5, -0.5, 1, -1, 36525, -36525]
OPS = ["add", "radd", "sub", "iadd", "isub"]
LO, HI = Fraction(0), Fraction(5400000)


def apply_op(e, op, x):
    """Apply one event to the real object; returns the resulting Epoch."""
    if op == "add":
        return e + x
    if op == "radd":
        return x + e
    if op == "sub":
        return e - x
    if op == "iadd":
        f = e
        f += x
        return f
    if op == "isub":
        f = e
        f -= x
        return f
    raise KeyError(op)


def model_op(v, op, x):
    return v + Fraction(x) if op in ("add", "radd", "iadd") else v - Fraction(x)


def check_transition(e, op, x):
    """e: real Epoch. Returns (violations, result object or None)."""
    out = []
    before = e._jde
    exact = model_op(Fraction(before), op, x)
    try:
        r = apply_op(e, op, x)
    except Exception as ex:
        return [("%s %r on Epoch(%r) raised %r" % (op, x, before, ex), None)], None
    if not isinstance(r, Epoch):
        return [("%s %r on Epoch(%r) returned %r, not an Epoch" % (op, x, before, type(r)), None)], None
    if e._jde != before or math.copysign(1, e._jde) != math.copysign(1, before):
        out.append(("%s %r changed its operand: %r -> %r" % (op, x, before, e._jde), None))
    if r is e and op in ("iadd", "isub") and x != 0:
        out.append(("%s returned the same object after a non-zero shift" % op, None))
    dev = abs(float(Fraction(r._jde) - exact))
    if dev > 1e-8:
        out.append(("Epoch(%r) %s %r = %r, exact %r (dev %.3g)"
                    % (before, op, x, r._jde, float(exact), dev), dev))
    # agreement of forms with the plain form (bit-identical)
    try:
        plain = (e + x) if op in ("add", "radd", "iadd") else (e - x)
        if plain._jde != r._jde:
            out.append(("%s %r on Epoch(%r) = %r differs from plain form %r"
                        % (op, x, before, r._jde, plain._jde), None))
    except Exception as ex:
        out.append(("plain form of %s %r raised %r" % (op, x, ex), None))
    # translation identities
    try:
        if op in ("add", "radd", "iadd"):
            back = r - e
        else:
            back = e - r
        if not isinstance(back, float):
            out.append(("Epoch - Epoch returned %r" % type(back), None))
        elif abs(back - float(x)) > 1e-8:
            out.append(("(e %s %r) vs e: difference %r, expected %r (e=%r)"
                        % (op, x, back, x, before), abs(back - float(x))))
    except Exception as ex:
        out.append(("Epoch - Epoch raised %r" % ex, None))
    try:
        if hash(r) != hash(float(r._jde)) or hash(Epoch(r)) != hash(Epoch(r)):
            out.append(("hash of Epoch(%r) inconsistent" % r._jde, None))
    except Exception as ex:
        out.append(("hash raised %r" % ex, None))
    return out, r


def check_pair(a, b):
    """All six comparisons of two real Epoch objects against float order."""
    x, y = a._jde, b._jde
    eq = abs(Fraction(x) - Fraction(y)) < Fraction(1, 10**10)
    exp = {"lt": x < y, "gt": x > y, "le": not (x > y), "ge": not (x < y),
           "eq": eq, "ne": not eq}
    out = []
    try:
        got = {"lt": a < b, "gt": a > b, "le": a <= b, "ge": a >= b, "eq": a == b,
               "ne": a != b}
    except Exception as ex:
        return ["comparison of Epoch(%r), Epoch(%r) raised %r" % (x, y, ex)]
    # near the tolerance edge the float subtraction may round either way
    edge = abs(abs(Fraction(x) - Fraction(y)) - Fraction(1, 10**10)) < Fraction(1, 10**9) * Fraction(1, 10**3)
    for k in exp:
        if got[k] is not exp[k] and not (edge and k in ("eq", "ne")):
            out.append("Epoch(%r) %s Epoch(%r) = %r, expected %r" % (x, k, y, got[k], exp[k]))
    # mixed comparison with a float operand
    try:
        if (a < y) is not exp["lt"] or (a > y) is not exp["gt"]:
            out.append("Epoch(%r) vs float %r: lt/gt disagree with JDE order" % (x, y))
    except Exception as ex:
        out.append("comparison with float raised %r" % ex)
    return out


def run_bfs(spec, ctx):
    j0, depth, operands = spec
    events = [(op, x) for op in OPS for x in operands]
    e0 = Epoch(j0)
    seen = {e0._jde: (e0, 0, Fraction(e0._jde), None)}
    frontier = [e0]
    for lvl in range(1, depth + 1):
        nxt = []
        for e in frontier:
            for (op, x) in events:
                exact = model_op(Fraction(e._jde), op, x)
                if exact < LO or exact > HI:
                    continue          # disabled event
                ctx.transitions += 1
                ctx.evals += 1
                if x != 0:
                    ctx.nt_count += 1
                res, r = check_transition(e, op, x)
                for msg, dev in res:
                    ctx.viol({"start": e._jde, "op": op, "x": x,
                              "x_type": type(x).__name__}, msg, dev=dev, site=op)
                if r is None:
                    continue
                k = r._jde
                if k not in seen:
                    cum = model_op(seen[e._jde][2], op, x)
                    if abs(float(Fraction(k) - cum)) > 1e-8 * lvl:
                        ctx.viol({"start": e._jde, "op": op, "x": x, "x_type": type(x).__name__,
                                  "depth": lvl},
                                 "state %r drifted %.3g from the exact history value"
                                 % (k, abs(float(Fraction(k) - cum))), site="drift")
                    seen[k] = (r, lvl, cum, (e._jde, op, x))
                    nxt.append(r)
        frontier = nxt
    ctx.states += len(seen)
    ctx.traces += len(seen)
    ctx.outcome((j0, len(seen)))
    # order: all ordered pairs among states of depth <= 2 (full), plus each
    # deepest state against its parent
    low = [v[0] for v in seen.values() if v[1] <= min(2, depth)]
    if len(low) > 700:
        low = sorted(low, key=lambda o: o._jde)[::max(1, len(low) // 700)]
        ctx.count("pair_set_thinned", 1)
    for a in low:
        for b in low:
            ctx.evals += 1
            for msg in check_pair(a, b):
                ctx.viol({"a": a._jde, "b": b._jde}, msg, site="order")
    ctx.count("ordered_pairs", len(low) ** 2)
    ctx.nt_count += len(low) * (len(low) - 1)
    ctx.obs(j0, len(seen), sorted(seen)[:50])
    k = sorted(seen)[len(seen) // 2]
    hist = []
    kk = k
    while seen[kk][3] is not None:
        p, op, x = seen[kk][3]
        hist.append([op, x])
        kk = p
    ctx.sample({"initial": j0, "history": hist[::-1], "state": k})


def replay_bfs(case):
    if "a" in case:
        a, b = Epoch(), Epoch()
        a._jde, b._jde = case["a"], case["b"]
        return check_pair(a, b)
    e = Epoch()
    e._jde = case["start"]
    x = case["x"]
    if case.get("x_type") == "int":
        x = int(x)
    return [m for m, _ in check_transition(e, case["op"], x)[0]]


# ---------------------------------------------------------------------------
# H: histories of observers and the in-place mutator set() on ONE Epoch object.
# After every step every view of the object must equal that of a fresh Epoch
# holding the same JDE (differential oracle: anything remembered across calls,
# e.g. a cached date or sidereal time, is exposed).

HIST_EVENTS = [("get_date",), ("get_full_date",), ("get_date_utc",), ("get_full_date_leap", 30), ("dow",), ("doy",), ("year",), ("mjd",), ("sidereal",),
               ("leap",), ("julian",), ("str",), ("hash",),
               ("set_jde", 2299160.5), ("set_date", (1987, 6, 19.5)), ("set_date", (-500, 2, 29.25)),
               ("set_tuple", (2024, "Feb", 29, 6, 30, 15.25)), ("set_copy", 1234567.891),
               ("iadd", 0.75), ("isub", 365.25)]


def epoch_views(e):
    return (e.jde(), e.get_date(), e.get_full_date(), e.dow(), e.dow(as_string=True), e.doy(), e.year(),
            e.mjd(), e.mean_sidereal_time(), e.leap(), e.julian(), str(e), hash(e), float(e), int(e), e())


def epoch_apply(e, ev):
    k = ev[0]
    if k == "get_date":
        e.get_date()
    elif k == "get_full_date":
        e.get_full_date()
    elif k == "get_date_utc":
        e.get_date(utc=True)
        e.get_full_date(utc=True)
    elif k == "get_full_date_leap":
        e.get_full_date(leap_seconds=ev[1])
    elif k == "dow":
        e.dow()
        e.dow(as_string=True)
    elif k == "doy":
        e.doy()
    elif k == "year":
        e.year()
    elif k == "mjd":
        e.mjd()
    elif k == "sidereal":
        e.mean_sidereal_time()
    elif k == "leap":
        e.leap()
    elif k == "julian":
        e.julian()
    elif k == "str":
        str(e)
        repr(e)
    elif k == "hash":
        hash(e)
    elif k == "set_jde":
        e.set(ev[1])
    elif k == "set_date":
        e.set(*ev[1])
    elif k == "set_tuple":
        e.set(tuple(ev[1]))
    elif k == "set_copy":
        e.set(Epoch(ev[1]))
    elif k == "iadd":
        f = e
        f += ev[1]
        return f
    elif k == "isub":
        f = e
        f -= ev[1]
        return f
    return e


def check_epoch_history(case):
    e = Epoch(case["start"])
    done = []
    out = []
    for ev in case["history"]:
        ev = tuple(tuple(x) if isinstance(x, list) else x for x in ev)
        try:
            e = epoch_apply(e, ev)
        except Exception as ex:
            out.append("history %r + %r raised %r" % (done, ev, ex))
            break
        done.append(ev)
        fresh = Epoch()
        fresh._jde = e._jde
        try:
            va, vf = epoch_views(e), epoch_views(fresh)
        except Exception as ex:
            out.append("views after history %r raised %r" % (done, ex))
            break
        # ... and absolutely, against the calendar model: state shared by ALL objects (a class-level memo keyed
        # on the value) would mislead the fresh object in the same way
        try:
            y_, m_, d_, h_, mi_, s_ = va[2]
            inst = (Fraction(fast().n(y_, m_, d_)) + Fraction(h_, 24) + Fraction(mi_, 1440) + Fraction(s_) / 86400)
            dev = abs(float(inst - (Fraction(e._jde) + Fraction(1, 2))))
            if dev > 1e-8:
                out.append("after history %r on Epoch(%r) get_full_date() = %r is %.3g day from the object's JDE %r"
                           % (done, case["start"], va[2], dev, e._jde))
                break
        except Exception as ex:
            out.append("after history %r: get_full_date() = %r is not a civil instant (%r)" % (done, va[2], ex))
            break
        if va != vf:
            diff = [i for i in range(len(va)) if va[i] != vf[i]]
            out.append("after history %r on Epoch(%r) the object (JDE %r) answers %r where a fresh Epoch of the "
                       "same JDE answers %r (view indexes %r)"
                       % (done, case["start"], e._jde, [va[i] for i in diff], [vf[i] for i in diff], diff))
            break
    return out


def epoch_history_cases(depth):
    out = []
    for j0 in (2451545.0, 2299159.75, 990558.5):
        for d in range(1, depth + 1):
            for h in itertools.product(HIST_EVENTS, repeat=d):
                out.append({"start": j0, "history": [list(e) for e in h]})
    return out


def run_epoch_history(block, ctx):
    for case in block:
        ctx.evals += 1
        ctx.states += 1
        ctx.transitions += len(case["history"])
        ctx.traces += 1
        if len(case["history"]) > 1:
            ctx.nt_count += 1
        for msg in check_epoch_history(case):
            ctx.viol(case, msg, site="object_history")
        ctx.outcome(len(case["history"]))
    ctx.obs(len(block))
    ctx.sample(block[len(block) // 2])


# -- every civil day of the whole JDE range, read back -----------------------------------------------------------

def run_every_day(block, ctx):
    """block = (n_lo, n_hi): for EVERY integer day number n in it, the instants n - 0.5 (0h) and n - 0.25 (6h) are
    read back through get_date(): year, month and day of month must be the model's (the range 0 .. 5.4e6 reaches
    year 10 072: a century-number slip that shows on one single day - 1 March 6700 - is inside it)."""
    n_lo, n_hi = block
    f = fast()
    bad = 0
    for n in range(n_lo, n_hi):
        exp = f.date(n)
        for fr in (0.0, 0.25):
            try:
                y, m, d = Epoch(n - 0.5 + fr).get_date()
            except Exception as ex:
                ctx.viol({"jde": n - 0.5 + fr}, "Epoch(%r).get_date() raised %r" % (n - 0.5 + fr, ex), site="every_day")
                bad += 1
                continue
            if (y, m, int(d)) != exp or abs(d - int(d) - fr) > 1e-9:
                bad += 1
                if bad <= 5:
                    ctx.viol({"jde": n - 0.5 + fr}, "Epoch(%r).get_date() = %r, the model gives %r + %r"
                             % (n - 0.5 + fr, (y, m, d), exp, fr), site="every_day")
    ctx.evals += 2 * (n_hi - n_lo)
    ctx.nt_count += n_hi - n_lo
    ctx.outcome(bad)
    ctx.obs(block, bad)
    ctx.sample({"jde": n_lo - 0.5, "to": n_hi - 0.5})


def check_negative_results(case):
    """Arithmetic whose result lies before JDE 0 still obeys (e + x) - e == x and e - (e + x) == -x."""
    j, x = case["jde"], case["x"]
    out = []
    try:
        e = Epoch(j)
        r = e + x
        d1 = r - e
        d2 = e - r
        f = Epoch(j)
        f += x
        d3 = f - Epoch(j)
        for lab, v, exp in (("(e + x) - e", d1, x), ("e - (e + x)", d2, -x), ("(e += x) - e", d3, x)):
            if abs(float(v) - exp) > 1e-9 * max(1.0, abs(exp)):
                out.append(("negative_result", "%s = %r for e = Epoch(%r), x = %r" % (lab, float(v), j, x), abs(float(v) - exp)))
        if abs(r.jde() - (j + x)) > 1e-9 * max(1.0, abs(j + x)):
            out.append(("negative_result", "(Epoch(%r) + %r).jde() = %r" % (j, x, r.jde()), None))
    except Exception as ex:
        out.append(("negative_result", "arithmetic Epoch(%r) + %r raised %r" % (j, x, ex), None))
    return out


def run_negative(block, ctx):
    for case in block:
        ctx.evals += 4
        ctx.nt_count += 1
        for site, msg, dev in check_negative_results(case):
            ctx.viol(case, msg, dev=dev, site=site)
        ctx.outcome(case["x"])
    ctx.sample(block[0])


def clauses(tier):
    lat = lattice(tier)
    bfs_specs = [(j0, 3, OPERANDS_FULL) for j0 in INITIALS]
    if tier == "thorough":
        bfs_specs += [(j0, 4, OPERANDS_RED) for j0 in INITIALS]
    return [
        Clause("roundtrip", chunks(lat, 64), run_roundtrip, replay_roundtrip, floor=1000),
        Clause("forms", chunks(form_instants(tier), 16), run_forms, replay_forms, floor=500),
        Clause("every_day_readback", [(k * 50000, min((k + 1) * 50000, 5400001)) for k in range(109)], run_every_day,
               lambda c: [m for _, m, _ in check_point(c["jde"])[0]], floor=5000000, shape="S"),
        Clause("negative_results", [[{"jde": j, "x": x} for j in (0.0, 0.75, 1000.25, 2451545.0)
                                     for x in (-1.5, -5000.0, -1000.75, -1e6, -2451545.5, -5e6)]], run_negative,
               lambda c: [m for _, m, _ in check_negative_results(c)], floor=20, shape="H"),
        Clause("arith_bfs", bfs_specs, run_bfs, replay_bfs, floor=1000, shape="H"),
        Clause("object_history", chunks(epoch_history_cases(4 if tier == "thorough" else 3), 32),
               run_epoch_history, check_epoch_history, floor=500, shape="H"),
    ]
