"""C11 - Kepler's equation and two-body relations (L)."""
import math

from ..engine import Clause, chunks
from ..fp import ulps

from pymeeus.Angle import Angle
from pymeeus.Epoch import Epoch
from pymeeus.Coordinates import (kepler_equation, velocity, velocity_perihelion, velocity_aphelion,
                                 length_orbit, passage_nodes_elliptic, passage_nodes_parabolic,
                                 phase_angle, illuminated_fraction)

PROPERTY = "C11"
LEVEL = "exploration"
RULE = ("full product eccentricity alphabet (13 values 0..0.999999, plus the 0.95 seam +-1e-5 for "
        "the orbit length) x mean-anomaly alphabet (multiples of 180 +- 1e-9, +-1 ulp, 1 degree grid "
        "[0.1 degree thorough], values up to +-1e4, both signs); semi-major axes {0.3, 1, 17.94, 100}; "
        "all triangle-feasible distance triples from 6 values; node passages omega x e (q) x both "
        "nodes; non-trivial = e >= 0.9, or M within 1e-6 of a multiple of 180, or |M| > 360")
ASSUMPTIONS = ["Kepler residual evaluated in double precision (error ~1e-13 deg)",
               "mean anomalies enter through Angle, i.e. reduced modulo 360 by the caller's object"]

ECCS = [0.0, 1e-9, 0.0167, 0.1, 0.5, 0.9, 0.95, 0.98, 0.99, 0.999, 0.9999, 0.99999, 0.999999]


def bound(tier):
    return "13 eccentricities x %s mean anomalies" % ("~36 000 (x 64 eccentricities)" if tier == "thorough" else "~900")


def anomalies(tier):
    base = [0.0, 1e-9, 1e-6, 1e-3, 1.0, 5.0, 45.0, 90.0, 179.0, 180.0 - 1e-9, 180.0, 180.0 + 1e-9, 181.0,
            270.0, 359.0, 360.0 - 1e-9, 360.0, 361.0, 540.0, 720.0, 9999.9, 1e4, 200.0, 250.0, 560.0, 925.0]
    vals = set()
    for m in base:
        for sg in (1.0, -1.0):
            for v in ulps(sg * m, 1):
                vals.add(v)
    step = 0.02 if tier == "thorough" else 1.0
    n = int(round(360.0 / step))
    for i in range(-n, n + 1):
        vals.add(i * step)
    return sorted(vals)


def check_kepler(e, m):
    out = []
    try:
        am = Angle(m)
        before = am._deg
        EE, v = kepler_equation(e, am)
    except Exception as ex:
        return [("exception", "kepler_equation(%r, Angle(%r)) raised %r" % (e, m, ex), None)]
    if not (isinstance(EE, Angle) and isinstance(v, Angle)):
        return [("type", "kepler_equation returned %r" % ((EE, v),), None)]
    if am._deg != before:
        out.append(("mutation", "kepler_equation modified its argument", None))
    Er = EE.rad()
    mred = am._deg
    res = math.degrees(Er - e * math.sin(Er)) - mred
    res = (res + 180.0) % 360.0 - 180.0
    if abs(res) > 5e-8:
        out.append(("residual", "kepler_equation(%r, %r): E = %r leaves E - e sin E - M = %.3g deg"
                    % (e, m, EE._deg, res), abs(res)))
    sm = math.sin(math.radians(mred))
    se = math.sin(Er)
    if abs(sm) > 1e-7 and abs(se) > 1e-7 and (sm > 0) != (se > 0):
        out.append(("half_revolution", "kepler_equation(%r, %r): E = %r is not in the half revolution of M"
                    % (e, m, EE._deg), None))
    if abs(abs((EE._deg + 180.0) % 360.0 - 180.0) - 180.0) > 1e-6:
        lhs = math.tan(v.rad() / 2.0)
        rhs = math.sqrt((1.0 + e) / (1.0 - e)) * math.tan(Er / 2.0)
        # compared as angles near E = 180 (the tangents are ill-conditioned there), as tangents elsewhere
        vexp = 2.0 * math.degrees(math.atan2(math.sqrt(1.0 + e) * math.sin(Er / 2.0),
                                             math.sqrt(1.0 - e) * math.cos(Er / 2.0)))
        dv = abs((v._deg - vexp + 180.0) % 360.0 - 180.0)
        if (abs(rhs) <= 1e3 and abs(lhs - rhs) > 1e-9 * max(1.0, abs(rhs))) or (abs(rhs) > 1e3 and dv > 1e-8):
            out.append(("true_anomaly", "kepler_equation(%r, %r): tan(v/2) = %r, sqrt((1+e)/(1-e)) tan(E/2) = %r"
                        % (e, m, lhs, rhs), abs(lhs - rhs)))
    return out


def run_kepler(block, ctx):
    e, ms = block
    for m in ms:
        ctx.evals += 1
        res = check_kepler(e, m)
        for site, msg, dev in res:
            ctx.viol({"e": e, "M": m}, msg, dev=dev, site=site)
            ctx.maxi(site, dev)
        r = abs(m) % 180.0
        if e >= 0.9 or min(r, 180.0 - r) < 1e-6 or abs(m) > 360.0:
            ctx.nt_count += 1
        ctx.obs(e, m, len(res))
    ctx.outcome((e, len(ms)))
    ctx.sample({"e": e, "M": ms[len(ms) // 3]})


# -- a call right after a call with almost the same arguments ------------------------------------

SEQ_M = [0.0, 1e-6, 5.0, 45.0, 90.0, 179.0, 180.0, 200.0, 359.999999, 925.0, -9999.25, 1e4]
SEQ_D = [6e-8, 1e-7, -3e-7, 4.9e-7, 9e-7, 3e-6, 1e-5, -1e-4]
SEQ_DE = [0.0, 1e-9, -1e-9, 1e-7]


def check_kepler_seq(case):
    """kepler_equation(e, M) is called first; the call that follows, with M + d (and e + de), must
    solve *its own* equation, and then the first pair again."""
    e, m, d, de = case["e"], case["M"], case["d"], case["de"]
    e2 = min(max(e + de, 0.0), 0.9999999)
    try:
        kepler_equation(e, Angle(m))
    except Exception as ex:
        return [("exception", "kepler_equation(%r, %r) raised %r" % (e, m, ex), None)]
    out = [("seq_" + s_, "after a call with (e, M) = (%r, %r): %s" % (e, m, msg), dev)
           for s_, msg, dev in check_kepler(e2, m + d)]
    out += [("seq_" + s_, "after calls with M = %r and M %+g: %s" % (m, d, msg), dev)
            for s_, msg, dev in check_kepler(e, m)]
    return out


def run_kepler_seq(block, ctx):
    for case in block:
        ctx.evals += 3
        ctx.nt_count += 1
        ctx.traces += 1
        res = check_kepler_seq(case)
        for site, msg, dev in res:
            ctx.viol(case, msg, dev=dev, site=site)
        ctx.obs(case, len(res))
        ctx.outcome((case["e"], len(res)))
    ctx.sample(block[0])


# -- dense (e, M) grids: iteration schemes fail in pockets that are not at named values -------------------

def dense_shards(tier):
    """(e, m_lo, m_hi, m_step).  High eccentricities 0.90 .. 0.9995 in steps of 0.0005 with mean
    anomalies +-40 deg on a 0.01 deg grid (thorough: 0.002), where every fixed-point or Newton
    scheme is fragile; low eccentricities 0 .. 0.03 in steps of 0.0005 over a whole turn on a 1 deg grid,
    where a truncated series would be tempting; and the rest of [0, 1) in steps of 0.01 on a 0.5 deg grid."""
    out = []
    mstep = 0.002 if tier == "thorough" else 0.01
    for k in range(200):
        e = 0.90 + 0.0005 * k
        for lo in (-40.0, -20.0, 0.0, 20.0):
            out.append((round(e, 6), lo, lo + 20.0, mstep))
    for k in range(61):
        out.append((round(0.0005 * k, 6), -180.0, 180.0, 1.0))
    for k in range(3, 90):
        out.append((round(0.01 * k, 6), -180.0, 180.0, 0.5))
    return out


def run_dense(spec, ctx):
    e, lo, hi, step = spec
    n = int(round((hi - lo) / step))
    bad = 0
    for k in range(n):
        m = lo + k * step
        ctx.evals += 1
        for site, msg, dev in check_kepler(e, m):
            bad += 1
            ctx.viol({"e": e, "M": m}, msg, dev=dev, site="dense_" + site)
            ctx.maxi("dense_" + site, dev)
    ctx.nt_count += n
    ctx.outcome((e, bad))
    ctx.obs(spec, bad)
    ctx.sample({"e": e, "M_from": lo, "M_to": hi, "step": step})


# -- the quadrant seams of the anomaly formulas: true anomaly +-90 deg (cos E = e), E = +-90 deg ---------------

def quadrant_cases():
    """Mean anomalies at which the true anomaly is exactly +-90 degrees (cos E = e, where a formula for v written
    with cos v in a denominator has to decide a quadrant) or the eccentric anomaly +-90 degrees, for 400
    eccentricities, with the 8 neighbouring floats on each side and +-1e-9 .. 1e-6 degree."""
    out = []
    for k in range(400):
        e = 0.0025 * k + 0.00123
        if e >= 0.999:
            continue
        E1 = math.acos(e)
        m_v90 = math.degrees(E1 - e * math.sin(E1))            # v = 90
        m_e90 = math.degrees(math.pi / 2.0 - e)                 # E = 90
        for m0 in (m_v90, -m_v90, m_e90, -m_e90, 360.0 - m_v90):
            vals = [m0]
            up = dn = m0
            for _ in range(8):
                up = math.nextafter(up, math.inf)
                dn = math.nextafter(dn, -math.inf)
                vals += [up, dn]
            vals += [m0 + d for d in (1e-9, -1e-9, 1e-6, -1e-6)]
            out.append((e, vals))
    # eccentricities for which a round true anomaly w has cos w = -e .. e exactly as computed from w itself
    for w in range(5, 180, 5):
        e = abs(math.cos(math.radians(w)))
        if 0.0 < e < 0.999:
            E1 = math.acos(e)
            m0 = math.degrees(E1 - e * math.sin(E1))
            out.append((e, [m0, -m0, math.nextafter(m0, 0), -math.nextafter(m0, 0), 360.0 - m0]))
    return out


def run_quadrants(block, ctx):
    for e, ms in block:
        for m in ms:
            ctx.evals += 1
            for site, msg, dev in check_kepler(e, m):
                ctx.viol({"e": e, "M": m}, msg, dev=dev, site="quadrant_" + site)
        ctx.nt_count += 1
        ctx.outcome(round(e, 2))
    ctx.obs(block[0][0], block[-1][0])
    ctx.sample({"e": block[0][0], "M": block[0][1][0]})


# -- the curve v = +-90 degrees on a fine grid of eccentricities ------------------------------------------------

def run_latus(spec, ctx):
    """spec = (k0, k1, N): for e = (k + 0.37) / N the mean anomalies at which the true anomaly is +90 and -90
    degrees (cos E = e: the body at an end of the latus rectum).  A formula for v that divides by cos v, or
    decides a quadrant from its sign, meets its exact zero for a scattered few eccentricities per million - which
    ones depends on the last bits of the solver's E, so the only way to meet them is to try them all."""
    k0, k1, N = spec
    for k in range(k0, k1):
        e = (k + 0.37) / N
        if e >= 0.9995:
            break
        E1 = math.acos(e)
        m0 = math.degrees(E1 - e * math.sin(E1))
        for m in (m0, -m0):
            ctx.evals += 1
            for site, msg, dev in check_kepler(e, m):
                ctx.viol({"e": e, "M": m}, msg, dev=dev, site="latus_" + site)
    ctx.nt_count += k1 - k0
    ctx.outcome(k0 * 20 // N)
    ctx.obs(k0, k1)
    ctx.sample({"e": (k0 + 0.37) / N, "N": N})


# -- speeds, length, phase -------------------------------------------------------

AXES = [0.3, 1.0, 17.94, 100.0]
ECC_V = [0.0, 1e-9, 0.0167, 0.1, 0.5, 0.9, 0.94999, 0.95, 0.95001, 0.98, 0.99, 0.999, 0.999999]


def check_orbit(case):
    e, a = case["e"], case["a"]
    out = []
    try:
        vp, va = velocity_perihelion(e, a), velocity_aphelion(e, a)
        vq, vQ = velocity(a * (1.0 - e), a), velocity(a * (1.0 + e), a)
        vc = velocity(a, a)
        for name, x, y in (("perihelion", vp, vq), ("aphelion", va, vQ)):
            if abs(x - y) > 1e-4 * max(abs(x), abs(y)):
                out.append(("vis_viva", "velocity_%s(%r, %r) = %r, velocity(r, a) = %r" % (name, e, a, x, y),
                            abs(x - y) / max(abs(x), abs(y))))
        if abs(vp * va - vc * vc) > 1e-4 * vc * vc:
            out.append(("vis_viva_product", "v_peri * v_aph = %r, v_circ^2 = %r (e=%r, a=%r)"
                        % (vp * va, vc * vc, e, a), abs(vp * va / (vc * vc) - 1)))
        if not (va <= vc * (1 + 1e-4) <= vp * (1 + 2e-4)):
            out.append(("speed_order", "speeds not ordered: aphelion %r, circular %r, perihelion %r"
                        % (va, vc, vp), None))
        L = length_orbit(e, a)
        b = a * math.sqrt(1.0 - e * e)
        # inscribed circle radius b, circumscribed radius a
        if not (2 * math.pi * b * (1 - 1e-9) <= L <= 2 * math.pi * a * (1 + 1e-9)):
            out.append(("length_bounds", "length_orbit(%r, %r) = %r not in [2 pi b, 2 pi a] = [%r, %r]"
                        % (e, a, L, 2 * math.pi * b, 2 * math.pi * a), None))
    except Exception as ex:
        out.append(("exception", "orbit functions raised %r for %r" % (ex, case), None))
    return out


def ellipse_perimeter(a, b):
    """Exact perimeter 4 a E(e) by the arithmetic-geometric mean."""
    if a == b:
        return 2 * math.pi * a
    e2 = 1.0 - (b / a) ** 2
    an, bn, cn = 1.0, math.sqrt(1.0 - e2), math.sqrt(e2)
    ssum = 0.5 * cn * cn
    p = 0.5
    for _ in range(60):
        if abs(cn) < 1e-17:
            break
        an1 = (an + bn) / 2.0
        cn = (an - bn) / 2.0
        bn = math.sqrt(an * bn)
        an = an1
        p *= 2.0
        ssum += p * cn * cn
    K = math.pi / (2.0 * an)
    return 4.0 * a * K * (1.0 - ssum)


def check_seam(case):
    a = case["a"]
    try:
        lo = length_orbit(math.nextafter(0.95, 0.0), a)
        hi = length_orbit(0.95, a)
    except Exception as ex:
        return [("exception", "length_orbit raised %r" % ex, None)]
    if abs(lo - hi) / hi > 1e-3:
        return [("length_seam", "length_orbit jumps from %r to %r across e = 0.95 (a = %r)" % (lo, hi, a),
                 abs(lo - hi) / hi)]
    return []


def run_orbit(block, ctx):
    for case in block:
        ctx.evals += 1
        res = check_orbit(case) + (check_seam(case) if case["e"] == 0.95 else [])
        for site, msg, dev in res:
            ctx.viol(case, msg, dev=dev, site=site)
            ctx.maxi(site, dev)
        if case["e"] >= 0.9:
            ctx.nt_count += 1
        ctx.outcome((case["e"], len(res)))
    ctx.sample(block[0])


DISTS = [0.3, 0.45, 0.72, 1.0, 1.52, 5.2, 30.0]


def check_phase(case):
    r, d, R = case["r"], case["delta"], case["R"]
    try:
        i = phase_angle(r, d, R)
        k = illuminated_fraction(r, d, R)
    except Exception as ex:
        return [("exception", "phase functions raised %r for %r" % (ex, case), None)]
    out = []
    if not isinstance(i, Angle) or not (0.0 <= i._deg <= 180.0):
        out.append(("phase_range", "phase_angle%r = %r" % ((r, d, R), i), None))
        return out
    kk = (1.0 + math.cos(i.rad())) / 2.0
    if abs(k - kk) > 1e-12:
        out.append(("phase_fraction", "illuminated_fraction%r = %r but (1 + cos i)/2 = %r (i = %r)"
                    % ((r, d, R), k, kk, i._deg), abs(k - kk)))
    if not (-1e-12 <= k <= 1 + 1e-12):
        out.append(("fraction_range", "illuminated_fraction%r = %r" % ((r, d, R), k), None))
    # geometry: law of cosines at the body
    ci = (r * r + d * d - R * R) / (2 * r * d)
    if abs(math.cos(i.rad()) - ci) > 1e-12:
        out.append(("phase_geometry", "phase_angle%r = %r, law of cosines gives %r"
                    % ((r, d, R), i._deg, math.degrees(math.acos(max(-1, min(1, ci))))), None))
    return out


def phase_cases():
    out = []
    for r in DISTS:
        for d in DISTS:
            for R in DISTS:
                if abs(r - d) < R < r + d:
                    out.append({"r": r, "delta": d, "R": R})
    # aligned and nearly aligned bodies: inferior conjunction (delta = R - r, phase angle 180, dark),
    # opposition (delta = r - R) and superior conjunction (delta = r + R): phase angle 0, fully lit
    for r in DISTS + [0.25, 0.75]:
        for R in (1.0, 0.72, 5.2):
            if r == R:
                continue
            for d in (abs(R - r), r + R):
                for f in (1.0, 1.0 + 1e-9, 1.0 - 1e-9, 1.0 + 1e-6, 1.0 - 1e-6, 1.001, 0.999):
                    dd = d * f
                    if abs(r - dd) <= R <= r + dd:
                        out.append({"r": r, "delta": dd, "R": R})
    return out


def run_phase(block, ctx):
    for case in block:
        ctx.evals += 1
        res = check_phase(case)
        for site, msg, dev in res:
            ctx.viol(case, msg, dev=dev, site=site)
        if case["r"] ** 2 + case["delta"] ** 2 < case["R"] ** 2:
            ctx.nt_count += 1      # obtuse phase angle
        ctx.outcome(len(res))
    ctx.sample(block[0])


# -- node passages ------------------------------------------------------------------

OMEGAS = [0.0, 30.0, 111.84644, 154.9103, 180.0, 195.0, 270.0, 359.0, 1e-6, 179.999999]
T0 = 2451545.0 + 123.25


def check_node_elliptic(case):
    w, e, a, asc = case["omega"], case["e"], case["a"], case["ascending"]
    try:
        wa = Angle(w)
        t0 = Epoch(T0)
        tt, r = passage_nodes_elliptic(wa, e, a, t0, ascending=asc)
    except Exception as ex:
        return [("exception", "passage_nodes_elliptic%r raised %r" % ((w, e, a, asc), ex), None)]
    out = []
    if not isinstance(tt, Epoch) or not isinstance(r, float):
        return [("type", "passage_nodes_elliptic returned %r" % ((tt, r),), None)]
    if wa._deg != w or t0.jde() != Epoch(T0).jde():
        out.append(("mutation", "passage_nodes_elliptic modified its arguments", None))
    n = 0.9856076686 / (a * math.sqrt(a))
    period = 360.0 / n
    dt = tt.jde() - t0.jde()
    if abs(dt) > period / 2.0 * (1 + 1e-9) + 1e-6:
        out.append(("node_nearest", "node passage %r days from perihelion, more than half a period %r"
                    % (dt, period), abs(dt)))
    M = n * dt
    try:
        EE, v = kepler_equation(e, Angle(M))
    except Exception as ex:
        return out + [("exception", "kepler_equation(%r, %r) raised %r" % (e, M, ex), None)]
    target = (-w) if asc else (180.0 - w)
    dv = abs((v._deg - target + 180.0) % 360.0 - 180.0)
    # d v / d M grows like (1+e)^2/(1-e^2)^1.5 near perihelion: Kepler solver tolerance 1e-10 rad
    amp = (1.0 + e) ** 2 / (1.0 - e * e) ** 1.5
    if dv > 1e-6 * max(1.0, amp * 1e-2):
        out.append(("node_anomaly", "passage_nodes_elliptic(omega=%r, e=%r, a=%r, ascending=%r): at the returned "
                    "time the true anomaly is %r, expected %r" % (w, e, a, asc, v._deg, target % 360), dv))
    rr = a * (1.0 - e * math.cos(EE.rad()))
    vt = math.radians(target)
    r_exp = a * (1.0 - e * e) / (1.0 + e * math.cos(vt))
    if abs(r - r_exp) > 1e-9 * r_exp and math.isfinite(r_exp):
        out.append(("node_radius", "passage_nodes_elliptic(omega=%r, e=%r, a=%r, %r): r = %r, conic gives %r"
                    % (w, e, a, asc, r, r_exp), abs(r - r_exp) / r_exp))
    return out


def check_node_parabolic(case):
    w, q, asc = case["omega"], case["q"], case["ascending"]
    target = (-w) if asc else (180.0 - w)
    if abs((target + 180.0) % 360.0 - 180.0) > 179.99:
        return []       # that node of a parabola lies at infinity
    try:
        tt, r = passage_nodes_parabolic(Angle(w), q, Epoch(T0), ascending=asc)
    except Exception as ex:
        return [("exception", "passage_nodes_parabolic%r raised %r" % ((w, q, asc), ex), None)]
    out = []
    target = (-w) if asc else (180.0 - w)
    if abs((target + 180.0) % 360.0 - 180.0) > 179.99:
        return out      # node at infinity on a parabola
    dt = tt.jde() - T0
    W = dt / (27.403895 * q * math.sqrt(q))
    # Barker: s^3 + 3 s - W = 0, solved by Newton from the asymptotic guess
    s = W / 3.0 if abs(W) < 1 else math.copysign(abs(W) ** (1.0 / 3.0), W)
    for _ in range(100):
        f = s * s * s + 3.0 * s - W
        s -= f / (3.0 * s * s + 3.0)
    v = math.degrees(2.0 * math.atan(s))
    dv = abs((v - target + 180.0) % 360.0 - 180.0)
    if dv > 1e-6:
        out.append(("node_anomaly_parabolic", "passage_nodes_parabolic(omega=%r, q=%r, %r): Barker's equation "
                    "at the returned time gives v = %r, expected %r" % (w, q, asc, v, target), dv))
    r_exp = q * (1.0 + s * s)
    if abs(r - r_exp) > 1e-9 * r_exp:
        out.append(("node_radius_parabolic", "r = %r, parabola gives %r" % (r, r_exp), abs(r - r_exp) / r_exp))
    return out


def node_cases():
    out = []
    for w in OMEGAS:
        for asc in (True, False):
            for e in (0.0, 1e-9, 1e-8, 1e-7, 5e-7, 9.99e-7, 1e-6, 1e-5, 1e-3, 0.0167, 0.1, 0.5, 0.8502196, 0.9, 0.95,
                      0.98, 0.999):
                for a in (0.3, 1.0, 17.9400782):
                    out.append({"kind": "elliptic", "omega": w, "e": e, "a": a, "ascending": asc})
            for q in (0.1, 0.5871018, 1.0, 1.324502, 30.0):
                out.append({"kind": "parabolic", "omega": w, "q": q, "ascending": asc})
    # nodes exactly at r = a (cos v = -e, where a formula for E written with cos E in a denominator has to decide
    # a quadrant): eccentricity taken from a round angle, argument of perihelion that angle and its reflections
    for wdeg in range(95, 270, 5):
        e = abs(math.cos(math.radians(float(wdeg))))
        if not (0.0 < e < 0.999):
            continue
        for w in (float(wdeg), 360.0 - wdeg, (wdeg + 180.0) % 360.0, (180.0 - wdeg) % 360.0):
            for asc in (True, False):
                out.append({"kind": "elliptic", "omega": w, "e": e, "a": 1.0, "ascending": asc})
    return out


def check_node(case):
    return check_node_elliptic(case) if case["kind"] == "elliptic" else check_node_parabolic(case)


def run_nodes(block, ctx):
    for case in block:
        ctx.evals += 1
        ctx.nt_count += 1
        res = check_node(case)
        for site, msg, dev in res:
            ctx.viol(case, msg, dev=dev, site=site)
            ctx.maxi(site, dev)
        ctx.outcome((case["kind"], case["omega"], len(res)))
    ctx.sample(block[0])


def clauses(tier):
    ms = anomalies(tier)
    kshards = []
    eccs = ECCS if tier != "thorough" else sorted(set(ECCS + [k / 50.0 for k in range(50)] + [0.9499999, 0.9500001]))
    for e in eccs:
        for blk in chunks(ms, 4 if tier == "thorough" else 2):
            kshards.append((e, blk))
    LN = 12000000 if tier == "thorough" else 2400000
    orbit = [{"e": e, "a": a} for e in ECC_V for a in AXES]
    return [
        Clause("kepler", kshards, run_kepler, lambda c: [m for _, m, _ in check_kepler(c["e"], c["M"])],
               floor=1000),
        Clause("kepler_dense", dense_shards(tier), run_dense, lambda c: [m for _, m, _ in check_kepler(c["e"], c["M"])],
               floor=100000),
        Clause("kepler_quadrants", chunks(quadrant_cases(), 32), run_quadrants,
               lambda c: [m for _, m, _ in check_kepler(c["e"], c["M"])], floor=1000),
        Clause("kepler_latus_rectum", [(k, min(k + LN // 400, LN), LN) for k in range(0, LN, LN // 400)], run_latus,
               lambda c: [m for _, m, _ in check_kepler(c["e"], c["M"])], floor=1000000),
        Clause("kepler_sequence", chunks([{"e": e, "M": m, "d": d, "de": de} for e in ECCS for m in SEQ_M
                                          for d in SEQ_D for de in SEQ_DE], 16), run_kepler_seq,
               lambda c: [m for _, m, _ in check_kepler_seq(c)], floor=1000, shape="H"),
        Clause("orbit", [orbit], run_orbit, lambda c: [m for _, m, _ in check_orbit(c)], floor=10),
        Clause("phase", [phase_cases()], run_phase, lambda c: [m for _, m, _ in check_phase(c)], floor=5),
        Clause("nodes", chunks(node_cases(), 8), run_nodes, lambda c: [m for _, m, _ in check_node(c)],
               floor=100),
    ]
