"""C09 - geocentric positions match the library's own heliocentric vectors (L)."""
import importlib
import math

from ..engine import Clause, chunks
from ..ref import sphere as S
from ..ref import twobody as TB

from pymeeus.Angle import Angle
from pymeeus.Epoch import Epoch
from pymeeus.Coordinates import mean_obliquity, true_obliquity, ecliptical2equatorial
from pymeeus.Sun import Sun
from pymeeus.Earth import Earth
from pymeeus.Pluto import Pluto
from pymeeus.Minor import Minor

PROPERTY = "C09"
LEVEL = "exploration"
RULE = ("7 planets x epoch lattice (quick: every 100th year -2000..4000 x 3 phases; thorough: every "
        "5th year x 12 phases); Pluto every 30 days 1885..2099; minor bodies: full product 5 perihelion "
        "distances x 11 eccentricities (0..1.0 incl. 0.98 -+ 1e-7) x 4 orientations x 13 times from "
        "perihelion (0, +-1e-11, ... +-18262 d); non-trivial = outer planet (light time > 30 min), "
        "eccentricity >= 0.98, or |t - T| <= 0.5 d")
ASSUMPTIONS = ["oracle direction: Earth vector at t and body vector at t - tau (3-4 light-time "
               "iterations) from the library's own heliocentric functions; for minor bodies an independent "
               "two-body solution (bisection Kepler / Barker)",
               "Sun's apparent direction from Sun.apparent_geocentric_position + true obliquity"]
PLANETS = ["Mercury", "Venus", "Mars", "Jupiter", "Saturn", "Uranus", "Neptune"]
ELONG_MAX = {"Mercury": 28.5, "Venus": 48.0}
J2000 = 2451545.0
_MOD = {}


def bound(tier):
    return "epoch lattice / orbit lattice as in the rule"


def planet(nm):
    if nm not in _MOD:
        _MOD[nm] = getattr(importlib.import_module("pymeeus." + nm), nm)
    return _MOD[nm]


def y2jde(y):
    return J2000 + (y - 2000.0) * 365.25


def vec_r(lon, lat, r):
    return (r * math.cos(lat) * math.cos(lon), r * math.cos(lat) * math.sin(lon), r * math.sin(lat))


def sun_vector_j2000(e):
    """Equatorial FK5 J2000 rectangular coordinates of the Sun built by the harness from the library's
    J2000 heliocentric position of the Earth (spherical -> rectangular with the cos(latitude) factor,
    then Meeus' (26.3) matrix) - independent of Sun.rectangular_coordinates_j2000."""
    lon, lat, r = Earth.geometric_heliocentric_position_j2000(e)
    l, b = lon.rad() + math.pi, -lat.rad()
    x = r * math.cos(b) * math.cos(l)
    y = r * math.cos(b) * math.sin(l)
    z = r * math.sin(b)
    return (x + 0.000000440360 * y - 0.000000190919 * z,
            -0.000000479966 * x + 0.917482137087 * y - 0.397776982902 * z,
            0.397776982902 * y + 0.917482137087 * z)


def check_planet(nm, j):
    P = planet(nm)
    out = []
    e = Epoch(j)
    j0 = e.jde()
    try:
        res = P.geocentric_position(e)
        ra, dec, elon = res
    except Exception as ex:
        return [("exception", "%s.geocentric_position at JDE %r raised %r" % (nm, j, ex), None)]
    if e.jde() != j0:
        out.append(("epoch_shifted", "%s.geocentric_position shifted the caller's Epoch by %r days"
                    % (nm, e.jde() - j0), abs(e.jde() - j0)))
    if not all(isinstance(x, Angle) for x in (ra, dec, elon)):
        return out + [("type", "%s.geocentric_position returned %r" % (nm, res), None)]
    e = Epoch(j)
    l0, b0, r0 = Earth.geometric_heliocentric_position(e, tofk5=False)
    E0 = vec_r(l0.rad(), b0.rad(), r0)
    tau = 0.0
    for _ in range(3):
        l, b, r = P.geometric_heliocentric_position(e - tau, tofk5=False)
        Pv = vec_r(l.rad(), b.rad(), r)
        d = [p - q for p, q in zip(Pv, E0)]
        tau = 0.0057755183 * math.sqrt(sum(c * c for c in d))
    lam = math.atan2(d[1], d[0])
    bet = math.atan2(d[2], math.hypot(d[0], d[1]))
    ra2, dec2 = ecliptical2equatorial(Angle(lam, radians=True), Angle(bet, radians=True), mean_obliquity(e))
    s = S.sep_ll(ra._deg, dec._deg, ra2._deg, dec2._deg)
    if s > 0.02:
        out.append(("direction", "%s (ra, dec) = (%r, %r) is %.4f deg from the Earth->planet vector at JDE %r"
                    % (nm, ra._deg, dec._deg, s, j), s))
    if not (0.0 <= ra._deg < 360.0) or not (-90.0 <= dec._deg <= 90.0):
        out.append(("range", "%s (ra, dec) = (%r, %r) out of range" % (nm, ra._deg, dec._deg), None))
    sl, sb, sr = Sun.apparent_geocentric_position(e)
    sra, sdec = ecliptical2equatorial(sl, sb, true_obliquity(e))
    el2 = S.sep_ll(ra._deg, dec._deg, sra._deg, sdec._deg)
    dv = abs(elon._deg - el2)
    if dv > 0.02:
        out.append(("elongation", "%s elongation %r, angle to the Sun's apparent direction at the same epoch %r "
                    "(JDE %r)" % (nm, elon._deg, el2, j), dv))
    if not (0.0 <= elon._deg <= 180.0):
        out.append(("elongation_range", "%s elongation %r outside [0, 180]" % (nm, elon._deg), None))
    if nm in ELONG_MAX and elon._deg > ELONG_MAX[nm]:
        out.append(("elongation_max", "%s elongation %r exceeds %r at JDE %r" % (nm, elon._deg, ELONG_MAX[nm], j),
                    elon._deg))
    return out


def run_planets(block, ctx):
    nm, js = block
    for j in js:
        ctx.evals += 1
        res = check_planet(nm, j)
        for site, msg, dev in res:
            ctx.viol({"planet": nm, "jde": j}, msg, dev=dev, site=site)
            ctx.maxi(nm + "_" + site, dev)
        if nm in ("Jupiter", "Saturn", "Uranus", "Neptune"):
            ctx.nt_count += 1
        ctx.obs(nm, j, len(res))
    ctx.outcome((nm, len(js)))
    ctx.sample({"planet": nm, "jde": js[0]})


# -- Pluto --------------------------------------------------------------------------------

def pluto_vec(e):
    l, b, r = Pluto.geometric_heliocentric_position(e)
    l, b = l.rad(), b.rad()
    x = r * math.cos(l) * math.cos(b)
    y = r * (math.sin(l) * math.cos(b) * TB.CE - math.sin(b) * TB.SE)
    z = r * (math.sin(l) * math.cos(b) * TB.SE + math.sin(b) * TB.CE)
    return x, y, z


def check_pluto(j):
    e = Epoch(j)
    j0 = e.jde()
    try:
        ra, dec = Pluto.geocentric_position(e)
    except Exception as ex:
        return [("pluto_exception", "Pluto.geocentric_position at JDE %r raised %r" % (j, ex), None)]
    out = []
    if e.jde() != j0:
        out.append(("epoch_shifted", "Pluto.geocentric_position shifted the caller's Epoch", None))
    xs, ys, zs = sun_vector_j2000(e)
    tau = 0.0
    for _ in range(3):
        x, y, z = pluto_vec(e - tau)
        G = (x + xs, y + ys, z + zs)
        tau = 0.0057755183 * math.sqrt(sum(c * c for c in G))
    gl, gb = S.lonlat(G)
    s = S.sep_ll(ra._deg, dec._deg, gl, gb)
    if s > 1e-4:
        out.append(("pluto_direction", "Pluto (ra, dec) = (%r, %r) is %.3g deg from the Earth->Pluto vector at JDE %r"
                    % (ra._deg, dec._deg, s, j), s))
    if not (0.0 <= ra._deg < 360.0):
        out.append(("range", "Pluto right ascension %r" % ra._deg, None))
    return out


def run_pluto(block, ctx):
    for j in block:
        ctx.evals += 1
        ctx.nt_count += 1
        for site, msg, dev in check_pluto(j):
            ctx.viol({"jde": j}, msg, dev=dev, site=site)
            ctx.maxi(site, dev)
    # range ends must be refused
    ctx.outcome(len(block))
    ctx.sample({"jde": block[0]})


def check_pluto_range(case):
    out = []
    for y, ok in ((1884.9, False), (1885.01, True), (2098.99, True), (2099.1, False)):
        e = Epoch(y2jde(y))
        for fn in (Pluto.geocentric_position, Pluto.geometric_heliocentric_position):
            try:
                fn(e)
                if not ok:
                    out.append("Pluto.%s accepted year %r (range 1885-2099)" % (fn.__name__, y))
            except ValueError:
                if ok:
                    out.append("Pluto.%s refused year %r" % (fn.__name__, y))
            except Exception as ex:
                out.append("Pluto.%s raised %r for year %r" % (fn.__name__, ex, y))
    return out


# -- minor bodies -----------------------------------------------------------------------------

QS = [0.1, 0.5871018, 1.0, 3.363943, 30.0]
ES = [0.0, 0.1, 0.5, 0.8502196, 0.9672746, 0.9799999, 0.98, 0.9800001, 0.99, 0.999, 1.0]
ORIENT = [(0.0, 0.0, 0.0), (11.94524, 334.75006, 186.23352), (90.0, 120.0, 270.0), (162.0, 58.0, 112.0)]
DTS = [0.0, 1e-11, -1e-11, 0.5, -0.5, 20.0, -20.0, 300.0, -300.0, 5000.0, -5000.0, 18262.0, -18262.0]
T_PERI = (1998, 4, 14.4358)


def check_minor(case):
    q, ecc, (i, node, w), dt = case["q"], case["e"], case["orient"], case["dt"]
    tp = tuple(case.get("T", T_PERI))
    T = Epoch(*tp)
    out = []
    try:
        args = (q, ecc, Angle(i), Angle(node), Angle(w), T)
        mb = Minor(*args)
        ep = T + dt
        j0 = ep.jde()
        ra, dec, el = mb.geocentric_position(ep)
    except Exception as ex:
        return [("minor_exception", "Minor(q=%r, e=%r, i=%r).geocentric_position at T%+g d raised %r"
                 % (q, ecc, i, dt, ex), None)]
    if ep.jde() != j0 or T.jde() != Epoch(*tp).jde() or args[2]._deg != i:
        out.append(("epoch_shifted", "Minor.geocentric_position modified its arguments", None))
    xs, ys, zs = sun_vector_j2000(ep)
    tau = 0.0
    for _ in range(4):
        H = TB.helio_equ(q, ecc, i, node, w, dt - tau)
        G = (H[0] + xs, H[1] + ys, H[2] + zs)
        tau = 0.0057755183 * math.sqrt(sum(c * c for c in G))
    gl, gb = S.lonlat(G)
    s = S.sep_ll(ra._deg, dec._deg, gl, gb)
    if s > 1e-4:
        out.append(("minor_direction", "Minor(q=%r, e=%r, i=%r) at T%+g d: (ra, dec) = (%r, %r) is %.3g deg from the "
                    "two-body direction" % (q, ecc, i, dt, ra._deg, dec._deg, s), s))
    sun_l, sun_b = S.lonlat((xs, ys, zs))
    el2 = S.sep_ll(ra._deg, dec._deg, sun_l, sun_b)
    if abs(el._deg - el2) > 0.02 or not (0.0 <= el._deg <= 180.0):
        out.append(("minor_elongation", "Minor(q=%r, e=%r) at T%+g d: elongation %r, angle to the Sun %r"
                    % (q, ecc, dt, el._deg, el2), abs(el._deg - el2)))
    return out


def minor_cases():
    return [{"q": q, "e": e, "orient": list(o), "dt": dt} for q in QS for e in ES for o in ORIENT for dt in DTS]


def check_minor_continuity(case):
    """(ra, dec) continuous across the regime switches e = 0.98 and e -> 1."""
    q, o, dt = case["q"], case["orient"], case["dt"]
    T = Epoch(*T_PERI)
    out = []
    for e_lo, e_hi, name in ((0.9799999, 0.9800001, "0.98"), (0.9999999, 1.0, "1.0")):
        try:
            p = []
            for ecc in (e_lo, e_hi):
                mb = Minor(q, ecc, Angle(o[0]), Angle(o[1]), Angle(o[2]), T)
                ra, dec, el = mb.geocentric_position(T + dt)
                p.append((ra._deg, dec._deg))
            s = S.sep_ll(p[0][0], p[0][1], p[1][0], p[1][1])
            # the orbits themselves differ by O(de): allow the two-body difference plus 1e-4
            H0 = TB.helio_equ(q, e_lo, o[0], o[1], o[2], dt)
            H1 = TB.helio_equ(q, e_hi, o[0], o[1], o[2], dt)
            xs, ys, zs = sun_vector_j2000(T + dt)
            g0 = S.lonlat((H0[0] + xs, H0[1] + ys, H0[2] + zs))
            g1 = S.lonlat((H1[0] + xs, H1[1] + ys, H1[2] + zs))
            nat = S.sep_ll(g0[0], g0[1], g1[0], g1[1])
            if s > nat + 2e-4:
                out.append(("minor_continuity", "direction jumps %.3g deg across e = %s (two-body change %.3g) for q=%r, "
                            "T%+g d" % (s, name, nat, q, dt), s))
        except Exception as ex:
            out.append(("minor_exception", "continuity probe across e = %s raised %r (q=%r, dt=%r)" % (name, ex, q, dt),
                        None))
    return out


def run_minor(block, ctx):
    for case in block:
        ctx.evals += 1
        res = check_minor(case)
        for site, msg, dev in res:
            vc = {"q": case["q"], "e": case["e"], "i": case["orient"][0], "node": case["orient"][1],
                  "w": case["orient"][2], "dt": case["dt"], "orient": case["orient"]}
            if "T" in case:
                vc["T"] = case["T"]
            ctx.viol(vc, msg, dev=dev, site=site)
            ctx.maxi(site, dev)
        if case["e"] >= 0.98 or abs(case["dt"]) <= 0.5 or "revolutions" in case:
            ctx.nt_count += 1
        ctx.outcome((case["e"], len(res)))
        ctx.obs(case, len(res))
    ctx.sample(block[0])


def run_minor_cont(block, ctx):
    for case in block:
        ctx.evals += 4
        ctx.nt_count += 1
        for site, msg, dev in check_minor_continuity(case):
            ctx.viol({"q": case["q"], "e": 0.98, "i": case["orient"][0], "dt": case["dt"],
                      "orient": case["orient"]}, msg, dev=dev, site=site)
    ctx.outcome(len(block))
    ctx.sample(block[0])


# -- close approaches: perihelion on the Sun-Earth line, just outside the Earth ---------------------

CLOSE_T = [(1998, 4, 14.4358), (2005, 1, 3.0), (2013, 7, 5.5), (2029, 10, 1.25)]
CLOSE_GAP = [0.002, 0.01, 0.03, 0.08, 0.2]
CLOSE_E = [0.0, 0.3, 0.985, 1.0]
CLOSE_DT = [0.0, 0.5, -0.5, 3.0, -3.0]


def close_cases():
    """Orbits whose perihelion lies on the Sun-Earth line of the perihelion date, a fraction ``gap``
    of the Earth's distance beyond it (once in the ecliptic, once inclined 30 deg with the
    perihelion at the node): the geocentric distance at dt = 0 is gap * R, down to 0.002 AU."""
    out = []
    for tp in CLOSE_T:
        xs, ys, zs = Sun.rectangular_coordinates_j2000(Epoch(*tp))
        ex, ey, ez = -xs, -ys, -zs
        # equatorial J2000 -> ecliptic J2000
        yy = ey * TB.CE + ez * TB.SE
        lon = math.degrees(math.atan2(yy, ex)) % 360.0
        R = math.sqrt(ex * ex + ey * ey + ez * ez)
        for gap in CLOSE_GAP:
            for ecc in CLOSE_E:
                for orient in ((0.0, 0.0, lon), (30.0, lon, 0.0)):
                    for dt in CLOSE_DT:
                        out.append({"q": R * (1.0 + gap), "e": ecc, "orient": list(orient), "dt": dt,
                                    "T": list(tp), "gap": gap})
    return out


# -- the edge of the region in which the near-parabolic series converges ------------------------------------------

EDGE_ORBITS = [(0.3, 0.985), (0.1, 0.98), (1.0, 0.99), (3.0, 0.995), (0.3, 0.9999)]


def edge_cases():
    """For near-parabolic orbits the library's series stops converging some time before perihelion (finding
    C09-d).  The edge is located by bisection on the series routine itself; the inbound instants 0.05 .. 3 light
    times inside it are where the position for the epoch can be had but the one for the retarded instant cannot:
    the call must either refuse (listed in C09-d/edge) or return the right direction - never the un-retarded one."""
    out = []
    orient = (11.94524, 334.75006, 186.23352)
    for q, ecc in EDGE_ORBITS:
        try:
            mb = Minor(q, ecc, Angle(orient[0]), Angle(orient[1]), Angle(orient[2]), Epoch(*T_PERI))

            def conv(t):
                try:
                    mb._near_parabolic(-t)
                    return True
                except ValueError:
                    return False
            lo, hi = 1.0, 2.0
            while conv(hi) and hi < 1e6:
                lo, hi = hi, hi * 2.0
            if hi >= 1e6 or not conv(lo):
                continue
            while hi - lo > 1e-9 * hi:
                mid = (lo + hi) / 2.0
                if conv(mid):
                    lo = mid
                else:
                    hi = mid
        except Exception:
            continue
        xs, ys, zs = sun_vector_j2000(Epoch(*T_PERI) + (-lo))
        H = TB.helio_equ(q, ecc, orient[0], orient[1], orient[2], -lo)
        tau = 0.0057755183 * math.sqrt((H[0] + xs) ** 2 + (H[1] + ys) ** 2 + (H[2] + zs) ** 2)
        for x in (0.05, 0.3, 0.6, 0.95, 1.05, 1.5, 3.0):
            out.append({"q": q, "e": ecc, "orient": list(orient), "dt": -lo + x * tau, "gap": x, "edge": lo,
                        "light_time": tau})
    return out


def polar_cases():
    """Orbits whose perihelion (reached at the perihelion date) lies, as seen from the Earth, 1e-6 .. 0.7 degree
    from the north or the south celestial pole: the declination formulas near their ends."""
    out = []
    for tp in ((1998, 4, 14.4358), (2013, 7, 5.5)):
        xs, ys, zs = Sun.rectangular_coordinates_j2000(Epoch(*tp))
        E = (-xs, -ys, -zs)
        for dec in (89.3, 89.9, 89.99, 90.0 - 1e-6):
            for sg in (1.0, -1.0):
                for ra in (0.0, 100.0, 250.0):
                    for dist in (0.5, 2.0):
                        d, a = math.radians(sg * dec), math.radians(ra)
                        n = (math.cos(d) * math.cos(a), math.cos(d) * math.sin(a), math.sin(d))
                        Pq = [E[k] + dist * n[k] for k in range(3)]
                        # equatorial J2000 -> ecliptic J2000
                        x, y, z = Pq[0], Pq[1] * TB.CE + Pq[2] * TB.SE, -Pq[1] * TB.SE + Pq[2] * TB.CE
                        q = math.sqrt(x * x + y * y + z * z)
                        L = math.degrees(math.atan2(y, x)) % 360.0
                        B = math.degrees(math.asin(z / q))
                        orient = (abs(B), (L - 90.0) % 360.0, 90.0) if B >= 0 else (abs(B), (L + 90.0) % 360.0, 270.0)
                        for ecc in (0.3, 0.985, 1.0):
                            for dt in (0.0, 0.5, -0.5):
                                out.append({"q": q, "e": ecc, "orient": list(orient), "dt": dt, "T": list(tp),
                                            "gap": dist, "target_dec": sg * dec})
    return out


# -- one Minor object and one Epoch object re-used over a history ------------------------------------

H_ORBITS = {"A": (2.2091404, 0.8502196, 11.94524, 334.75006, 186.23352),      # Encke-like
            "B": (0.5871018, 0.9672746, 162.0, 58.0, 112.0),                  # Halley-like
            "C": (1.0, 1.0, 90.0, 120.0, 270.0),                              # parabola
            "D": (3.363943, 0.1, 0.0, 0.0, 0.0)}
H_EPOCHS = {"t1": (1990, 10, 6.0), "t2": (1998, 8, 5.0), "t3": (2011, 3, 1.5)}
H_OPS = ["set:A", "set:B", "set:C", "set:D", "ep:t1", "ep:t2", "ep:t3", "new_body", "new_epoch", "other:B", "other:D",
         "other_set:C"]


def _h_direct(o, t):
    """Two-body + library Earth oracle for orbit o at date t (independent of any library state)."""
    q, ecc, i, node, w = H_ORBITS[o]
    ep = Epoch(*H_EPOCHS[t])
    dt = ep.jde() - Epoch(*T_PERI).jde()
    xs, ys, zs = sun_vector_j2000(ep)
    tau = 0.0
    for _ in range(4):
        H = TB.helio_equ(q, ecc, i, node, w, dt - tau)
        G = (H[0] + xs, H[1] + ys, H[2] + zs)
        tau = 0.0057755183 * math.sqrt(sum(c * c for c in G))
    return S.lonlat(G)


def check_minor_history(hist):
    """Apply the operations to ONE Minor and ONE Epoch (re-set in place, or replaced by new
    objects); after every operation the position must be the two-body direction of the current
    (orbit, date), whatever orbit or date the objects held before."""
    out = []
    T = Epoch(*T_PERI)

    def mk(o):
        q, ecc, i, node, w = H_ORBITS[o]
        return Minor(q, ecc, Angle(i), Angle(node), Angle(w), T)
    cur_o, cur_t = "A", "t1"
    body = mk(cur_o)
    ep = Epoch(*H_EPOCHS[cur_t])
    body.geocentric_position(ep)
    others = []                 # other Minor objects kept alive next to the one under test
    for k, op in enumerate(hist):
        kind, _, arg = op.partition(":")
        try:
            if kind == "set":
                q, ecc, i, node, w = H_ORBITS[arg]
                body.set(q, ecc, Angle(i), Angle(node), Angle(w), T)
                cur_o = arg
            elif kind == "ep":
                ep.set(*H_EPOCHS[arg])
                cur_t = arg
            elif kind == "new_body":
                body = mk(cur_o)
            elif kind == "other":
                # a second body is created (and queried) while the first stays in use
                others.append(mk(arg))
                others[-1].geocentric_position(Epoch(*H_EPOCHS["t2"]))
            elif kind == "other_set":
                if not others:
                    others.append(mk("A"))
                q_, e_, i_, n_, w_ = H_ORBITS[arg]
                others[-1].set(q_, e_, Angle(i_), Angle(n_), Angle(w_), T)
            elif kind == "new_epoch":
                ep = Epoch(*H_EPOCHS[cur_t])
            ra, dec, el = body.geocentric_position(ep)
        except Exception as ex:
            out.append(("minor_history", "history %r: operation %d raised %r" % (hist, k, ex), None))
            break
        gl, gb = _h_direct(cur_o, cur_t)
        s = S.sep_ll(ra._deg, dec._deg, gl, gb)
        if s > 1e-4:
            out.append(("minor_history", "after %r the re-used objects (orbit %s, date %s) give a direction %.3g deg "
                        "from the two-body direction" % (list(hist[:k + 1]), cur_o, cur_t, s), s))
            break
    return out


def run_close(block, ctx):
    for case in block:
        ctx.evals += 1
        res = check_minor(case)
        for site, msg, dev in res:
            ctx.viol(dict(case, i=case["orient"][0]), msg, dev=dev, site=site)
        if case["gap"] <= 0.08 or "target_dec" in case or "edge" in case:
            ctx.nt_count += 1
        ctx.outcome((case["e"], case["gap"], len(res)))
        ctx.obs(case, len(res))
    ctx.sample(block[0])


def run_history(block, ctx):
    for hist in block:
        ctx.evals += len(hist) + 1
        ctx.traces += 1
        ctx.transitions += len(hist)
        ctx.nt_count += 1
        res = check_minor_history(hist)
        for site, msg, dev in res:
            ctx.viol({"history": list(hist)}, msg, dev=dev, site=site)
        ctx.outcome((hist[-1], len(res)))
        ctx.obs(hist, len(res))
    ctx.sample({"history": list(block[0])})


# -- one Epoch object re-set in place between planet queries ----------------------------------------

PH_BODIES = PLANETS + ["Pluto"]
PH_DATES = {"t1": (1992, 12, 20.0), "t2": (2018, 10, 27.25), "t3": (2080, 2, 29.5)}
_PH_TABLE = {}


def _ph_query(nm, ep):
    P = Pluto if nm == "Pluto" else planet(nm)
    return tuple(a._deg for a in P.geocentric_position(ep))


def _ph_expected(nm, t):
    """Result for a fresh Epoch object (the 'planets' / 'pluto' clauses hold these to the vectors)."""
    if (nm, t) not in _PH_TABLE:
        _PH_TABLE[(nm, t)] = _ph_query(nm, Epoch(*PH_DATES[t]))
    return _PH_TABLE[(nm, t)]


def check_planet_history(hist):
    """hist = ((date, body), ...): ONE Epoch object is re-set to each date in turn and handed to that
    body's geocentric_position; each answer must be the answer for a fresh Epoch of that date."""
    for t in PH_DATES:
        for nm in PH_BODIES:
            _ph_expected(nm, t)
    out = []
    ep = Epoch(2000, 1, 1.5)
    for k, (t, nm) in enumerate(hist):
        try:
            ep.set(*PH_DATES[t])
            got = _ph_query(nm, ep)
        except Exception as ex:
            out.append(("planet_history", "history %r: step %d raised %r" % (hist, k, ex), None))
            break
        exp = _ph_expected(nm, t)
        dev = max(abs(a - b) for a, b in zip(got, exp))
        if dev > 1e-9:
            out.append(("planet_history", "after %r: %s at %s with the re-used Epoch gives %r, with a fresh Epoch %r"
                        % (list(hist[:k + 1]), nm, t, got, exp), dev))
            break
        if abs(ep.jde() - Epoch(*PH_DATES[t]).jde()) > 0:
            out.append(("planet_history", "after %r the caller's Epoch has moved" % (list(hist[:k + 1]),), None))
            break
    return out


def run_planet_history(block, ctx):
    for hist in block:
        ctx.evals += len(hist)
        ctx.traces += 1
        ctx.transitions += len(hist)
        ctx.nt_count += 1
        res = check_planet_history(hist)
        for site, msg, dev in res:
            ctx.viol({"history": [list(h) for h in hist]}, msg, dev=dev, site=site)
        ctx.outcome((hist[-1], len(res)))
        ctx.obs(hist, len(res))
    ctx.sample({"history": [list(h) for h in block[0]]})


CLOSE_SEQ_STEP = 2.0 / 86400.0      # two seconds


def check_close_sequence(case):
    """A body 0.002 / 0.01 R from the Earth is queried at eight instants two seconds apart (forwards and
    backwards): at that distance the Earth's motion in two seconds (60 km) is 0.01 degree, so an Earth
    or Sun vector remembered from the previous instant shows at once."""
    out = []
    for direction in (1.0, -1.0):
        for k in range(8):
            c = dict(case)
            c["dt"] = case["dt"] + direction * k * CLOSE_SEQ_STEP
            out += [(s_, "call %d of a sequence 2 s apart: %s" % (k, m), d) for s_, m, d in check_minor(c)]
            if out:
                return out
    return out


def run_close_seq(block, ctx):
    for case in block:
        ctx.evals += 16
        ctx.traces += 2
        ctx.nt_count += 1
        res = check_close_sequence(case)
        for site, msg, dev in res:
            ctx.viol(dict(case, i=case["orient"][0]), msg, dev=dev, site="sequence_" + site)
        ctx.outcome((case["e"], case["gap"], len(res)))
    ctx.sample(block[0])


# -- thorough: dense sweep of the hardest elliptic band (just below the near-parabolic switch) ---------------

BAND_E = [0.9720 + 0.0004 * k for k in range(20)] + [0.90, 0.95, 0.9799999]
BAND_M_STEP = 2e-4      # degrees of mean anomaly
BAND_M_MAX = 25.0


def run_kepler_band(spec, ctx):
    """spec = (e, m_lo, m_hi): every mean anomaly of the grid in [m_lo, m_hi) for a body with q = 1 AU;
    any iteration scheme for Kepler's equation is most fragile at high eccentricity a few degrees from
    perihelion, and a failure there need not sit on any round value."""
    ecc, m_lo, m_hi = spec
    a = 1.0 / (1.0 - ecc)
    n = 0.9856076686 / (a * math.sqrt(a))
    k0, k1 = int(round(m_lo / BAND_M_STEP)), int(round(m_hi / BAND_M_STEP))
    nbad = 0
    for k in range(k0, k1):
        dt = (k * BAND_M_STEP) / n
        case = {"q": 1.0, "e": ecc, "orient": [11.94524, 334.75006, 186.23352], "dt": dt}
        ctx.evals += 1
        res = check_minor(case)
        for site, msg, dev in res:
            nbad += 1
            ctx.viol({"q": 1.0, "e": ecc, "i": 11.94524, "node": 334.75006, "w": 186.23352, "dt": dt,
                      "orient": case["orient"]}, msg, dev=dev, site=site)
    ctx.nt_count += k1 - k0
    ctx.outcome((ecc, nbad))
    ctx.obs(spec, nbad)
    ctx.sample({"e": ecc, "mean_anomaly_from": m_lo, "to": m_hi, "step": BAND_M_STEP})


def band_shards():
    out = []
    for ecc in BAND_E:
        m = -BAND_M_MAX
        while m < BAND_M_MAX - 1e-9:
            out.append((ecc, m, m + 2.5))
            m += 2.5
    return out


def run_pluto_range(block, ctx):
    ctx.evals += 8
    ctx.nt_count += 2
    for msg in check_pluto_range({}):
        ctx.viol({}, msg, site="pluto_range")
    ctx.sample({"years": [1884.9, 1885.01, 2098.99, 2099.1]})


# -- minor bodies with perihelion centuries from J2000 (the J2000 latitude of the Earth is large there) ---

FAR_T = [(1000, 1, 10.0), (-500, 7, 1.5), (3200, 10, 20.25), (-1990, 3, 3.0), (3990, 6, 6.0)]


def far_cases():
    return [{"q": q, "e": e, "orient": list(o), "dt": dt, "T": list(tp)}
            for tp in FAR_T for q in (0.85, 1.2) for e in (0.35, 0.985, 1.0) for o in ORIENT[1:3]
            for dt in (-40.0, 0.0, 25.0, 170.0)]


# -- planets at their conjunctions and oppositions (elongation near 0 and 180) ----------------------------

ALIGN_FINDERS = {"Mercury": ["inferior_conjunction", "superior_conjunction"],
                 "Venus": ["inferior_conjunction", "superior_conjunction"],
                 "Mars": ["conjunction", "opposition"], "Jupiter": ["conjunction", "opposition"],
                 "Saturn": ["conjunction", "opposition"], "Uranus": ["conjunction", "opposition"],
                 "Neptune": ["conjunction", "opposition"]}
ALIGN_YEARS = [-1500.3, 0.6, 1000.1, 1995.4, 2002.0, 3500.7]
ALIGN_OFFSETS = [0.0, 0.2, -0.2, 1.0, -1.0, 4.0]


def check_alignment(case):
    """At (and days around) the conjunctions / oppositions returned by the library's own finders the
    reported elongation is the angle between the returned direction and the Sun's apparent direction
    (0.25 degree: the 0.02..0.18 degree offset of the recorded finding C09-a stays below it) and lies
    in [0, 180] - 'acos near alignment' shortcuts go wrong exactly here."""
    nm, fn, y, off = case["planet"], case["finder"], case["year"], case["offset"]
    P = planet(nm)
    out = []
    try:
        t0 = getattr(P, fn)(Epoch(y2jde(y)))
        e = Epoch(t0.jde() + off)
        ra, dec, elon = P.geocentric_position(e)
    except Exception as ex:
        return [("alignment_exception", "%s at %s of year %r %+g d raised %r" % (nm, fn, y, off, ex), None)]
    e = Epoch(t0.jde() + off)
    sl, sb, sr = Sun.apparent_geocentric_position(e)
    sra, sdec = ecliptical2equatorial(sl, sb, true_obliquity(e))
    el2 = S.sep_ll(ra._deg, dec._deg, sra._deg, sdec._deg)
    dv = abs(elon._deg - el2)
    if dv > 0.25 or not (0.0 <= elon._deg <= 180.0):
        out.append(("elongation_alignment", "%s %+g d from its %s (JDE %r): elongation %r, angle to the Sun %r"
                    % (nm, off, fn, e.jde(), elon._deg, el2), dv))
    want_small = fn in ("inferior_conjunction", "superior_conjunction", "conjunction")
    if off == 0.0 and ((want_small and el2 > 12.0) or (not want_small and el2 < 168.0)):
        out.append(("alignment_geometry", "%s at its %s is %r degrees from the Sun" % (nm, fn, el2), el2))
    return out


def alignment_cases():
    return [{"planet": nm, "finder": fn, "year": y, "offset": off} for nm, fl in ALIGN_FINDERS.items() for fn in fl
            for y in ALIGN_YEARS for off in ALIGN_OFFSETS]


def run_alignment(block, ctx):
    for case in block:
        ctx.evals += 2
        ctx.nt_count += 1
        for site, msg, dev in check_alignment(case):
            ctx.viol(case, msg, dev=dev, site=site)
        ctx.outcome((case["planet"], case["finder"]))
    ctx.sample(block[0])


# -- periodic bodies seconds to minutes after a LATER perihelion passage (mean anomaly wraps, light time straddles it) ---

def return_cases():
    """t - T = k P + d for k in {-2, -1, 1, 2, 5} revolutions and d from -1e-3 to +0.02 day: the instant itself lies
    after the k-th return to perihelion while the light-time-retarded instant lies before it (or both just after)."""
    out = []
    for q, e in ((0.5871018, 0.9672746), (2.2091404, 0.8502196 * 0 + 0.5), (0.34, 0.85), (1.0, 0.1)):
        a = q / (1.0 - e)
        P = 365.2568983 * a * math.sqrt(a)
        for o in ORIENT[1:3]:
            for k in (-2, -1, 1, 2, 5):
                for d in (-1e-3, 1e-6, 1e-4, 1e-3, 3e-3, 0.02):
                    out.append({"q": q, "e": e, "orient": list(o), "dt": k * P + d, "revolutions": k})
    return out


def clauses(tier):
    if tier == "thorough":
        js = [y2jde(y) + ph for y in range(-2000, 4000, 5) for ph in (0.0, 31.1, 62.3, 91.3, 121.9, 152.2, 183.7,
                                                                      200.7, 244.4, 274.6, 305.5, 335.8)]
    else:
        js = [y2jde(y) + ph for y in range(-2000, 4000, 100) for ph in (0.0, 91.3, 200.7)]
    pshards = []
    for nm in PLANETS:
        for blk in chunks(js, 32 if tier == "thorough" else 3):
            pshards.append((nm, blk))
    pl = []
    j = Epoch(1885, 1, 5).jde()
    while j < Epoch(2098, 12, 25).jde():
        pl.append(j)
        j += 30.0
    import itertools
    hd = 4 if tier == "thorough" else 3
    hists = [h for d in range(1, hd + 1) for h in itertools.product(H_OPS, repeat=d)]
    steps = [(t, nm) for t in sorted(PH_DATES) for nm in PH_BODIES]
    phists = [h for d in range(1, (3 if tier == "thorough" else 2) + 1) for h in itertools.product(steps, repeat=d)]
    cont = [{"q": q, "orient": list(o), "dt": dt} for q in QS for o in ORIENT[1:3] for dt in (0.5, -20.0, 20.0)]
    return [
        Clause("planets", pshards, run_planets, lambda c: [m for _, m, _ in check_planet(c["planet"], c["jde"])],
               floor=100),
        Clause("planet_alignments", chunks(alignment_cases(), 16), run_alignment,
               lambda c: [m for _, m, _ in check_alignment(c)], floor=200),
        Clause("pluto", chunks(pl, 8), run_pluto, lambda c: [m for _, m, _ in check_pluto(c["jde"])], floor=50),
        Clause("pluto_range", [0], run_pluto_range, check_pluto_range, floor=2),
        Clause("minor", chunks(minor_cases(), 32), run_minor,
               lambda c: [m for _, m, _ in check_minor(c)], floor=500),
        Clause("minor_close_approach", chunks(close_cases(), 16), run_close,
               lambda c: [m for _, m, _ in check_minor(c)], floor=200),
        Clause("minor_polar_directions", chunks(polar_cases(), 16), run_close,
               lambda c: [m for _, m, _ in check_minor(c)], floor=200),
        Clause("minor_convergence_edge", chunks(edge_cases(), 8), run_close,
               lambda c: [m for _, m, _ in check_minor(c)], floor=10),
        Clause("minor_perihelion_returns", chunks(return_cases(), 16), run_minor,
               lambda c: [m for _, m, _ in check_minor(c)], floor=100),
        Clause("minor_far_epochs", chunks(far_cases(), 8), run_minor,
               lambda c: [m for _, m, _ in check_minor(c)], floor=100),
        Clause("minor_close_sequence", chunks([c for c in close_cases() if c["gap"] <= 0.01 and c["dt"] in (0.0, 3.0)], 16),
               run_close_seq, lambda c: [m for _, m, _ in check_close_sequence(c)], floor=50, shape="H"),
        Clause("minor_history", chunks(hists, 16), run_history,
               lambda c: [m for _, m, _ in check_minor_history(tuple(c["history"]))], floor=500, shape="H"),
        Clause("planet_history", chunks(phists, 32), run_planet_history,
               lambda c: [m for _, m, _ in check_planet_history(tuple(tuple(h) for h in c["history"]))],
               floor=500, shape="H"),
    ] + ([Clause("minor_kepler_band", band_shards(), run_kepler_band, lambda c: [m for _, m, _ in check_minor(c)],
                 floor=100000)] if tier == "thorough" else []) + [
        Clause("minor_continuity", chunks(cont, 4), run_minor_cont,
               lambda c: [m for _, m, _ in check_minor_continuity(c)], floor=10),
    ]
