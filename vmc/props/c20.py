"""C20 - calls are side-effect free and total on their documented domain
(shape H: the state graph of module globals + shared argument pool under every
catalogued call must be a single state; call-pair histories; copy independence;
deviation-bounded totality)."""
import datetime
import hashlib
import importlib
import inspect
import itertools
import math
import os
import pickle
import sys

from ..engine import Clause, chunks, within_deviations
from . import c20_specs as SP

import pymeeus
from pymeeus.Angle import Angle
from pymeeus.Epoch import Epoch
from pymeeus.Interpolation import Interpolation
from pymeeus.CurveFitting import CurveFitting
from pymeeus.Earth import Earth, Ellipsoid, IAU76, WGS84
from pymeeus.Minor import Minor

PROPERTY = "C20"
LEVEL = "model_checking"
FRESH_WORKERS = True
RULE = ("catalogue of every public callable (found by introspection; an uncatalogued one fails the "
        "check); state = digest of every module-level object and function default of every pymeeus module "
        "+ digest of the shared argument pool; purity: each call is a transition that must be a self-loop; "
        "histories: for every ordered pair (A, B) the result of B after A equals B alone in a fresh "
        "process; copy constructors: all mutator sequences of length <= 2 on source/copy; totality: all "
        "argument tuples within D deviations (D = 1 quick, 2 thorough) of the in-domain base tuple over "
        "per-parameter alphabets (in-domain alternatives, then ill-typed values and wrong arity); "
        "non-trivial = a pair sharing at least one pooled argument object, a deviating tuple, a mutator history")
ASSUMPTIONS = ["'documented domain' = the hand-written parameter alphabets of vmc/props/c20_specs.py "
               "(base values from the docstring examples)",
               "results are compared through a canonical form (Angle/Epoch by their float, floats by repr)",
               "Epoch.utc2local (wall clock) is catalogued but never called",
               "flags documented as bool accept any object (Python truthiness); they are not probed with "
               "ill-typed values"]
MODS = ["base", "Angle", "Epoch", "Interpolation", "CurveFitting", "Coordinates", "Earth", "Sun", "Moon",
        "Minor", "Pluto", "JupiterMoons", "Mercury", "Venus", "Mars", "Jupiter", "Saturn", "Uranus", "Neptune"]
_M = {}


def bound(tier):
    return ("all ordered pairs of the catalogue; totality within %d deviation(s); copy histories of length <= 2"
            % (2 if tier == "thorough" else 1))


def mod(name):
    if name not in _M:
        _M[name] = importlib.import_module("pymeeus." + name)
    return _M[name]


# ---------------------------------------------------------------------------
# catalogue vs introspection

def introspect():
    out = {}
    for m in MODS:
        M = mod(m)
        for k, v in vars(M).items():
            if inspect.isfunction(v) and v.__module__ == M.__name__ and not k.startswith("_") and k != "main":
                out["%s.%s" % (m, k)] = v
            if inspect.isclass(v) and v.__module__ == M.__name__:
                for kk, vv in vars(v).items():
                    if kk.startswith("_"):
                        continue
                    if isinstance(vv, (staticmethod, classmethod)) or inspect.isfunction(vv):
                        out["%s.%s" % (k, kk)] = getattr(v, kk)
    return out


def resolve(name):
    name = name.split("#")[0]          # "Module.func#variant": a second base tuple of the same callable
    a, b = name.split(".")
    if a in ("base", "Coordinates"):
        return getattr(mod(a), b), False
    modname = {"Ellipsoid": "Earth"}.get(a, a)
    cls = getattr(mod(modname), a)
    raw = vars(cls)[b]
    return getattr(cls, b), not isinstance(raw, (staticmethod, classmethod))


# ---------------------------------------------------------------------------
# materialising tags

FNS = {"sin": math.sin, "x": (lambda x: x), "one": (lambda x: 1.0)}


def mk(tag, pool=None):
    """Build the object for a tag; pooled tags return the shared instance."""
    if isinstance(tag, tuple) and tag and isinstance(tag[0], str):
        k = tag[0]
        if pool is not None and k in ("E", "A", "AL", "AT"):
            key = repr(tag)
            if key not in pool:
                pool[key] = mk(tag, None)
            return pool[key]
        if k == "E":
            e = Epoch()
            e._jde = float(tag[1])
            return Epoch(e) if False else Epoch(tag[1])
        if k == "A":
            return Angle(tag[1])
        if k == "AL":
            return [Angle(v) for v in tag[1]]
        if k == "AT":
            return tuple(Angle(v) for v in tag[1])
        if k == "TAB":
            m, n = tag[1].split(".")
            return getattr(mod(m), n)
        if k == "ELL":
            return {"IAU76": IAU76, "WGS84": WGS84}[tag[1]]
        if k == "FN":
            return FNS[tag[1]]
        if k == "DT":
            return datetime.datetime(*tag[1:])
        if k == "D":
            return datetime.date(*tag[1:])
        if k == "INTERP":
            return Interpolation([27.0, 27.5, 28.0, 28.5, 29.0], [0.91, 0.9068, 0.90427, 0.90238, 0.90112])
        if k == "INTERP2":
            return Interpolation([27.0, 29.0], [0.91, 0.90112])
        if k == "INTERP_ROOT":
            return Interpolation([27.0, 27.5, 28.0, 28.5, 29.0], [-0.6, -0.25, 0.05, 0.3, 0.7])
        if k == "INTERP_MM":
            return Interpolation([27.0, 27.5, 28.0, 28.5, 29.0], [0.5, 0.2, 0.1, 0.25, 0.6])
        if k == "CF":
            return CurveFitting([73.0, 38.0, 35.0, 42.0, 78.0, 68.0, 74.0], [90.4, 125.3, 161.8, 143.4, 52.5, 50.8, 71.5])
        if k == "EARTH":
            return Earth()
        if k == "MINOR":
            return Minor(0.5871018, 0.8502196, Angle(11.94524), Angle(334.75006), Angle(186.23352),
                         Epoch(1990, 10, 28.54502))
    if isinstance(tag, list):
        return list(tag)
    return tag


def canon(x, depth=0):
    """Canonical, comparable form of a result."""
    if isinstance(x, Angle):
        return ("Angle", repr(x._deg))
    if isinstance(x, Epoch):
        return ("Epoch", repr(x._jde))
    if isinstance(x, bool) or x is None or isinstance(x, (int, str)):
        return x
    if isinstance(x, float):
        return repr(x)
    if isinstance(x, complex):
        return ("complex", repr(x))
    if isinstance(x, (tuple, list)):
        return (type(x).__name__,) + tuple(canon(v, depth + 1) for v in x)
    if isinstance(x, dict):
        return ("dict",) + tuple(sorted((repr(k), canon(v, depth + 1)) for k, v in x.items()))
    if hasattr(x, "__dict__") and depth < 4:
        return (type(x).__name__,) + tuple(sorted((k, canon(v, depth + 1)) for k, v in vars(x).items()))
    return ("obj", type(x).__name__)


def all_finite(x):
    if isinstance(x, Angle):
        return math.isfinite(x._deg)
    if isinstance(x, Epoch):
        return isinstance(x._jde, (int, float)) and math.isfinite(x._jde)
    if isinstance(x, float):
        return math.isfinite(x)
    if isinstance(x, complex):
        return False
    if isinstance(x, (tuple, list)):
        return all(all_finite(v) for v in x)
    return True


class CallTimeout(Exception):
    pass


def _alarm(signum, frame):
    raise CallTimeout("call did not return within %d s" % CALL_TIMEOUT)


CALL_TIMEOUT = 20


def do_call(name, spec, argtags, pool, recv_obj=None, kwargs=None):
    """Returns (kind, payload, receiver, arg objects).  A call that does not
    return within CALL_TIMEOUT seconds is reported as a CallTimeout exception."""
    import signal
    fn, is_method = resolve(name)
    args = [mk(t, pool) for t in argtags]
    recv = None
    old = signal.signal(signal.SIGALRM, _alarm)
    signal.alarm(CALL_TIMEOUT)
    try:
        return _do_call(name, spec, fn, is_method, args, pool, recv_obj, kwargs)
    finally:
        signal.alarm(0)
        signal.signal(signal.SIGALRM, old)


def _do_call(name, spec, fn, is_method, args, pool, recv_obj, kwargs):
    recv = None
    try:
        if is_method:
            recv = recv_obj if recv_obj is not None else mk(spec["recv"], None if spec["mutator"] else pool)
            r = getattr(recv, name.split("#")[0].split(".")[1])(*args, **(kwargs or spec["kwargs"]))
        else:
            r = fn(*args, **(kwargs or spec["kwargs"]))
        return "ok", r, recv, args
    except Exception as ex:
        return "exc", ex, recv, args


def digest_value(v):
    try:
        return hashlib.md5(pickle.dumps(v, protocol=4)).hexdigest()
    except Exception:
        return hashlib.md5(repr(canon(v)).encode()).hexdigest()


def global_state():
    """Digest of every module-level object and every function default."""
    h = {}
    for name in MODS + ["__init__"]:
        M = pymeeus if name == "__init__" else mod(name)
        for k, v in vars(M).items():
            if k.startswith("__") or inspect.ismodule(v) or inspect.isclass(v) or inspect.isroutine(v):
                continue
            h["%s.%s" % (name, k)] = digest_value(canon(v) if hasattr(v, "__dict__") else v)
        for k, v in vars(M).items():
            if inspect.isfunction(v) and v.__module__ == M.__name__:
                if v.__defaults__:
                    h["%s.%s.__defaults__" % (name, k)] = digest_value(canon(v.__defaults__))
                if v.__dict__:
                    h["%s.%s.__dict__" % (name, k)] = digest_value(canon(v.__dict__))
            if inspect.isclass(v) and v.__module__ == M.__name__:
                for kk, vv in vars(v).items():
                    f = vv.__func__ if isinstance(vv, (staticmethod, classmethod)) else vv
                    if inspect.isfunction(f):
                        if f.__defaults__:
                            h["%s.%s.%s.__defaults__" % (name, k, kk)] = digest_value(canon(f.__defaults__))
                        if f.__dict__:
                            h["%s.%s.%s.__dict__" % (name, k, kk)] = digest_value(canon(f.__dict__))
                    elif not kk.startswith("__") and not inspect.isroutine(vv):
                        h["%s.%s.%s" % (name, k, kk)] = digest_value(canon(vv))
    return h


def pool_state(pool):
    return dict((k, canon(v)) for k, v in pool.items())


def diff_keys(a, b):
    return sorted(k for k in set(a) | set(b) if a.get(k) != b.get(k))


def base_tags(spec):
    return [p[1] for p in spec["params"]]


# ---------------------------------------------------------------------------
# clause: catalogue completeness

def check_catalogue(_case):
    out = []
    S = SP.specs()
    have = set(n.split("#")[0] for n in S) | set(SP.NOT_CALLED)
    found = introspect()
    for n in sorted(set(found) - have):
        out.append("public callable %s is not in the C20 catalogue" % n)
    for n in sorted(have - set(found)):
        out.append("catalogued callable %s no longer exists" % n)
    for n, spec in S.items():
        if n.split("#")[0] not in found:
            continue
        fn, is_method = resolve(n)
        try:
            sig = inspect.signature(fn)
            npos = len([p for p in sig.parameters.values() if p.kind in (p.POSITIONAL_ONLY, p.POSITIONAL_OR_KEYWORD)])
            if is_method:
                npos -= 1
            var = any(p.kind == p.VAR_POSITIONAL for p in sig.parameters.values())
            if not var and len(spec["params"]) != npos:
                out.append("%s takes %d positional parameters, catalogue has %d" % (n, npos, len(spec["params"])))
        except (TypeError, ValueError):
            pass
    return out


def run_catalogue(_, ctx):
    msgs = check_catalogue({})
    S = SP.specs()
    ctx.evals += len(S)
    ctx.nt_count += len(S)
    ctx.states += 1
    ctx.transitions += len(S)
    for m in msgs:
        ctx.viol({}, m, site="catalogue")
    ctx.outcome(len(S))
    ctx.sample({"catalogued": len(S), "not_called": sorted(SP.NOT_CALLED)})


# ---------------------------------------------------------------------------
# clause: purity (state graph must be one state) + in-domain base call is total

def check_purity(case):
    name = case["callable"]
    S = SP.specs()
    spec = S[name]
    out = []
    pool = {}
    # pre-materialise the pool so that creation is not counted as a change
    for t in base_tags(spec):
        mk(t, pool)
    if spec["recv"] is not None and not spec["mutator"]:
        mk(spec["recv"], pool)
    g0 = global_state()
    p0 = pool_state(pool)
    kind, r, recv, args = do_call(name, spec, base_tags(spec), pool)
    g1 = global_state()
    p1 = pool_state(pool)
    if kind == "exc":
        out.append(("base_call", "%s%r raised %r on its in-domain base arguments" % (name, tuple(base_tags(spec)), r)))
    else:
        if not all_finite(r):
            out.append(("base_finite", "%s returned a non-finite value: %r" % (name, canon(r))))
    dg = diff_keys(g0, g1)
    if dg:
        out.append(("globals_changed", "%s changed module-level state: %s" % (name, dg[:5])))
    dp = diff_keys(p0, p1)
    if dp:
        out.append(("arguments_changed", "%s changed its argument objects: %s" % (name, dp[:5])))
    # unpooled list arguments (plain lists of numbers) must be untouched as well
    for t, a in zip(base_tags(spec), args):
        if isinstance(t, list) and a != t:
            out.append(("arguments_changed", "%s changed its list argument %r -> %r" % (name, t, a)))
    # second call with equal arguments gives the equal result
    kind2, r2, _, _ = do_call(name, spec, base_tags(spec), pool)
    if kind == "ok" and (kind2 != "ok" or canon(r2) != canon(r)) and not spec["mutator"]:
        out.append(("repeat", "%s called twice with equal arguments: %r then %r"
                    % (name, canon(r), canon(r2) if kind2 == "ok" else r2)))
    return out


def run_purity(block, ctx):
    for name in block:
        ctx.evals += 2
        ctx.states += 1
        ctx.transitions += 2
        ctx.nt_count += 1
        for site, msg in check_purity({"callable": name}):
            ctx.viol({"callable": name}, msg, site=site)
        ctx.outcome(name)
    ctx.traces += len(block)
    ctx.sample({"callable": block[0], "base": [repr(t) for t in base_tags(SP.specs()[block[0]])]})


# ---------------------------------------------------------------------------
# clause: histories (every ordered pair)

_BASELINE = None


def run_in_fork(fn):
    """Run fn() in a forked child and return its (pickled) result."""
    r, w = os.pipe()
    pid = os.fork()
    if pid == 0:
        try:
            os.close(r)
            try:
                res = ("ok", fn())
            except BaseException as ex:
                res = ("err", repr(ex))
            with os.fdopen(w, "wb") as f:
                pickle.dump(res, f)
        finally:
            os._exit(0)
    os.close(w)
    with os.fdopen(r, "rb") as f:
        data = f.read()
    os.waitpid(pid, 0)
    return pickle.loads(data)


def result_of(name, spec, pool):
    kind, r, _, _ = do_call(name, spec, base_tags(spec), pool)
    return ("ok", canon(r)) if kind == "ok" else ("exc", type(r).__name__)


def baseline():
    """Result of every catalogued call made alone, each in a fresh process."""
    global _BASELINE
    if _BASELINE is None:
        S = SP.specs()
        names = sorted(S)
        _BASELINE = {}
        for n in names:
            st, res = run_in_fork(lambda n=n: result_of(n, S[n], {}))
            _BASELINE[n] = res if st == "ok" else ("err", res)
    return _BASELINE


def shares_objects(a, b, S):
    ta = set(repr(t) for t in base_tags(S[a]) if isinstance(t, tuple) and t and t[0] in ("E", "A", "AL", "AT"))
    tb = set(repr(t) for t in base_tags(S[b]) if isinstance(t, tuple) and t and t[0] in ("E", "A", "AL", "AT"))
    return bool(ta & tb)


def run_pairs(a_name, ctx):
    S = SP.specs()
    base = baseline()
    names = sorted(S)
    pool = {}
    g0 = global_state()
    for b_name in names:
        ctx.evals += 1
        ctx.transitions += 2
        if shares_objects(a_name, b_name, S):
            ctx.nt_count += 1
        p0 = None
        do_call(a_name, S[a_name], base_tags(S[a_name]), pool)
        p0 = pool_state(pool)
        got = result_of(b_name, S[b_name], pool)
        if got != base[b_name]:
            ctx.viol({"first": a_name, "then": b_name},
                     "%s after %s gives %r, alone in a fresh process %r" % (b_name, a_name, got, base[b_name]),
                     site="history")
        p1 = pool_state(pool)
        changed = [k for k in p0 if p0[k] != p1.get(k)]
        if changed:
            ctx.viol({"first": a_name, "then": b_name}, "%s changed shared argument objects %s"
                     % (b_name, changed[:4]), site="arguments_changed")
            for k in changed:      # restore so that one defect is reported once per pair
                pool.pop(k, None)
    g1 = global_state()
    dg = diff_keys(g0, g1)
    if dg:
        ctx.viol({"first": a_name}, "module-level state changed during the histories starting with %s: %s"
                 % (a_name, dg[:5]), site="globals_changed")
    ctx.states += 1
    ctx.traces += len(names)
    ctx.outcome(a_name)
    ctx.obs(a_name)
    ctx.sample({"first": a_name, "then": names[len(names) // 2]})


def replay_pair(case):
    S = SP.specs()
    a, b = case["first"], case.get("then")
    if b is None:
        return []
    st, alone = run_in_fork(lambda: result_of(b, S[b], {}))

    def seq():
        pool = {}
        do_call(a, S[a], base_tags(S[a]), pool)
        return result_of(b, S[b], pool)
    st2, after = run_in_fork(seq)
    if alone != after:
        return ["%s after %s gives %r, alone %r" % (b, a, after, alone)]
    return []


# ---------------------------------------------------------------------------
# clause: copy constructors do not share state

COPY_CLASSES = {
    "Angle": {"make": lambda: Angle(-23.5), "copy": lambda o: Angle(o),
              "mutators": [("set", (370.5,)), ("set_tolerance", (1e-3,)), ("to_positive", ()), ("set_radians", (1.0,)),
                           ("set_ra", (5.0,))],
              "observe": lambda o: (o._deg, o.get_tolerance(), o.dms_str(), o == -23.5, o == 336.5)},
    "Epoch": {"make": lambda: Epoch(1987, 6, 19.5), "copy": lambda o: Epoch(o),
              "mutators": [("set", (2000, 1, 1.5)), ("set", (1234567.5,))],
              "observe": lambda o: (o._jde, o.get_date(), o.dow())},
    "Interpolation": {"make": lambda: Interpolation([0.0, 1.0, 3.0, 4.0], [-1.0, -2.0, 2.0, 7.0]),
                      "copy": lambda o: Interpolation(o),
                      "mutators": [("set", ([0.0, 1.0, 3.0], [5.0, 1.0, -3.0])), ("set_tolerance", (1e-3,)),
                                   ("set", ([9.0, 8.0], [1.0, 2.0]))],
                      "observe": lambda o: (o(0.5) if len(o) > 2 else None, len(o), o.get_tolerance(), repr(o))},
    "CurveFitting": {"make": lambda: CurveFitting([1.0, 2.0, 3.0, 5.0], [2.1, 3.9, 6.2, 9.8]),
                     "copy": lambda o: CurveFitting(o),
                     "mutators": [("set", ([0.0, 1.0, 2.0], [5.0, 1.0, -3.0])), ("set", ([4.0, 9.0], [1.0, 2.0]))],
                     "observe": lambda o: (o.linear_fitting(), len(o), repr(o))},
    "Earth": {"make": lambda: Earth(), "copy": lambda o: Earth(o._ellip),
              "mutators": [("set", (IAU76,)), ("set", (Ellipsoid(6378000.0, 0.01, 7e-5),))],
              "observe": lambda o: (o.rho_sinphi(33.0, 0), repr(o._ellip))},
}


def check_copy(case):
    C = COPY_CLASSES[case["class"]]
    src = C["make"]()
    cp = C["copy"](src)
    out = []
    objs = {"source": src, "copy": cp}
    try:
        if canon(C["observe"](src)) != canon(C["observe"](cp)):
            out.append("copy of %s does not reproduce its source" % case["class"])
    except Exception as ex:
        return ["observing %s raised %r" % (case["class"], ex)]
    g0 = global_state() if case.get("globals") else None
    for who, mi in case["history"]:
        other = "copy" if who == "source" else "source"
        name, args = C["mutators"][mi]
        before = canon(C["observe"](objs[other]))
        try:
            getattr(objs[who], name)(*args)
        except Exception as ex:
            out.append("%s.%s%r raised %r" % (who, name, args, ex))
            continue
        after = canon(C["observe"](objs[other]))
        if before != after:
            out.append("%s: %s.%s%r changed what the %s returns: %r -> %r"
                       % (case["class"], who, name, args, other, before, after))
    if g0 is not None:
        dg = diff_keys(g0, global_state())
        if dg:
            out.append("%s mutators changed module-level state: %s" % (case["class"], dg[:5]))
    return out


def copy_cases():
    out = []
    for cname, C in COPY_CLASSES.items():
        evs = [(w, i) for w in ("source", "copy") for i in range(len(C["mutators"]))]
        for e in evs:
            out.append({"class": cname, "history": [list(e)], "globals": True})
        for a in evs:
            for b in evs:
                out.append({"class": cname, "history": [list(a), list(b)]})
    return out


def run_copy(block, ctx):
    for case in block:
        ctx.evals += 1
        ctx.nt_count += 1
        ctx.states += 1
        ctx.transitions += len(case["history"])
        ctx.traces += 1
        for msg in check_copy(case):
            ctx.viol(case, msg, site="copy_independence")
        ctx.outcome((case["class"], len(case["history"])))
    ctx.sample(block[0])


# ---------------------------------------------------------------------------
# clause: totality within D deviations

def alphabets(spec):
    al = []
    for (kind, base, alts) in spec["params"]:
        ill = list(SP.ILL[kind])
        if kind == "str":
            # out-of-range spellings derived from the documented ones: empty, prefixes, suffixes, other case,
            # trailing blank, two valid values glued together
            valid = [v for v in [base] + list(alts) if isinstance(v, str)]
            for v in valid:
                for w in ("", v[:1], v[:3], v[:-1], v[-3:], v.upper(), v.capitalize(), v + " ", " " + v):
                    if w not in valid and w not in ill:
                        ill.append(w)
            if len(valid) > 1 and (valid[0] + valid[1]) not in ill:
                ill.append(valid[0] + valid[1])
        items = [("base", base)] + [("alt", a) for a in alts] + [("ill", v) for v in ill]
        al.append(items)
    return al


def check_tuple(name, choice):
    """choice: list of (class, tag) per parameter (class in base/alt/ill)."""
    S = SP.specs()
    spec = S[name]
    tags = [c[1] for c in choice]
    ill = [i for i, c in enumerate(choice) if c[0] == "ill"]
    pool = {}
    for t in tags:
        mk(t, pool)
    p0 = pool_state(pool)
    kind, r, recv, args = do_call(name, spec, tags, pool)
    shown = "%s(%s)" % (name, ", ".join(repr(t) for t in tags))
    p1 = pool_state(pool)
    if any(p0[k] != p1.get(k) for k in p0):
        return [("arguments_changed", "%s changed its argument objects %s"
                 % (shown, [k for k in p0 if p0[k] != p1.get(k)][:3]))]
    if ill:
        if kind == "ok":
            return [("ill_accepted", "%s with an ill-typed argument at position %r returned %r"
                     % (shown, ill, canon(r)))]
        if not isinstance(r, (TypeError, ValueError)):
            return [("ill_wrong_exception", "%s with an ill-typed argument at position %r raised %s: %s"
                     % (shown, ill, type(r).__name__, r))]
        return []
    if kind == "exc":
        return [("domain_exception", "%s raised %s: %s on in-domain arguments" % (shown, type(r).__name__, r))]
    if not all_finite(r):
        return [("domain_finite", "%s returned a non-finite value %r" % (shown, canon(r)))]
    return []


_BASE_TYPES = {}


def _shape(r):
    if isinstance(r, tuple):
        return "tuple(%d)" % len(r)
    return type(r).__name__


def arity_cases(name):
    S = SP.specs()
    spec = S[name]
    fn, _ = resolve(name)
    try:
        sig = inspect.signature(fn)
    except (TypeError, ValueError):
        return []
    if any(p.kind == p.VAR_POSITIONAL for p in sig.parameters.values()):
        return []
    base = base_tags(spec)
    out = [("extra", base + [1.0])]
    required = [p for p in list(sig.parameters.values()) if p.default is p.empty and p.name != "self"
                and p.kind in (p.POSITIONAL_ONLY, p.POSITIONAL_OR_KEYWORD)]
    if required:
        out.append(("missing", base[:len(required) - 1]))
    return out


def run_totality(block, ctx):
    S = SP.specs()
    dmax = block["d"]
    for name in block["names"]:
        spec = S[name]
        al = alphabets(spec)
        base = [a[0] for a in al]
        # shape of the base result
        k0, r0, _, _ = do_call(name, spec, base_tags(spec), {})
        if k0 == "ok":
            _BASE_TYPES[name] = _shape(r0)
        n = 0
        g0 = global_state()
        for tup, pos in within_deviations(base, [a[1:] for a in al], dmax):
            # at most one ill-typed value per tuple (an ill-typed tuple is judged by its ill value)
            if sum(1 for c in tup if c[0] == "ill") > 1:
                continue
            n += 1
            ctx.evals += 1
            if pos:
                ctx.nt_count += 1
            for site, msg in check_tuple(name, list(tup)):
                case = {"callable": name, "args": [repr(c[1]) for c in tup], "positions": list(pos),
                        "deviating": [repr(tup[p][1]) for p in pos]}
                ctx.viol(case, msg, site=site)
        for kind, tags in arity_cases(name):
            ctx.evals += 1
            ctx.nt_count += 1
            k, r, _, _ = do_call(name, spec, tags, {})
            if k == "ok":
                ctx.viol({"callable": name, "arity": kind}, "%s accepted a call with a%s argument: %r"
                         % (name, "n extra" if kind == "extra" else " missing", canon(r)), site="arity_accepted")
            elif not isinstance(r, (TypeError, ValueError)):
                ctx.viol({"callable": name, "arity": kind}, "%s with a%s argument raised %s: %s"
                         % (name, "n extra" if kind == "extra" else " missing", type(r).__name__, r),
                         site="arity_wrong_exception")
        dg = diff_keys(g0, global_state())
        if dg:
            ctx.viol({"callable": name, "deviations": dmax}, "calls of %s within %d deviation(s) of its base tuple "
                     "changed module-level state: %s" % (name, dmax, dg[:5]), site="globals_changed")
        ctx.transitions += n
        ctx.states += 1
        ctx.outcome((name, n))
    ctx.traces += len(block["names"])
    ctx.sample({"callable": block["names"][0], "deviations": dmax})


def replay_totality(case):
    name = case["callable"]
    S = SP.specs()
    if "arity" in case:
        for kind, tags in arity_cases(name):
            if kind == case["arity"]:
                k, r, _, _ = do_call(name, S[name], tags, {})
                if k == "ok" or not isinstance(r, (TypeError, ValueError)):
                    return ["%s arity %s: %r" % (name, kind, r)]
        return []
    al = alphabets(S[name])
    choice = []
    for i, want in enumerate(case["args"]):
        hit = [c for c in al[i] if repr(c[1]) == want]
        if not hit:
            return ["replay: argument %r not in the alphabet any more" % want]
        choice.append(hit[0])
    return [m for _, m in check_tuple(name, choice)]


# ---------------------------------------------------------------------------
# clause: boundary / out-of-range probes (explicit list).  A probe marked
# "in" lies inside the documented domain: the call must return finite values.
# A probe marked "refuse" is an input for which the callable's own documentation promises ValueError
# (an abscissa outside an interpolation table): a normal return is the violation.
# A probe marked "out" is out of range: it must be rejected with TypeError or
# ValueError, or - where the documentation promises nothing - return a finite
# value; any other exception class, a non-finite or complex result is the
# violation ("never another exception class, never a non-value").

def _collinear():
    from ..ref import sphere as S
    out = []
    for (lo, la) in [(100.0, 10.0), (250.0, -40.0), (30.0, 60.0)]:
        for pa in (20.0, 75.0, 140.0):
            for s1, s3 in ((2.0, 3.0), (15.0, 3.0), (15.0, 25.0)):
                p1 = S.offset(lo, la, s1, pa)
                p3 = S.offset(lo, la, s3, pa + 180.0)
                out.append(("in", "Coordinates.straight_line",
                            [("A", p1[0]), ("A", p1[1]), ("A", lo), ("A", la), ("A", p3[0]), ("A", p3[1])], None))
    return out


def probes():
    E = ("E", 2448908.5)
    P = [
        ("out", "Coordinates.passage_nodes_parabolic", [("A", 0.0), 1.0, E, False], None),
        ("out", "Coordinates.passage_nodes_parabolic", [("A", 180.0), 1.0, E, True], None),
        ("out", "Coordinates.passage_nodes_elliptic", [("A", 111.8), 1.0, 17.94, E, True], None),
        ("out", "Coordinates.kepler_equation", [1.0, ("A", 10.0)], None),
        ("out", "Coordinates.kepler_equation", [1.5, ("A", 10.0)], None),
        ("out", "Coordinates.kepler_equation", [-0.1, ("A", 10.0)], None),
        ("out", "Coordinates.velocity", [0.0, 1.0], None),
        ("out", "Coordinates.velocity", [1.0, 0.0], None),
        ("out", "Coordinates.velocity", [3.0, 1.0], None),
        ("out", "Coordinates.velocity_perihelion", [1.0, 1.0], None),
        ("out", "Coordinates.velocity_perihelion", [0.5, 0.0], None),
        ("out", "Coordinates.velocity_aphelion", [0.5, 0.0], None),
        ("out", "Coordinates.velocity_aphelion", [0.5, -1.0], None),
        ("out", "Coordinates.length_orbit", [1.5, 1.0], None),
        ("in", "Coordinates.length_orbit", [0.0, 1.0], None),
        ("out", "Coordinates.phase_angle", [1.0, 1.0, 3.0], None),
        ("out", "Coordinates.phase_angle", [0.0, 1.0, 1.0], None),
        ("out", "Coordinates.illuminated_fraction", [0.0, 1.0, 1.0], None),
        ("out", "Coordinates.diurnal_path_horizon", [("A", 80.0), ("A", 80.0)], None),
        ("out", "Coordinates.refraction_apparent2true", [("A", -5.0), 1010.0, 10.0], None),
        ("out", "Coordinates.refraction_true2apparent", [("A", -5.0), 1010.0, 10.0], None),
        ("in", "Coordinates.angular_separation", [("A", 10.0), ("A", 20.0), ("A", 10.0), ("A", 20.0)], None),
        ("in", "Coordinates.angular_separation", [("A", 0.0), ("A", 0.0), ("A", 180.0), ("A", 0.0)], None),
        ("in", "Coordinates.relative_position_angle", [("A", 10.0), ("A", 20.0), ("A", 10.0), ("A", 20.0)], None),
        ("in", "Coordinates.circle_diameter", [("A", 10.0), ("A", 20.0), ("A", 10.0), ("A", 20.0), ("A", 11.0), ("A", 20.0)], None),
        ("in", "Coordinates.equatorial2horizontal", [("A", 0.0), ("A", 90.0), ("A", 90.0)], None),
        ("in", "Coordinates.parallactic_angle", [("A", 0.0), ("A", 50.0), ("A", 50.0)], None),
        ("out", "Epoch.doy2date", [2000, 400], None),
        ("out", "Epoch.doy2date", [2000, 0], None),
        ("out", "Epoch.get_doy", [2001, 2, 29], None),
        ("out", "Epoch.get_month", [13], None),
        ("out", "Epoch.get_month", ["Foo"], None),
        ("out", "Epoch.moslem2gregorian", [1421, 13, 1], None),
        ("out", "Epoch.gregorian2moslem", [600, 1, 1], None),
        ("out", "Epoch.easter", [2000.5], None),
        ("out", "Epoch.leap_seconds", [2000, 13], None),
        ("out", "Epoch.tt2ut", [2000, 13], None),
        ("out", "Sun.get_equinox_solstice", [3001, "spring"], None),
        ("out", "Sun.get_equinox_solstice", [2000, "fall"], None),
        ("out", "Sun.beginning_synodic_rotation", [-5], None),
        ("out", "Pluto.geocentric_position", [("E", 2451545.0 + 36525.0 * 2)], None),
        ("out", "Mars.opposition", [("E", 990000.5)], None),
        ("out", "JupiterMoons.check_phenomena", [("E", 2448972.50068), False, 7], None),
        ("out", "JupiterMoons.correct_rectangular_positions", [5.9, 7, 5.0, -3.45, 0.21, 0.0], None),
        ("out", "JupiterMoons.correct_rectangular_positions", [5.9, 1, 5.0, -13.45, 0.21, 0.0], None),
        ("out", "Earth.rho", [95.0], ("EARTH",)),
        ("in", "Earth.distance", [0.0, 0.0, 180.0, 0.0], ("EARTH",)),
        ("in", "Earth.distance", [10.0, 90.0, 200.0, 90.0], ("EARTH",)),
        ("out", "Earth.parallax_correction", [("A", 10.0), ("A", 10.0), ("A", 10.0), 0.0, ("A", 10.0), 0.0], None),
        ("out", "Minor.geocentric_position", [("E", 2448170.5)], ("MINOR_HYP",)),
        ("refuse", "Interpolation.derivative", [40.0], ("INTERP",)),
        ("refuse", "Interpolation.derivative", [40.0], ("INTERP2",)),
        ("refuse", "Interpolation.derivative", [26.999], ("INTERP2",)),
        ("refuse", "Interpolation.__call__", [40.0], ("INTERP2",)),
        ("refuse", "Interpolation.__call__", [40.0], ("INTERP",)),
        ("in", "Interpolation.derivative", [27.0], ("INTERP2",)),
        ("in", "Interpolation.__call__", [29.0], ("INTERP2",)),
        ("refuse", "Interpolation.root", [40.0, 50.0, 1000], ("INTERP_ROOT",)),
        ("refuse", "Interpolation.minmax", [40.0, 50.0, 1000], ("INTERP_MM",)),
        ("out", "Interpolation.root", [28.0, 28.0, 1000], ("INTERP_ROOT",)),
        ("out", "CurveFitting.linear_fitting", [], ("CF_DEG",)),
    ]
    # parallactic angle next to the surface tan(lat) cos(dec) = sin(dec) cos(H), where it is +-90 degrees (only
    # AT the zenith, where the hour angle is 0 as well, is there no angle to return)
    for hh, dd in ((47.3, 33.1), (-47.3, 33.1), (120.0, 20.0), (10.0, -60.0), (300.0, 5.0)):
        lat0 = math.degrees(math.atan(math.tan(math.radians(dd)) * math.cos(math.radians(hh))))
        for off in (1e-7, -1e-7, 1e-5, -1e-5, 1e-4, 1e-3, -1e-2):
            P.append(("angle", "Coordinates.parallactic_angle", [("A", hh), ("A", dd), ("A", lat0 + off)], None))
    # duplicated abscissae that are not neighbours in the order given
    P.append(("refuse", "ctor.Interpolation", [[1.0, 2.5, 1.0, 4.0], [3.0, 4.0, 5.0, 6.0]], None))
    P.append(("refuse", "ctor.Interpolation", [[1.0, 2.5, 1.0 + 5e-11, 4.0], [3.0, 4.0, 5.0, 6.0]], None))
    P.append(("refuse", "ctor.Interpolation", [1, 5, 2, 6, 1, 7], None))
    P.append(("refuse", "ctor.CurveFitting", [[1.0, 2.0, 3.0], [1.0, 2.0]], None) if False else
             ("refuse", "ctor.Interpolation", [[4.0, 2.5, 1.0, 4.0], [3.0, 4.0, 5.0, 6.0]], None))
    for ctor in ("Epoch", "Angle"):
        for v in (float("nan"), float("inf"), -float("inf"), 1e300):
            P.append(("out", "ctor." + ctor, [v], None))
    P.append(("out", "ctor.Epoch", [1e17], None))
    P.append(("out", "ctor.Epoch", [-5.0], None))
    P.append(("out", "ctor.Epoch", [2000, 2, 30], None))
    # a valid leap-February date first, then invalid 29 February dates (history of constructor calls)
    P.append(("in", "ctor.Epoch", [2020, 2, 10.0], None))
    P.append(("in", "ctor.Epoch", [2024, "Feb", 29.5], None))
    P.append(("out", "ctor.Epoch", [2019, 2, 29], None))
    P.append(("out", "ctor.Epoch", [1900, 2, 29.5], None))
    P.append(("out", "ctor.Epoch", [1582, 10, 32], None))
    P.append(("out", "ctor.Epoch", [2000, 13, 1], None))
    P.append(("out", "ctor.Epoch", [-4713, 1, 1], None))
    return P + _collinear()


def check_probe(case):
    kind, name, tags, recv = case["kind"], case["callable"], case["args"], case.get("recv")
    tags = [tuple(t) if isinstance(t, list) and t and isinstance(t[0], str) and t[0] in ("A", "E") else t for t in tags]
    shown = "%s(%s)" % (name, ", ".join(repr(t) for t in tags))
    import signal
    old = signal.signal(signal.SIGALRM, _alarm)
    signal.alarm(CALL_TIMEOUT)
    try:
        try:
            args = [mk(t, None) for t in tags]
            if name.startswith("ctor."):
                cls = {"Epoch": Epoch, "Angle": Angle, "Interpolation": Interpolation}[name.split(".")[1]]
                obj = cls(*args)
                # an object that was accepted must be usable
                if cls is Interpolation:
                    r = (len(obj), obj(1.7), obj.derivative(1.7))
                else:
                    r = (obj, obj.get_full_date()) if cls is Epoch else (obj, obj.dms_str())
            else:
                fn, is_method = resolve(name)
                if is_method:
                    robj = mk(tuple(recv), None) if recv else None
                    if recv and tuple(recv) == ("MINOR_HYP",):
                        robj = Minor(1.0, 1.5, Angle(10.0), Angle(20.0), Angle(30.0), Epoch(2448192.5))
                    if recv and tuple(recv) == ("CF_DEG",):
                        robj = CurveFitting([2.0, 2.0, 2.0], [1.0, 2.0, 3.0])
                    r = getattr(robj, name.split(".")[1])(*args)
                else:
                    r = fn(*args)
        finally:
            signal.alarm(0)
            signal.signal(signal.SIGALRM, old)
    except (TypeError, ValueError) as ex:
        if kind in ("in", "angle"):
            return ["%s raised %s: %s on an input inside the documented domain" % (shown, type(ex).__name__, ex)]
        return []
    except ZeroDivisionError as ex:
        if name.startswith("CurveFitting."):
            return []           # documented for degenerate fits
        return ["%s raised ZeroDivisionError (%s) instead of TypeError/ValueError" % (shown, ex)]
    except Exception as ex:
        return ["%s raised %s: %s (only TypeError/ValueError are documented)" % (shown, type(ex).__name__, ex)]
    if not all_finite(r) or any(isinstance(v, complex) for v in (r if isinstance(r, tuple) else (r,))):
        return ["%s returned a non-value: %r" % (shown, canon(r))]
    if kind == "angle" and not isinstance(r, Angle):
        return ["%s returned %r where an Angle is due (the input is not the documented singular point)" % (shown, canon(r))]
    if kind == "refuse":
        # the documentation of this callable promises ValueError for this input
        return ["%s returned %r although its documentation promises a ValueError for this input" % (shown, canon(r))]
    return []


def run_probes(block, ctx):
    g0 = global_state()
    for case in block:
        ctx.evals += 1
        ctx.nt_count += 1
        ctx.states += 1
        ctx.transitions += 1
        for msg in check_probe(case):
            ctx.viol({"kind": case["kind"], "callable": case["callable"], "args": [repr(a) for a in case["args"]]},
                     msg, site="probe_" + case["kind"])
        ctx.outcome(case["callable"])
    dg = diff_keys(g0, global_state())
    if dg:
        ctx.viol({"probes": [c["callable"] for c in block]}, "boundary probes changed module-level state: %s" % dg[:5],
                 site="globals_changed")
    ctx.traces += len(block)
    ctx.sample({"callable": block[0]["callable"], "args": [repr(a) for a in block[0]["args"]]})


def _replay_probe(case):
    for c in probe_cases():
        if c["callable"] == case["callable"] and [repr(a) for a in c["args"]] == case["args"]:
            return check_probe(c)
    return ["replay: probe no longer in the list"]


def probe_cases():
    return [{"kind": k, "callable": n, "args": list(a), "recv": list(r) if r else None} for (k, n, a, r) in probes()]


# ---------------------------------------------------------------------------
# clause: re-use of an argument object that the caller has changed in place.
# call f(a, ...); a.set(new value); call f(a, ...) again with the SAME objects:
# the second result must equal f called with fresh objects of the new value
# (a callee that remembers its argument by identity, or caches on it, differs).

def check_reuse(case):
    name = case["callable"]
    S = SP.specs()
    spec = S[name]
    out = []
    params = spec["params"]
    for i, (kind, base, alts) in enumerate(params):
        if kind not in ("angle", "epoch") or not alts:
            continue
        alt = alts[0]
        if not (isinstance(alt, tuple) and alt and alt[0] in ("A", "E")):
            continue
        tags = list(base_tags(spec))
        tags[i] = alt

        def fresh(tags=tags):
            k3, r3, _, _ = do_call(name, spec, tags, {})
            return ("ok", canon(r3)) if k3 == "ok" else ("exc", type(r3).__name__)
        # expected value first, in a forked child of the still untouched process
        st, exp = run_in_fork(fresh)
        if st != "ok":
            exp = ("err", exp)
        # prime with other objects holding the new value, so that a callee which remembers
        # "the last argument" has to take up the objects of the next call
        do_call(name, spec, tags, None)
        # distinct objects per parameter (no pooling): changing one must not alias another
        k1, r1, recv, args = do_call(name, spec, base_tags(spec), None)
        if k1 != "ok":
            continue
        obj = args[i]
        try:
            obj.set(alt[1])            # the caller changes its own object in place
        except Exception:
            continue
        fn, is_method = resolve(name)
        try:
            if is_method:
                r2 = getattr(recv, name.split("#")[0].split(".")[1])(*args, **spec["kwargs"])
            else:
                r2 = fn(*args, **spec["kwargs"])
            got = ("ok", canon(r2))
        except Exception as ex:
            got = ("exc", type(ex).__name__)
        if got != exp:
            out.append("%s: after the caller changed argument %d in place (%r -> %r) a second call with the same "
                       "objects gives %r, a call with fresh objects in a fresh process gives %r"
                       % (name, i, base, alt, got, exp))
    return out


def run_reuse(block, ctx):
    S = SP.specs()
    for name in block:
        n = sum(1 for (k, b, a) in S[name]["params"] if k in ("angle", "epoch") and a)
        ctx.evals += 4 * n
        ctx.states += 1
        ctx.transitions += 4 * n
        if n:
            ctx.nt_count += n
        for msg in check_reuse({"callable": name}):
            ctx.viol({"callable": name}, msg, site="reused_argument")
        ctx.outcome((name, n))
    ctx.traces += len(block)
    ctx.sample({"callable": block[0]})


# ---------------------------------------------------------------------------
# clause: the previous call had ALMOST the same arguments (a result remembered
# under a key that is too coarse - a rounded JDE, a rounded angle - is re-used).

NEAR_SCALES = [{"E": 1e-6, "A": 1e-9, "F": 1e-12}, {"E": 4e-3, "A": 1e-4, "F": 1e-6}, {"E": 0.3, "A": 0.3, "F": 1e-3}]


FAR_SCALE = {"E": 4321.0, "A": 77.7, "F": 0.37}


def perturb(tag, scale, sign):
    if isinstance(tag, tuple) and tag and tag[0] == "E":
        return ("E", tag[1] + sign * scale["E"])
    if isinstance(tag, tuple) and tag and tag[0] == "A":
        return ("A", tag[1] + sign * scale["A"])
    if isinstance(tag, float):
        return tag * (1.0 + sign * scale["F"]) if tag != 0.0 else sign * scale["F"]
    return tag


def check_near(case):
    name = case["callable"]
    S = SP.specs()
    spec = S[name]
    base = base_tags(spec)
    if not any((isinstance(t, tuple) and t and t[0] in ("E", "A")) or isinstance(t, float) for t in base):
        return []
    if spec["mutator"]:
        return []
    ref = baseline().get(name)
    out = []
    for si, scale in enumerate(NEAR_SCALES):
        for sign in (1.0, -1.0):
            near = [perturb(t, scale, sign) for t in base]
            # a call with far-away arguments first, so that whatever an earlier iteration left behind
            # is displaced before the (near, base) pair under test
            do_call(name, spec, [perturb(t, FAR_SCALE, 1.0) for t in base], None)
            do_call(name, spec, near, None)
            got = result_of(name, spec, {})
            if ref is not None and got != ref:
                out.append("%s gives %r right after a call whose arguments differed by %r, alone in a fresh process %r"
                           % (name, got, dict((k, sign * v) for k, v in scale.items()), ref))
    return out


def run_near(block, ctx):
    for name in block:
        ctx.evals += 2 * 2 * len(NEAR_SCALES)
        ctx.states += 1
        ctx.transitions += 2 * 2 * len(NEAR_SCALES)
        ctx.nt_count += 1
        for msg in check_near({"callable": name}):
            ctx.viol({"callable": name}, msg, site="near_argument_history")
        ctx.outcome(name)
    ctx.traces += len(block)
    ctx.sample({"callable": block[0], "scales": NEAR_SCALES})


# ---------------------------------------------------------------------------
# clause: dense sweeps of one scalar parameter through its documented domain

def dense_cases():
    S = SP.specs()
    out = []
    for name, sweeps in sorted(SP.DENSE.items()):
        if name not in S:
            continue
        for sw in sweeps:
            pi, lo, hi, step = sw[:4]
            fixed = sw[4] if len(sw) > 4 else None
            kind = S[name]["params"][pi][0]
            for v in SP.dense_values(lo, hi, step):
                if kind == "angle":
                    tag = ("A", float(v))
                elif kind == "epoch":
                    tag = ("E", 2451545.0 + (v - 2000.0) * 365.25 + 182.0)      # middle of year v
                else:
                    tag = v
                out.append((name, pi, tag) if fixed is None else (name, pi, tag, fixed))
    return out


def check_dense(case):
    name, pi, v = case["callable"], case["position"], case["value"]
    if isinstance(v, list):
        v = tuple(v)
    S = SP.specs()
    al = alphabets(S[name])
    choice = [a[0] for a in al]
    choice[pi] = ("alt", v)
    for k, fv in (case.get("fixed") or {}).items():
        choice[int(k)] = ("alt", fv)
    return check_tuple(name, choice)


def run_dense(block, ctx):
    g0 = global_state()
    for item in block:
        name, pi, v = item[:3]
        fixed = item[3] if len(item) > 3 else None
        ctx.evals += 1
        ctx.transitions += 1
        if not (isinstance(v, int) or (isinstance(v, float) and v == int(v))):
            ctx.nt_count += 1           # a value between the integers
        else:
            ctx.nt(key=(name, pi))
        case = {"callable": name, "position": pi, "value": v}
        if fixed:
            case["fixed"] = {str(k): fv for k, fv in fixed.items()}
        for site, msg in check_dense(case):
            ctx.viol(case, msg, site="dense_" + site)
        ctx.outcome((name, pi))
    dg = diff_keys(g0, global_state())
    if dg:
        ctx.viol({"callable": block[0][0]}, "dense sweeps changed module-level state: %s" % dg[:5],
                 site="globals_changed")
    ctx.states += 1
    ctx.traces += 1
    ctx.sample({"callable": block[0][0], "position": block[0][1], "value": block[0][2]})


# ---------------------------------------------------------------------------
# clause: an object loaded again through set() answers like a fresh object

def _views(obj):
    out = []
    if isinstance(obj, CurveFitting):
        for f in (obj.linear_fitting, obj.quadratic_fitting, obj.correlation_coeff,
                  lambda: obj.general_fitting(FNS["x"], FNS["one"]), lambda: len(obj), lambda: str(obj)):
            try:
                out.append(canon(f()))
            except Exception as ex:
                out.append(type(ex).__name__)
    elif isinstance(obj, Interpolation):
        for f in (lambda: obj(1.5), lambda: obj.derivative(1.5), lambda: obj.root(), lambda: obj.minmax(),
                  lambda: len(obj), lambda: str(obj), obj.get_tolerance):
            try:
                out.append(canon(f()))
            except Exception as ex:
                out.append(type(ex).__name__)
    elif isinstance(obj, Angle):
        out = [canon(obj()), obj.dms_str(), obj.ra_str(), canon(obj.rad()), canon(obj.dms_tuple()),
               canon(obj.ra_tuple()), canon(obj.get_ra())]
    elif isinstance(obj, Epoch):
        out = [canon(obj.jde()), canon(obj.get_full_date()), obj.dow(), canon(obj.doy()), canon(obj.year()),
               canon(obj.mjd()), canon(obj.mean_sidereal_time()), obj.leap(), obj.julian(), str(obj)]
    return out


RESET_DATA = {
    "CurveFitting": [([0.0, 1.0, 2.0, 3.0, 4.0], [1.0, 3.5, 4.0, 7.5, 9.0]),
                     ([73.0, 38.0, 35.0, 42.0, 78.0, 68.0, 74.0], [90.4, 125.3, 161.8, 143.4, 52.5, 50.8, 71.5]),
                     ([-2.0, -1.0, 0.0, 1.0, 2.0], [4.1, 0.9, 0.0, 1.1, 3.9]),
                     ([5.0, 1.0, 3.0], [2.0, 7.0, -1.0])],
    "Interpolation": [([0.0, 1.0, 2.0, 3.0], [-1.0, 0.5, 2.5, 3.0]),
                      ([1.0, 2.0], [3.0, -5.0]),
                      ([0.0, 1.0, 2.0, 3.0, 4.0], [4.0, 1.0, 0.0, 1.0, 4.0]),
                      ([3.0, 1.0, 2.0], [0.5, -0.5, 0.25])],
    "Angle": [(370.5,), (-12.0,), (0.0,), (23.0, 26.0, 48.99)],
    "Epoch": [(2451545.0,), (1987, 6, 19.5), (1582, 10, 4.75), (-1000, 7, 12.5)],
}


def check_reset(case):
    """construct(d0); set(d1); set(d2) ...: after each set() every view of the object equals the view of an
    object freshly constructed from the same data (set() twice with the same data included)."""
    cls = {"CurveFitting": CurveFitting, "Interpolation": Interpolation, "Angle": Angle, "Epoch": Epoch}[case["class"]]
    data = RESET_DATA[case["class"]]
    hist = case["history"]

    def args(k):
        return [list(a) if isinstance(a, list) else a for a in data[k]]
    out = []
    try:
        obj = cls(*args(hist[0]))
        _views(obj)
        for n, k in enumerate(hist[1:]):
            obj.set(*args(k))
            got = _views(obj)
            exp = _views(cls(*args(k)))
            if got != exp:
                bad = [i for i in range(len(got)) if got[i] != exp[i]]
                out.append("%s built from data set %d and re-loaded with set() through %r answers %r where a fresh "
                           "object answers %r (view %d)" % (case["class"], hist[0], hist[1:n + 2], got[bad[0]],
                                                           exp[bad[0]], bad[0]))
                break
    except Exception as ex:
        out.append("%s history %r raised %s: %s" % (case["class"], hist, type(ex).__name__, ex))
    return out


def reset_cases(tier):
    out = []
    for cl, data in sorted(RESET_DATA.items()):
        n = len(data)
        for depth in ((2, 3, 4) if tier == "thorough" else (2, 3)):
            for h in itertools.product(range(n), repeat=depth):
                out.append({"class": cl, "history": list(h)})
    return out


def run_reset(block, ctx):
    for case in block:
        ctx.evals += 2 * len(case["history"])
        ctx.transitions += len(case["history"]) - 1
        ctx.states += 1
        ctx.traces += 1
        ctx.nt_count += 1
        for msg in check_reset(case):
            ctx.viol(case, msg, site="object_reset")
        ctx.outcome((case["class"], case["history"][-1]))
    ctx.sample(block[0])


# ---------------------------------------------------------------------------
# clause: a parameter documented as "number or Angle" gives the same result in either representation

def _values(r):
    """Numeric content of a result, whatever carries it (a function given an Angle may answer with an
    Angle where it answers a float to a float)."""
    if isinstance(r, Angle):
        return repr(r._deg)
    if isinstance(r, (tuple, list)):
        return tuple(_values(v) for v in r)
    return canon(r)


def check_representation(case):
    name = case["callable"]
    S = SP.specs()
    spec = S[name]
    base = base_tags(spec)
    out = []
    for i, (kind, b, alts) in enumerate(spec["params"]):
        if kind != "numangle":
            continue
        vals = []
        for v in [b] + list(alts):
            x = v[1] if (isinstance(v, tuple) and v and v[0] == "A") else v
            if isinstance(x, (int, float)) and not isinstance(x, bool) and x not in vals:
                vals.append(x)
        for x in vals:
            # (an int is not tried: several of these parameters are documented as "float, Angle" only)
            forms = [("float", float(x)), ("Angle", ("A", float(x)))]
            res = []
            for lab, tag in forms:
                tags = list(base)
                tags[i] = tag
                k, r, _, _ = do_call(name, spec, tags, {})
                res.append((lab, k, _values(r) if k == "ok" else type(r).__name__))
            ref = res[0]
            for lab, k, r in res[1:]:
                if (k, r) != (ref[1], ref[2]):
                    out.append("%s: parameter %d = %r as %s gives %r, as float %r" % (name, i, x, lab, r, ref[2]))
    return out


def run_representation(block, ctx):
    S = SP.specs()
    for name in block:
        n = sum(1 for p in S[name]["params"] if p[0] == "numangle")
        if not n:
            continue
        ctx.evals += 3 * n
        ctx.transitions += 3 * n
        ctx.states += 1
        ctx.traces += 1
        ctx.nt_count += 1
        for msg in check_representation({"callable": name}):
            ctx.viol({"callable": name}, msg, site="representation")
        ctx.outcome(name)
    ctx.sample({"callable": block[0]})


# ---------------------------------------------------------------------------
# clause: the comparison tolerance carried by an Angle argument is not part of the input value

ARG_TOLS = [0.5, 1e-3, 0.0]


def check_arg_tolerance(case):
    """Every Angle handed to a call (arguments and, for Angle methods that return numbers, the receiver is
    left alone) is given a non-default comparison tolerance with set_tolerance(); the numeric result must
    be the one obtained with default-tolerance Angles: what a function computes depends on the values of
    its angles, not on how coarsely the caller wants to compare them elsewhere."""
    name = case["callable"]
    S = SP.specs()
    spec = S[name]
    if spec["mutator"] or name.startswith("Angle."):
        return []
    base = base_tags(spec)
    if not any(isinstance(t, tuple) and t and t[0] in ("A", "AL", "AT") for t in base):
        return []
    out = []
    k0, r0, _, _ = do_call(name, spec, base, {})
    ref = _values(r0) if k0 == "ok" else type(r0).__name__
    # small-valued variants too: a tolerance only matters when an angle is compared with something close
    variants = [base]
    small = [("A", 0.004) if (isinstance(t, tuple) and t and t[0] == "A") else t for t in base]
    if small != base:
        variants.append(small)
    for tags in variants:
        kb, rb, _, _ = do_call(name, spec, tags, {})
        refv = _values(rb) if kb == "ok" else type(rb).__name__
        for tol in ARG_TOLS:
            pool = {}
            for t in tags:
                obj = mk(t, pool)
                for a in (obj if isinstance(obj, (list, tuple)) else [obj]):
                    if isinstance(a, Angle):
                        a.set_tolerance(tol)
            k, r, _, _ = do_call(name, spec, tags, pool)
            got = _values(r) if k == "ok" else type(r).__name__
            if got != refv:
                out.append("%s%r with the Angle arguments' tolerance set to %r gives %r, with the default tolerance %r"
                           % (name, tuple(tags), tol, got, refv))
    return out


def run_arg_tolerance(block, ctx):
    for name in block:
        ctx.evals += 2 * (1 + len(ARG_TOLS))
        ctx.transitions += 2 * len(ARG_TOLS)
        ctx.states += 1
        ctx.traces += 1
        res = check_arg_tolerance({"callable": name})
        if res is not None:
            ctx.nt_count += 1
        for msg in res:
            ctx.viol({"callable": name}, msg, site="argument_tolerance")
        ctx.outcome(name)
    ctx.sample({"callable": block[0]})


# ---------------------------------------------------------------------------
# clause: a result belongs to the caller - changing it must not change what the next call returns

def _scribble(r, depth=0):
    """Change every mutable object reachable in a result, in place."""
    n = 0
    if isinstance(r, Angle):
        r.set(123.456)
        r.set_tolerance(0.25)
        return 1
    if isinstance(r, Epoch):
        r.set(1987, 6, 19.5)
        return 1
    if isinstance(r, list):
        for v in r:
            n += _scribble(v, depth + 1)
        r.append("scribbled")
        return n + 1
    if isinstance(r, dict):
        for v in r.values():
            n += _scribble(v, depth + 1)
        r["scribbled"] = True
        return n + 1
    if isinstance(r, tuple):
        for v in r:
            n += _scribble(v, depth + 1)
        return n
    if isinstance(r, (Interpolation, CurveFitting)) and depth < 2:
        try:
            r.set([0.0, 1.0, 2.0], [5.0, 4.0, 9.0])
            return 1
        except Exception:
            return 0
    return 0


def check_result_aliasing(case):
    """call; overwrite every Angle / Epoch / list in the returned value in place (the caller owns it);
    call again with equal arguments: the second result must be the first result as it was."""
    name = case["callable"]
    S = SP.specs()
    spec = S[name]
    if spec["mutator"]:
        return []
    base = base_tags(spec)
    k1, r1, _, _ = do_call(name, spec, base, {})
    if k1 != "ok":
        return []
    before = canon(r1)
    if not _scribble(r1):
        return []
    k2, r2, _, _ = do_call(name, spec, base, {})
    after = canon(r2) if k2 == "ok" else ("raised", type(r2).__name__)
    if after != before:
        return ["%s returned %r; after the caller changed that result in place the same call returns %r"
                % (name, before, after)]
    return []


def run_result_aliasing(block, ctx):
    for name in block:
        ctx.evals += 2
        ctx.transitions += 2
        ctx.states += 1
        ctx.traces += 1
        ctx.nt_count += 1
        for msg in check_result_aliasing({"callable": name}):
            ctx.viol({"callable": name}, msg, site="result_aliasing")
        ctx.outcome(name)
    ctx.sample({"callable": block[0]})


# ---------------------------------------------------------------------------
# clause: in-domain families that other properties construct (their seams), here only for "does not raise, returns
# values of the documented kind, leaves its arguments alone"

# -- call histories on ONE Interpolation object: observers must not leave anything behind ---------------------------

IH_TABLES = {
    "three_roots": ([-2.0, -1.0, 0.0, 1.0, 2.0], lambda x: (x + 1.3) * (x - 0.2) * (x - 1.4)),
    "wave": ([0.0, 1.0, 2.0, 3.0, 4.0, 5.0, 6.0], lambda x: math.sin(1.7 * x) + 0.1),
}
IH_OPS = {
    "three_roots": [("root", -2, 2), ("root", -1, 1), ("root", 1, 2), ("root", -2, -1), ("root", 2, -2), ("root", 0, 0),
                    ("minmax", -2, 0), ("minmax", 0, 2), ("call", 0.7), ("derivative", -0.4)],
    "wave": [("root", 0, 6), ("root", 1, 3), ("root", 3, 5), ("root", 5, 6), ("root", 2, 4.5), ("minmax", 0, 2),
             ("minmax", 2, 4), ("minmax", 0, 6), ("call", 3.3), ("derivative", 5.1)],
}


def _ih_do(it, op):
    try:
        if op[0] == "root":
            return ("ok", it.root(op[1], op[2]))
        if op[0] == "minmax":
            return ("ok", it.minmax(op[1], op[2]))
        if op[0] == "call":
            return ("ok", it(op[1]))
        return ("ok", it.derivative(op[1]))
    except Exception as ex:
        return ("exc", type(ex).__name__)


def check_interp_history(case):
    """All operations are observers: after any history on ONE object each answer is the answer of a fresh object."""
    xs, fn = IH_TABLES[case["table"]]
    ys = [fn(x) for x in xs]
    it = Interpolation(list(xs), list(ys))
    for k, op in enumerate(case["history"]):
        op = tuple(op)
        got = _ih_do(it, op)
        exp = _ih_do(Interpolation(list(xs), list(ys)), op)
        if got != exp:
            return ["Interpolation[%s]: %r after the calls %r gives %r, on a fresh object %r"
                    % (case["table"], op, case["history"][:k], got, exp)]
    return []


def interp_history_cases(tier):
    import itertools
    depth = 4 if tier == "thorough" else 3
    return [{"table": t, "history": [list(o) for o in h]} for t in IH_TABLES for d in range(2, depth + 1)
            for h in itertools.product(IH_OPS[t], repeat=d)]


def run_interp_history(block, ctx):
    for case in block:
        ctx.evals += 2 * len(case["history"])
        ctx.transitions += len(case["history"])
        ctx.traces += 1
        ctx.nt_count += 1
        for msg in check_interp_history(case):
            ctx.viol(case, msg, site="interpolation_history")
        ctx.outcome((case["table"], case["history"][-1][0]))
    ctx.states += len(block)
    ctx.sample(block[0])


def imported_cases():
    from . import c14
    out = []
    for c in c14.rts_cases()[::7] + c14.rts_seam_cases()[::3] + c14.rts_zero_hour_cases():
        out.append(("rts", c))
    # near-parabolic and hyperbolic-side orbits of the series branch (0.98 <= e, e != 1): every iteration count
    for q in (0.1, 0.2009, 0.5871018, 1.0, 3.0):
        for k in range(0, 31):
            e = 0.98 + 0.002 * k
            if abs(e - 1.0) < 1e-9:
                continue
            for j in range(-12, 13):
                out.append(("minor", {"q": q, "e": round(e, 6), "dt": j * 14.3 + 0.76}))
    # root / extremum searches of C12's tables (symmetric tables: the derivative is exactly zero at the mid-point)
    from . import c12
    for name, (xs, fn, pts) in c12.ROOT_TABLES.items():
        for kind in ("root", "minmax"):
            for xl in pts[:10]:
                for xh in pts[:10]:
                    out.append(("interp", {"table": name, "kind": kind, "xl": xl, "xh": xh}))
    for ys in ([-4, 5, 4, 6, 4], [4, 5, 4, 5, 4], [0.5 - 8, 0.5 - 1, 0.5, 1.5, 8.5], [14, 0, 0, 2, 18]):
        for kind in ("root", "minmax"):
            for (xl, xh) in ((-2, 2), (-1, 1), (-2, 0), (0, 2), (-2, 1), (-1.5, 1.5)):
                out.append(("interp", {"xs": [-2, -1, 0, 1, 2], "ys": ys, "kind": kind, "xl": xl, "xh": xh}))
    # three bodies on one meridian in every order of their declinations (arcs parallel and anti-parallel)
    import itertools
    for ra, ra2 in ((174.0, 174.0), (10.0, 190.0), (0.0, 0.0)):
        for d1, d2, d3 in itertools.permutations([-84.0, -74.0, -34.0, 0.5, 12.0, 67.0], 3):
            out.append(("line", {"ra": [ra, ra2, ra], "dec": [d1, d2, d3]}))
    # civil -> Moslem on every day of January and December (where its year estimate is corrected)
    for y in range(623, 3001):
        for mo in (1, 12):
            out.append(("g2m", {"y": y, "m": mo}))
    return out


def check_imported(item):
    kind, c = item
    if kind == "rts":
        from . import c14
        from pymeeus.Coordinates import times_rise_transit_set
        A = [c14.body(c["a0"], c["d0"], c["motion"][0], c["motion"][1], t) for t in (-1, 0, 1)]
        args = [Angle(c["lon_w"]), Angle(c["lat"])] + [Angle(v) for p in A for v in p] + \
            [Angle(c["h0"]), c14.DT, Angle(c.get("theta0", c14.THETA0))]
        before = [a._deg for a in args if isinstance(a, Angle)]
        try:
            r = times_rise_transit_set(*args)
        except Exception as ex:
            return ["times_rise_transit_set raised %s: %s on in-domain arguments %r" % (type(ex).__name__, ex, c)]
        if [a._deg for a in args if isinstance(a, Angle)] != before:
            return ["times_rise_transit_set changed its arguments (%r)" % (c,)]
        if r != (None, None, None) and not (isinstance(r, tuple) and len(r) == 3 and all_finite(r)):
            return ["times_rise_transit_set returned %r for %r" % (r, c)]
        return []
    if kind == "minor":
        T = Epoch(1998, 4, 14.4358)
        try:
            mb = Minor(c["q"], c["e"], Angle(11.94524), Angle(334.75006), Angle(186.23352), T)
            r = mb.geocentric_position(T + c["dt"])
        except ValueError as ex:
            if "convergence" in str(ex).lower():
                return [("noconv", "Minor(q=%r, e=%r).geocentric_position at T%+g d raised ValueError: %s"
                         % (c["q"], c["e"], c["dt"], ex))]
            return ["Minor(q=%r, e=%r).geocentric_position at T%+g d raised ValueError: %s" % (c["q"], c["e"], c["dt"], ex)]
        except Exception as ex:
            return ["Minor(q=%r, e=%r).geocentric_position at T%+g d raised %s: %s"
                    % (c["q"], c["e"], c["dt"], type(ex).__name__, ex)]
        if not all_finite(r):
            return ["Minor(q=%r, e=%r) at T%+g d returned %r" % (c["q"], c["e"], c["dt"], canon(r))]
        return []
    if kind == "interp":
        from . import c12
        if "table" in c:
            xs, fn, _ = c12.ROOT_TABLES[c["table"]]
            ys = [float(fn(x)) for x in xs]
        else:
            xs, ys = c["xs"], c["ys"]
        try:
            it = Interpolation([float(x) for x in xs], [float(y) for y in ys])
            r = it.root(c["xl"], c["xh"]) if c["kind"] == "root" else it.minmax(c["xl"], c["xh"])
        except ValueError as ex:
            # documented refusals: no sign change, equal limits.  A refusal of an interval on which the interpolant
            # does change sign is an exception on in-domain arguments (judged with C12's exact polynomial)
            if "table" in c:
                missed = [m for site, m, _ in c12.check_root(c) if site == "missed"]
                if missed:
                    return ["in-domain call refused: " + missed[0]]
            return []
        except Exception as ex:
            return ["Interpolation(%r, %r).%s(%r, %r) raised %s: %s" % (list(xs), ys, c["kind"], c["xl"], c["xh"],
                                                                      type(ex).__name__, ex)]
        if not all_finite(r):
            return ["Interpolation.%s returned %r for %r" % (c["kind"], r, c)]
        return []
    if kind == "line":
        from pymeeus.Coordinates import straight_line
        args = [Angle(v) for pair in zip(c["ra"], c["dec"]) for v in pair]
        try:
            r = straight_line(*args)
        except Exception as ex:
            return ["straight_line of three bodies on one meridian %r raised %s: %s" % (c, type(ex).__name__, ex)]
        if not all_finite(r):
            return ["straight_line returned %r for %r" % (canon(r), c)]
        return []
    out = []
    for d in range(1, 32):
        try:
            r = Epoch.gregorian2moslem(c["y"], c["m"], d)
        except Exception as ex:
            out.append("gregorian2moslem(%d,%d,%d) raised %s: %s" % (c["y"], c["m"], d, type(ex).__name__, ex))
            continue
        if not (isinstance(r, tuple) and len(r) == 3 and 1 <= r[1] <= 12 and 1 <= r[2] <= 30 and r[0] >= 1):
            out.append("gregorian2moslem(%d,%d,%d) = %r is not a date of the Moslem calendar" % (c["y"], c["m"], d, r))
    return out


def run_imported(block, ctx):
    g0 = global_state()
    for item in block:
        ctx.evals += 31 if item[0] == "g2m" else 1
        ctx.nt_count += 1
        ctx.transitions += 1
        for msg in check_imported(item):
            if isinstance(msg, tuple):
                # the near-parabolic series does not converge far from perihelion (finding C20-d, the C09-d defect
                # seen from here): accepted only for the listed (q, e, t - T)
                ctx.viol({"family": "minor", "q": item[1]["q"], "e": item[1]["e"], "dt": item[1]["dt"]}, msg[1],
                         site="imported_minor_noconv")
                continue
            ctx.viol({"family": item[0], "case": item[1]}, msg, site="imported_" + item[0])
        ctx.outcome(item[0])
    dg = diff_keys(g0, global_state())
    if dg:
        ctx.viol({"family": block[0][0]}, "calls changed module-level state: %s" % dg[:5], site="globals_changed")
    ctx.states += 1
    ctx.traces += 1
    ctx.sample({"family": block[0][0], "case": block[0][1]})


def clauses(tier):
    S = SP.specs()
    names = sorted(S)
    # heavier callables first so that the pool of workers stays busy
    order = sorted(names, key=lambda n: -S[n]["cost"])
    tot_blocks = [{"names": blk, "d": 2 if tier == "thorough" else 1} for blk in chunks(order, 64)]
    baseline()
    return [
        Clause("catalogue", [0], run_catalogue, check_catalogue, floor=200, shape="H"),
        Clause("purity", chunks(order, 48), run_purity, lambda c: [m for _, m in check_purity(c)], floor=200,
               shape="H"),
        Clause("pair_histories", order, run_pairs, replay_pair, floor=1000, shape="H"),
        Clause("copy_independence", chunks(copy_cases(), 8), run_copy, check_copy, floor=50, shape="H"),
        Clause("reused_arguments", chunks(order, 32), run_reuse, check_reuse, floor=100, shape="H"),
        Clause("near_arguments", chunks(order, 32), run_near, check_near, floor=100, shape="H"),
        Clause("totality", tot_blocks, run_totality, replay_totality, floor=500, shape="H"),
        Clause("representation_forms", chunks([n for n in order if any(p[0] == "numangle" for p in SP.specs()[n]["params"])], 4),
               run_representation, check_representation, floor=10, shape="H"),
        Clause("result_aliasing", chunks(order, 32), run_result_aliasing, check_result_aliasing, floor=100, shape="H"),
        Clause("argument_tolerance", chunks(order, 32), run_arg_tolerance, check_arg_tolerance, floor=100, shape="H"),
        Clause("dense_domains", chunks(dense_cases(), 64), run_dense, lambda c: [m for _, m in check_dense(c)],
               floor=5000, shape="H"),
        Clause("interpolation_history", chunks(interp_history_cases(tier), 32), run_interp_history,
               check_interp_history, floor=1000, shape="H"),
        Clause("imported_domains", chunks(imported_cases(), 32), run_imported,
               lambda c: [(m[1] if isinstance(m, tuple) else m) for m in check_imported(
                   (c["family"], c["case"] if "case" in c else {"q": c["q"], "e": c["e"], "dt": c["dt"]}))], floor=5000,
               shape="H"),
        Clause("object_reset", chunks(reset_cases(tier), 8), run_reset, check_reset, floor=100, shape="H"),
        Clause("boundary_probes", chunks(probe_cases(), 4), run_probes, _replay_probe, floor=50, shape="H"),
    ]
