"""C15 - Moon position is physical; lunar event finders agree with it (L)."""
import math

from ..engine import Clause, chunks
from ..ref import calendar as cal

from pymeeus.Angle import Angle
from pymeeus.Epoch import Epoch
from pymeeus.Moon import Moon
from pymeeus.Sun import Sun

PROPERTY = "C15"
LEVEL = "exploration"
RULE = ("position: epoch lattice (quick every 25th year x 20 phases; thorough every 3 days -2000..4000); "
        "finders: every (finder, target) x query lattice in steps of 1/20 period (quick: 7 eras x 40 "
        "periods plus every calendar day of years -1000, -4, 0, 100, 1500, 1582, 1900, 2000; thorough: "
        "the whole range); every distinct result (thorough: every 10th) is checked against the Moon/Sun "
        "positions; non-trivial = each distinct event, each query on 29 February or within 2 days of a "
        "result (where the period count rounds either way), each position epoch")
ASSUMPTIONS = ["event oracles use Moon.apparent_ecliptical_pos / geocentric_ecliptical_pos / "
               "apparent_equatorial_pos and Sun.apparent_geocentric_position of the library itself",
               "extrema are located by ternary search within +-1.5 days of the returned instant",
               "'natural variation' of the spacing: period x [0.85, 1.15] (perigee-to-perigee really varies "
               "24.6-28.6 days)"]
FINDERS = {"moon_phase": (["new", "first", "full", "last"], 29.530588861),
           "moon_perigee_apogee": (["perigee", "apogee"], 27.55454989),
           "moon_passage_nodes": (["ascending", "descending"], 27.212220817),
           "moon_maximum_declination": (["northern", "southern"], 27.321582241)}
FAR_LIMIT = 1.6 * 29.530588861
J2000 = 2451545.0
_FAST = None


def fast():
    global _FAST
    if _FAST is None:
        _FAST = cal.Fast(-2100, 4100)
    return _FAST


def bound(tier):
    return ("whole range -2000..4000 at 1/20 period" if tier == "thorough" else
            "7 eras x 40 periods + 8 full calendar years, at 1/20 period / daily")


def y2jde(y):
    return J2000 + (y - 2000.0) * 365.25


def wrap180(x):
    return (x + 180.0) % 360.0 - 180.0


# -- position ----------------------------------------------------------------------------------

def check_position(j):
    out = []
    e = Epoch(j)
    try:
        lon, lat, dist, par = Moon.geocentric_ecliptical_pos(e)
        l2 = Moon.geocentric_ecliptical_pos(e + 1.0)[0]
        k = Moon.illuminated_fraction_disk(e)
        al, ab, ad, ap = Moon.apparent_ecliptical_pos(e)
        sl, sb, sr = Sun.apparent_geocentric_position(e)
        om0, om1 = Moon.longitude_mean_ascending_node(e), Moon.longitude_mean_ascending_node(e + 100.0)
        pg0, pg1 = Moon.longitude_mean_perigee(e), Moon.longitude_mean_perigee(e + 100.0)
    except Exception as ex:
        return [("exception", "Moon position at JDE %r raised %r" % (j, ex), None)]
    if not (356000.0 <= dist <= 407000.0):
        out.append(("distance", "Moon distance %r km at JDE %r" % (dist, j), dist))
    if abs(lat._deg) > 5.35:
        out.append(("latitude", "Moon latitude %r at JDE %r" % (lat._deg, j), abs(lat._deg)))
    d = abs(par._deg - math.degrees(math.asin(6378.14 / dist)))
    if d > 1e-9:
        out.append(("parallax", "parallax %r vs asin(6378.14/%r) at JDE %r" % (par._deg, dist, j), d))
    rate = wrap180(l2._deg - lon._deg)
    if not (11.5 <= rate <= 15.6):
        out.append(("rate", "Moon moves %r deg in one day at JDE %r" % (rate, j), rate))
    if not (0.0 <= k <= 1.0):
        out.append(("fraction_range", "illuminated fraction %r at JDE %r" % (k, j), None))
    cospsi = math.cos(ab.rad()) * math.cos(al.rad() - sl.rad())
    psi = math.acos(max(-1.0, min(1.0, cospsi)))
    R = sr * 149597870.7
    i = math.atan2(R * math.sin(psi), ad - R * cospsi)
    kk = (1.0 + math.cos(i)) / 2.0
    if abs(k - kk) > 0.01:
        out.append(("fraction_geometry", "illuminated fraction %r, geometry gives %r at JDE %r" % (k, kk, j), abs(k - kk)))
    rn = wrap180(om1._deg - om0._deg) / 100.0
    rp = wrap180(pg1._deg - pg0._deg) / 100.0
    if abs(rn - (-1934.1362891 / 36525.0)) > 0.01 * 1934.136 / 36525.0:
        out.append(("node_rate", "mean node moves %r deg/day at JDE %r" % (rn, j), rn))
    if abs(rp - 4069.0137287 / 36525.0) > 0.01 * 4069.0137 / 36525.0:
        out.append(("perigee_rate", "mean perigee moves %r deg/day at JDE %r" % (rp, j), rp))
    return out


def run_position(block, ctx):
    for j in block:
        ctx.evals += 1
        ctx.nt_count += 1
        for site, msg, dev in check_position(j):
            ctx.viol({"jde": j}, msg, dev=dev, site=site)
            ctx.maxi(site, dev)
        ctx.obs(j)
    ctx.outcome(len(block))
    ctx.sample({"jde": block[0]})


# -- the Moon crossing the ecliptic: the two adjacent doubles between which its latitude changes sign ---------------

def _moon_views(j):
    e = Epoch(j)
    lon, lat, dist, par = Moon.geocentric_ecliptical_pos(e)
    al, ab, ad, ap = Moon.apparent_ecliptical_pos(e)
    ra, dec, d3, p3 = Moon.apparent_equatorial_pos(e)
    return [lon._deg, lat._deg, dist, par._deg, al._deg, ab._deg, ad, ap._deg, ra._deg, dec._deg, d3, p3._deg,
            Moon.illuminated_fraction_disk(e), Moon.position_bright_limb(e)._deg]


VIEW_NAMES = ["longitude", "latitude", "distance", "parallax", "apparent longitude", "apparent latitude",
              "apparent distance", "apparent parallax", "right ascension", "declination", "equatorial distance",
              "equatorial parallax", "illuminated fraction", "position angle of the bright limb"]


def check_continuity(case):
    """Two adjacent doubles (4e-5 s apart): every view of the Moon's position moves by less than 1e-7 of its scale
    (the Moon covers 2e-8 degree in that time)."""
    lo, hi = case["lo"], case["hi"]
    try:
        a, b = _moon_views(lo), _moon_views(hi)
    except Exception as ex:
        return [("exception", "Moon position at JDE %r / %r raised %r" % (lo, hi, ex), None)]
    out = []
    for nm, x, y in zip(VIEW_NAMES, a, b):
        if "limb" in nm and (hi - lo > 1e-8 or not (0.01 < a[12] < 0.99)):
            continue        # the bright limb turns by 180 degrees within minutes at new and full Moon
        d = abs(x - y)
        if "longitude" in nm or "ascension" in nm or "angle" in nm:
            d = abs(wrap180(x - y))
        scale = 400000.0 if "distance" in nm else 1.0
        if hi - lo > 1e-8:
            # instants 1e-6 day (0.09 s) apart: the Moon covers 1.5e-5 degree
            scale *= 1000.0 if "limb" in nm else 30.0 if ("itude" in nm or "ascension" in nm or "declin" in nm) else 1.0
        if d > 1e-6 * scale:
            out.append(("continuity", "Moon %s jumps from %r to %r between the adjacent instants JDE %r and %r (%s)"
                        % (nm, x, y, lo, hi, case.get("what", "")), d / scale))
    return out


def _nodes_queries(lo, hi):
    """moon_passage_nodes asked at, and a minute either side of, an instant at which the Moon is ON the ecliptic: in
    time order the answers never go backwards, and none of them is the query itself handed back (a passage through
    the node of the requested kind lies within 0.01 day of a true latitude zero of that direction)."""
    out = []
    for target in ("ascending", "descending"):
        qs = [lo - 60.0 / 86400.0, lo, hi, hi + 60.0 / 86400.0]
        try:
            rs = [Moon.moon_passage_nodes(Epoch(q), target).jde() for q in qs]
        except Exception as ex:
            out.append(("nodes_exception", "moon_passage_nodes(%r, %r) raised %r" % (lo, target, ex), None))
            continue
        for a, b, qa, qb in zip(rs, rs[1:], qs, qs[1:]):
            if b < a - 1e-6:
                out.append(("nodes_backwards", "moon_passage_nodes(%s): query %r gets JDE %r, the earlier query %r got %r"
                            % (target, qb, b, qa, a), a - b))
        if len(set(round(r, 4) for r in rs)) > 2:
            out.append(("nodes_scatter", "moon_passage_nodes(%s) for four queries within two minutes of JDE %r gives %r"
                        % (target, lo, rs), None))
    return out


def run_latitude_zeros(spec, ctx):
    j, end = spec[0], spec[1]
    if len(spec) > 2:
        f = lambda t: Moon.geocentric_ecliptical_pos(Epoch(t))[2] - 385000.56
    else:
        f = lambda t: Moon.geocentric_ecliptical_pos(Epoch(t))[1]._deg
    prev = f(j)
    found = 0
    while j < end:
        j2 = j + 1.0
        cur = f(j2)
        ctx.evals += 1
        if (prev > 0.0) != (cur > 0.0):
            lo, hi, slo = j, j2, prev > 0.0
            while True:
                mid = lo + (hi - lo) / 2.0
                if mid <= lo or mid >= hi:
                    break
                ctx.evals += 1
                if (f(mid) > 0.0) == slo:
                    lo = mid
                else:
                    hi = mid
            found += 1
            ctx.nt_count += 1
            case = {"lo": lo, "hi": hi, "what": "latitude changes sign" if len(spec) == 2 else "distance passes 385000.56 km"}
            for c in (case, {"lo": lo - 1e-6, "hi": lo, "what": "1e-6 d before the latitude changes sign"},
                      {"lo": hi, "hi": hi + 1e-6, "what": "1e-6 d after the latitude changes sign"}):
                for site, msg, dev in check_continuity(c):
                    ctx.viol(c, msg, dev=dev, site="latitude_zero_" + site)
            for t in (lo, hi, math.nextafter(lo, -math.inf), math.nextafter(hi, math.inf)):
                for site, msg, dev in check_position(t):
                    ctx.viol({"jde": t}, msg, dev=dev, site="latitude_zero_" + site)
            if len(spec) == 2:
                for site, msg, dev in _nodes_queries(lo, hi):
                    ctx.viol({"lo": lo, "hi": hi, "nodes": True}, msg, dev=dev, site="latitude_zero_" + site)
        j, prev = j2, cur
    ctx.count("latitude_zero_crossings", found)
    ctx.outcome(found)
    ctx.obs(spec, found)
    ctx.sample({"lo": spec[0], "hi": math.nextafter(spec[0], math.inf), "what": "sample"})


# -- the arguments of the large periodic terms: zeros of their sines / cosines, and instants at which two of them are
# -- equal or opposite ---------------------------------------------------------------------------------------------

BIG_ROWS = [(0, 0, 1, 0), (2, 0, -1, 0), (2, 0, 0, 0), (0, 0, 2, 0), (0, 1, 0, 0), (0, 0, 0, 2), (2, 0, -2, 0),
            (2, -1, -1, 0), (2, 0, 1, 0), (2, -1, 0, 0), (0, 1, -1, 0), (1, 0, 0, 0)]


def mean_args(j):
    """D, M, M', F in degrees (Meeus 47.2 - 47.5), the harness's own evaluation."""
    T = (j - J2000) / 36525.0
    D = 297.8501921 + T * (445267.1114034 + T * (-0.0018819 + T * (1.0 / 545868.0 - T / 113065000.0)))
    M = 357.5291092 + T * (35999.0502909 + T * (-0.0001536 + T / 24490000.0))
    Mp = 134.9633964 + T * (477198.8675055 + T * (0.0087414 + T * (1.0 / 69699.0 - T / 14712000.0)))
    F = 93.2720950 + T * (483202.0175233 + T * (-0.0036539 + T * (-1.0 / 3526000.0 + T / 863310000.0)))
    return D, M, Mp, F


def _row_arg(row, a):
    return row[0] * a[0] + row[1] * a[1] + row[2] * a[2] + row[3] * a[3]


def argument_functions():
    """(label, function of JDE whose zeros are wanted, in degrees wrapped to (-90, 90] or (-180, 180])."""
    out = []
    for r in BIG_ROWS:
        out.append(("sin or cos of the argument %r is zero" % (r,),
                    lambda j, r=r: wrap180(2.0 * _row_arg(r, mean_args(j))) / 2.0))
    for i, r1 in enumerate(BIG_ROWS):
        for r2 in BIG_ROWS[i + 1:]:
            for sg in (1.0, -1.0):
                out.append(("arguments %r and %s%r coincide" % (r1, "-" if sg < 0 else "", r2),
                            lambda j, r1=r1, r2=r2, sg=sg: wrap180(_row_arg(r1, mean_args(j)) - sg * _row_arg(r2, mean_args(j)))))
    return out


def run_argument_events(spec, ctx):
    """spec = (index of the argument function, start JDE, span in days).  Zeros are located with the harness's own
    mean arguments (to adjacent doubles); all 14 views of the Moon's position must then be continuous across each
    of the 7 pairs of adjacent doubles around the zero and towards 1e-6 day on either side.  (A term skipped where
    its cosine vanishes, a sine taken from a memo keyed by |argument| or by the argument in a dict, shows as a jump
    on single doubles there.)"""
    k, j0, span = spec
    label, f = argument_functions()[k]
    t, prev = j0, f(j0)
    found = 0
    while t < j0 + span:
        t2 = t + 0.25
        cur = f(t2)
        ctx.evals += 1
        if (prev > 0.0) != (cur > 0.0) and abs(prev - cur) < 60.0:
            lo, hi, slo = t, t2, prev > 0.0
            while True:
                mid = lo + (hi - lo) / 2.0
                if mid <= lo or mid >= hi:
                    break
                if (f(mid) > 0.0) == slo:
                    lo = mid
                else:
                    hi = mid
            found += 1
            pts = [lo]
            for _ in range(3):
                pts.insert(0, math.nextafter(pts[0], -math.inf))
            pts.append(hi)
            for _ in range(3):
                pts.append(math.nextafter(pts[-1], math.inf))
            cases = [{"lo": a, "hi": b, "what": label} for a, b in zip(pts, pts[1:])]
            cases += [{"lo": pts[0] - 1e-6, "hi": pts[0], "what": label}, {"lo": pts[-1], "hi": pts[-1] + 1e-6, "what": label}]
            for c in cases:
                ctx.evals += 2
                ctx.nt_count += 1
                for site, msg, dev in check_continuity(c):
                    ctx.viol(c, msg, dev=dev, site="argument_event_" + site)
        t, prev = t2, cur
    ctx.count("argument_events", found)
    ctx.outcome((k, found > 0))
    ctx.obs(spec, found)
    ctx.sample({"lo": j0, "hi": math.nextafter(j0, math.inf), "what": label})


def argument_event_specs(tier):
    n = len(argument_functions())
    span = 400.0 if tier == "thorough" else 60.0
    starts = [2455000.0, y2jde(-1990), y2jde(3900)] + ([y2jde(1000), y2jde(2050)] if tier == "thorough" else [])
    # the six arguments of the phase-angle formula of the illuminated fraction: their coincidences over two years
    phase = {(0, 0, 1, 0), (0, 1, 0, 0), (2, 0, -1, 0), (2, 0, 0, 0), (0, 0, 2, 0), (1, 0, 0, 0)}
    long_k = set()
    k = len(BIG_ROWS)
    for i, r1 in enumerate(BIG_ROWS):
        for r2 in BIG_ROWS[i + 1:]:
            for sg in (1.0, -1.0):
                if r1 in phase and r2 in phase and sg > 0:
                    long_k.add(k)
                k += 1
    out = []
    for k in range(n):
        for j0 in starts:
            if k in long_k and span < 200.0:
                out += [(k, j0 + q * 182.5, 182.5) for q in range(4)]
            else:
                out.append((k, j0, span))
    return out


# -- finders --------------------------------------------------------------------------------------

def call(fn, target, j):
    r = getattr(Moon, fn)(Epoch(j), target)
    if isinstance(r, tuple):
        return r[0].jde(), r[1]
    return r.jde(), None


def elong(e):
    l = Moon.apparent_ecliptical_pos(e)[0]
    sl = Sun.apparent_geocentric_position(e)[0]
    return (l._deg - sl._deg) % 360.0


def check_event(fn, target, re, extra):
    """Event clause for one distinct result."""
    out = []
    e = Epoch(re)
    if fn == "moon_phase":
        tgt = {"new": 0, "first": 90, "full": 180, "last": 270}[target]
        d = abs(wrap180(elong(e) - tgt))
        if d > 0.06:
            out.append(("event_phase", "moon_phase %r at JDE %r: Moon-Sun apparent longitude difference is %.4f deg "
                        "from %d" % (target, re, d, tgt), d))
        return out
    if fn == "moon_passage_nodes":
        b = Moon.geocentric_ecliptical_pos(e)[1]._deg
        if abs(b) > 0.02:
            out.append(("event_node", "moon_passage_nodes %r at JDE %r: latitude %r" % (target, re, b), abs(b)))
        # direction of the crossing
        b2 = Moon.geocentric_ecliptical_pos(Epoch(re + 0.25))[1]._deg
        if (b2 > b) != (target == "ascending"):
            out.append(("event_node_direction", "moon_passage_nodes %r at JDE %r: latitude goes %r -> %r"
                        % (target, re, b, b2), None))
        return out
    if fn == "moon_perigee_apogee":
        def f(x):
            return Moon.geocentric_ecliptical_pos(Epoch(x))[2]
        sgn = 1.0 if target == "perigee" else -1.0
    else:
        def f(x):
            return Moon.apparent_equatorial_pos(Epoch(x))[1]._deg
        sgn = 1.0 if target == "southern" else -1.0
    a, b = re - 1.5, re + 1.5
    for _ in range(40):
        m1 = a + (b - a) / 3.0
        m2 = b - (b - a) / 3.0
        if sgn * f(m1) < sgn * f(m2):
            b = m2
        else:
            a = m1
    x = (a + b) / 2.0
    if abs(x - re) > 0.25:
        out.append(("event_extremum", "%s %r at JDE %r: the extremum is %.3f d away (JDE %r)"
                    % (fn, target, re, x - re, x), abs(x - re)))
    if fn == "moon_maximum_declination" and extra is not None:
        d = abs(abs(f(x)) - abs(extra._deg))
        if d > 0.15:
            out.append(("event_declination", "reported declination %r, extreme declination %r at JDE %r"
                        % (extra._deg, f(x), x), d))
        if (f(re) > 0) != (target == "northern"):
            out.append(("event_hemisphere", "moon_maximum_declination %r at JDE %r has declination %r"
                        % (target, re, f(re)), None))
    if fn == "moon_perigee_apogee" and extra is not None:
        d = abs(extra._deg - math.degrees(math.asin(6378.14 / f(re))))
        if d > 0.01:
            out.append(("event_parallax", "reported parallax %r vs distance %r km at JDE %r" % (extra._deg, f(re), re), d))
    return out


def run_sweep(spec, ctx):
    """spec = (fn, target, j_start, j_end, step, event_every, label)."""
    fn, target, j0, j1, step, every, label = spec
    per = FINDERS[fn][1]
    prev = None
    prev_q = None
    q = j0
    n_ev = 0
    while q <= j1:
        ctx.evals += 1
        y, m, d = fast().date(int(math.floor(q + 0.5)))
        leapday = (m == 2 and d == 29)
        case = {"finder": fn, "target": target, "query": q, "year": y, "leap_day": leapday,
                "julian_century": (y < 1582 and y % 100 == 0)}
        try:
            re, extra = call(fn, target, q)
        except Exception as ex:
            ctx.viol(case, "%s(%r, %r) [%d-%d-%d] raised %r" % (fn, q, target, y, m, d, ex), site="finder_exception")
            q += step
            continue
        far = abs(re - q)
        ctx.maxi("far_days_%s_%s" % (fn, target), far)
        if far > FAR_LIMIT:
            ctx.viol(case, "%s(%r, %r) = JDE %r is %.2f d from the query (limit %.2f)"
                     % (fn, q, target, re, far, FAR_LIMIT), dev=far, site="far")
        if leapday or far < 2.0:
            ctx.nt_count += 1
        if prev is not None:
            dd = re - prev
            if dd < -1e-6:
                ctx.viol(dict(case, previous_query=prev_q), "%s %r moves backwards by %r d as the query advances "
                         "from %r to %r" % (fn, target, dd, prev_q, q), dev=-dd, site="backwards")
            elif dd > 1e-6:
                g = dd / per
                ctx.maxi("gap_hi_%s_%s" % (fn, target), g)
                ctx.maxi("gap_lo_inv_%s_%s" % (fn, target), 1.0 / g)
                if not (0.85 <= g <= 1.15):
                    ctx.viol(dict(case, previous_query=prev_q), "%s %r: consecutive results %r and %r are %.3f "
                             "periods apart" % (fn, target, prev, re, g), dev=g, site="gap")
        if prev is None or re - prev > 1e-6:
            n_ev += 1
            ctx.nt_count += 1
            if n_ev % every == 0:
                for site, msg, dev in check_event(fn, target, re, extra):
                    ctx.viol(dict(case, result=re), msg, dev=dev, site=site)
                    ctx.maxi(site + "_" + fn, dev)
                ctx.count("events_checked")
        prev, prev_q = re, q
        q += step
    ctx.count("distinct_events", n_ev)
    ctx.outcome((fn, target, label, n_ev))
    ctx.obs(fn, target, label, n_ev, prev)
    ctx.sample({"finder": fn, "target": target, "from_jde": j0, "step": step, "distinct_events": n_ev})


def replay_sweep(case):
    fn, target, q = case["finder"], case["target"], case["query"]
    out = []
    per = FINDERS[fn][1]
    try:
        re, extra = call(fn, target, q)
    except Exception as ex:
        return ["%s(%r, %r) raised %r" % (fn, q, target, ex)]
    if abs(re - q) > FAR_LIMIT:
        out.append("%s(%r, %r) = %r is %.2f d from the query" % (fn, q, target, re, abs(re - q)))
    if "previous_query" in case:
        rp, _ = call(fn, target, case["previous_query"])
        dd = re - rp
        if dd < -1e-6:
            out.append("result moves backwards by %r d" % dd)
        elif dd > 1e-6 and not (0.85 <= dd / per <= 1.15):
            out.append("consecutive results %.3f periods apart" % (dd / per))
    if "result" in case:
        out += [m for _, m, _ in check_event(fn, target, re, extra)]
    return out


def check_targets(case):
    """Invalid target strings are refused; documented ones accepted."""
    out = []
    e = Epoch(2451545.0)
    for fn, (targets, per) in FINDERS.items():
        for t in ("", "NEW", "rising", "north", "apo"):
            try:
                getattr(Moon, fn)(e, t)
                out.append("%s accepted target %r" % (fn, t))
            except ValueError:
                pass
            except Exception as ex:
                out.append("%s(target=%r) raised %r" % (fn, t, ex))
    return out


def run_targets(_, ctx):
    ctx.evals += 20
    ctx.nt_count += 4
    for msg in check_targets({}):
        ctx.viol({}, msg, site="targets")
    ctx.sample({"bad_targets": ["", "NEW", "rising", "north", "apo"]})


# -- every year end: queries a fraction of a day apart across 31 December / 1 January -----------------

YE_OFFSETS = [-1.5, -0.5, -0.1, -0.001, -1e-6, 0.0, 1e-6, 0.001, 0.5, 1.0]     # days from 1 January 0h


def check_year_end(case):
    """The lunation count of every finder is derived from the fractional year: across each year end
    the results must not move backwards (and must stay one period apart) for queries hours apart."""
    fn, target, y = case["finder"], case["target"], case["year"]
    per = FINDERS[fn][1]
    j1 = fast().n(y + 1, 1, 1) - 0.5
    out = []
    prev = prev_q = None
    for off in YE_OFFSETS:
        q = j1 + off
        try:
            re, _ = call(fn, target, q)
        except Exception as ex:
            out.append(("finder_exception", "%s(%r, %r) at the end of year %d raised %r" % (fn, q, target, y, ex), None))
            continue
        if prev is not None:
            dd = re - prev
            if dd < -1e-6:
                out.append(("backwards", "%s %r moves backwards by %r d as the query advances from %r to %r "
                            "(end of year %d)" % (fn, target, dd, prev_q, q, y), -dd))
            elif dd > 1e-6 and not (0.85 <= dd / per <= 1.15):
                out.append(("gap", "%s %r: results for queries %r and %r (end of year %d) are %.3f periods apart"
                            % (fn, target, prev_q, q, y, dd / per), dd / per))
        prev, prev_q = re, q
    return out


def run_year_ends(block, ctx):
    for case in block:
        ctx.evals += len(YE_OFFSETS)
        ctx.nt_count += 1
        res = check_year_end(case)
        for site, msg, dev in res:
            ctx.viol(case, msg, dev=dev, site=site)
        ctx.outcome((case["finder"], case["target"], len(res)))
    ctx.obs(block[0], block[-1])
    ctx.sample(block[0])


# -- month seams: two queries a fraction of a second apart across 0h of the 1st of every month ------------------

def check_month_seam(case):
    fn, target, y, m = case["finder"], case["target"], case["year"], case["month"]
    per = FINDERS[fn][1]
    j1 = fast().n(y, m, 1) - 0.5
    try:
        r1, _ = call(fn, target, j1 - 1e-6)
        r2, _ = call(fn, target, j1 + 1e-6)
    except Exception as ex:
        return [("finder_exception", "%s(%r) at 0h of %d-%02d-01 raised %r" % (fn, target, y, m, ex), None)]
    if r2 < r1 - 1e-6:
        return [("seam_backwards", "%s %r: the query 1e-6 d after 0h of %d-%02d-01 gets JDE %r, the query 1e-6 d "
                 "before it JDE %r (%.3f periods back)" % (fn, target, y, m, r2, r1, (r1 - r2) / per),
                 (r1 - r2) / per)]
    return []


def run_month_seams(spec, ctx):
    fn, target, y0, y1 = spec
    for y in range(y0, y1):
        for m in range(2, 13):
            ctx.evals += 2
            case = {"finder": fn, "target": target, "year": y, "month": m}
            for site, msg, dev in check_month_seam(case):
                ctx.viol(case, msg, dev=dev, site=site)
    ctx.nt_count += (y1 - y0) * 11
    ctx.outcome((fn, target))
    ctx.obs(fn, target, y0)
    ctx.sample({"finder": fn, "target": target, "year": y0, "month": 3})


# -- one Epoch object moved with set() between queries ---------------------------------------------

RE_DATES = [(1990, 6, 1.5), (-1500, 3, 1.0), (3900, 9, 9.0), (2010, 1, 1.25), (1582, 10, 15.0), (100, 2, 29.0)]


def _outcome(fn, target, ep):
    try:
        r = getattr(Moon, fn)(ep, target)
    except ValueError:
        return ("ValueError",)
    except Exception as ex:
        return ("exception", repr(ex))
    if isinstance(r, tuple):
        return ("ok", r[0].jde(), float(r[1]))
    return ("ok", r.jde())


def check_reused_epoch(case):
    fn, target = case["finder"], case["target"]
    hist = [tuple(d) for d in case["history"]]
    out = []
    ep = Epoch(*hist[0])
    for k, d in enumerate(hist):
        if k:
            ep.set(*d)
        got = _outcome(fn, target, ep)
        exp = _outcome(fn, target, Epoch(*d))
        if got != exp:
            out.append("%s(%r) with one Epoch moved by set() through %r: %r, with a fresh Epoch %r"
                       % (fn, target, hist[:k + 1], got, exp))
            break
        if ep.jde() != Epoch(*d).jde():
            out.append("%s(%r) moved the caller's Epoch" % (fn, target))
            break
    return out


def run_reused(block, ctx):
    for case in block:
        ctx.evals += 2 * len(case["history"])
        ctx.traces += 1
        ctx.transitions += len(case["history"])
        ctx.nt_count += 1
        res = check_reused_epoch(case)
        for msg in res:
            ctx.viol(case, msg, site="reused_epoch")
        ctx.outcome((case["finder"], case["target"], len(res)))
        ctx.obs(case, len(res))
    ctx.sample(block[0])


# -- every single event of the range: one query per period ---------------------------------------------------

def run_every_event(spec, ctx):
    """spec = (finder, target, j_from, j_to): queries one mean period apart, so that every event of the
    stretch answers at least one query: no exception, never backwards, no event skipped (consecutive
    answers at most 2.5 periods apart)."""
    fn, target, j0, j1 = spec
    per = FINDERS[fn][1]
    q = j0
    prev = None
    n_ev = 0
    while q <= j1:
        ctx.evals += 1
        case = {"finder": fn, "target": target, "query": q, "year": fast().date(int(math.floor(q + 0.5)))[0],
                "leap_day": False, "julian_century": False}
        try:
            re, _ = call(fn, target, q)
        except Exception as ex:
            ctx.viol(case, "%s(%r, %r) raised %r" % (fn, q, target, ex), site="finder_exception")
            q += per
            continue
        if prev is not None:
            if re - prev < -1e-6:
                ctx.viol(case, "%s %r moves backwards by %r d between queries one period apart" % (fn, target, re - prev),
                         dev=prev - re, site="backwards")
            elif re - prev > 1e-6:
                n_ev += 1
                g = (re - prev) / per
                if g > 2.5:
                    ctx.viol(case, "%s %r: answers to queries one period apart are %.3f periods apart (an event is "
                             "skipped)" % (fn, target, g), dev=g, site="gap")
        prev = re
        q += per
    ctx.nt_count += n_ev
    ctx.count("distinct_events", n_ev)
    ctx.outcome((fn, target, n_ev))
    ctx.obs(spec, n_ev)
    ctx.sample({"finder": fn, "target": target, "from_jde": j0, "to_jde": j1})


def clauses(tier):
    if tier == "thorough":
        pos = []
        j = y2jde(-2000) + 2
        while j < y2jde(4000) - 102:
            pos.append(j)
            j += 3.0
    else:
        pos = [y2jde(y) + d * 1.37 for y in range(-2000, 4000, 25) for d in range(0, 60, 3)]
    sweeps = []
    for fn, (targets, per) in FINDERS.items():
        for t in targets:
            if tier == "thorough":
                j0, j1 = Epoch(-2000, 1, 2).jde(), Epoch(3999, 12, 30).jde()
                nseg = 12
                seg = (j1 - j0) / nseg
                for s in range(nseg):
                    # overlap one period so that the ordering is checked across segment borders
                    sweeps.append((fn, t, j0 + s * seg - (per if s else 0.0), j0 + (s + 1) * seg, per / 20.0, 10,
                                   "segment%d" % s))
            else:
                for era in (-2000, -1, 100, 1500, 1582, 2000, 3999):
                    a = Epoch(era, 1, 2).jde()
                    b = min(a + 40 * per, Epoch(3999, 12, 30).jde())
                    if era == 3999:
                        a, b = Epoch(3999, 12, 30).jde() - 40 * per, Epoch(3999, 12, 30).jde()
                    sweeps.append((fn, t, a, b, per / 20.0, 1, "era%d" % era))
            for y in (-1000, -4, 0, 100, 1500, 1582, 1900, 2000):
                a = fast().n(y, 1, 1) - 0.5 + 0.3
                b = fast().n(y, 12, 31) - 0.5 + 0.3
                sweeps.append((fn, t, a, b, 1.0, 1 if tier == "quick" else 3, "year%d" % y))
    import itertools
    ye = [{"finder": fn, "target": t, "year": y} for fn, (targets, per) in FINDERS.items() for t in targets
          for y in range(-2000, 3999)]
    reused = [{"finder": fn, "target": t, "history": [list(d) for d in h]}
              for fn, (targets, per) in FINDERS.items() for t in targets
              for n in ((2, 3) if tier == "thorough" else (2,)) for h in itertools.permutations(RE_DATES, n)]
    every = []
    ja, jb = Epoch(-2000, 2, 1).jde(), Epoch(3999, 11, 30).jde()
    for fn, (targets, per) in FINDERS.items():
        for t in targets:
            seg = (jb - ja) / 16
            for k in range(16):
                every.append((fn, t, ja + k * seg, ja + (k + 1) * seg))
    ms = [(fn, t, y, min(y + 100, 3999)) for fn, (targets, per) in FINDERS.items() for t in targets
          for y in range(-1999, 3999, 100)]
    return [
        Clause("month_seams", ms, run_month_seams, lambda c: [m for _, m, _ in check_month_seam(c)], floor=100000),
        Clause("latitude_zeros", [(y2jde(y) + 100.0 * k, y2jde(y) + 100.0 * (k + 1))
                                  for y in ((-1990, -1000, 0, 1000, 2000, 3000, 3990) if tier == "thorough"
                                            else (-1990, 2000, 3990)) for k in range(6)],
               run_latitude_zeros, lambda c: [m for _, m, _ in (_nodes_queries(c["lo"], c["hi"]) if c.get("nodes") else
                                                               check_continuity(c) if "lo" in c
                                                               else check_position(c["jde"]))], floor=100),
        Clause("mean_distance_crossings", [(y2jde(y) + 100.0 * k, y2jde(y) + 100.0 * (k + 1), "distance")
                                           for y in ((-1990, -1000, 0, 1000, 2000, 3000, 3990) if tier == "thorough"
                                                     else (-1990, 2000, 3990)) for k in range(6)],
               run_latitude_zeros, lambda c: [m for _, m, _ in (check_continuity(c) if "lo" in c
                                                               else check_position(c["jde"]))], floor=100),
        Clause("argument_events", argument_event_specs(tier), run_argument_events,
               lambda c: [m for _, m, _ in check_continuity(c)], floor=1000),
        Clause("every_event", every, run_every_event, replay_sweep, floor=100000),
        Clause("year_ends", chunks(ye, 64), run_year_ends, lambda c: [m for _, m, _ in check_year_end(c)],
               floor=10000),
        Clause("reused_epoch", chunks(reused, 16), run_reused, check_reused_epoch, floor=200, shape="H"),
        Clause("position", chunks(pos, 64), run_position, lambda c: [m for _, m, _ in check_position(c["jde"])],
               floor=1000),
        Clause("finders", sweeps, run_sweep, replay_sweep, floor=1000),
        Clause("targets", [0], run_targets, check_targets, floor=4),
    ]
