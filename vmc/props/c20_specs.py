"""Catalogue of every public callable of pymeeus for C20 (side-effect freedom,
totality).  Values are *tags* that are materialised lazily (so building the
catalogue calls nothing in the library):

  ("E", jde)            Epoch          ("A", deg)          Angle
  ("AL", [deg, ...])    list of Angle  ("AT", [deg, ...])  tuple of Angle
  ("TAB", "Venus.VSOP87_L")  module-level table (passed by reference)
  ("ELL", "IAU76")      built-in ellipsoid            ("FN", name)  basis function
  ("DT", y, m, d, h)    datetime       ("D", y, m, d)      date
  anything else         the literal itself (numbers, str, bool, None, lists of numbers)

A parameter is (kind, base, [in-domain alternatives]); kind decides which
ill-typed values are tried:  "num" (int/float), "angle", "epoch", "bool", "str",
"list", "numangle" (number or Angle), "any" (no ill-typed probing).
An entry is  name: {"recv": tag-or-None, "params": [...], "kwargs": {...},
"mutator": bool, "ret": checker name}.
"""

E0 = ("E", 2448908.5)        # 1992-10-13, the epoch of many Meeus examples
E_ALT = [("E", 2451545.0), ("E", 2415020.5), ("E", 1000000.5), ("E", 3100000.25)]
E_MOD = [("E", 2451545.0), ("E", 2415020.5), ("E", 2460000.5)]     # 1885..2099 only


def ep(alts=None):
    return ("epoch", E0, E_ALT if alts is None else alts)


def ang(base=123.456, alts=None):
    return ("angle", ("A", base), [("A", 0.0), ("A", -45.5), ("A", 359.9)] if alts is None else
            [("A", a) for a in alts])


def lat(base=38.92):
    return ("angle", ("A", base), [("A", 0.0), ("A", -66.0), ("A", 89.0)])


def num(base, alts=()):
    return ("num", base, list(alts))


def boo(base=True):
    return ("bool", base, [not base])


PLANET_COMMON = {
    "geometric_heliocentric_position": [ep(), boo(True)],
    "apparent_heliocentric_position": [ep()],
    "orbital_elements_mean_equinox": [ep()],
    "orbital_elements_j2000": [ep()],
    "geocentric_position": [ep()],
    "inferior_conjunction": [ep()], "superior_conjunction": [ep()], "western_elongation": [ep()],
    "eastern_elongation": [ep()], "station_longitude_1": [ep()], "station_longitude_2": [ep()],
    "conjunction": [ep()], "opposition": [ep()],
    "perihelion_aphelion": [ep(), boo(True)],
    "passage_nodes": [ep(), boo(True)],
}
PLANET_METHODS = {
    "Mercury": ["geometric_heliocentric_position", "apparent_heliocentric_position",
                "orbital_elements_mean_equinox", "orbital_elements_j2000", "geocentric_position",
                "inferior_conjunction", "superior_conjunction", "western_elongation", "eastern_elongation",
                "station_longitude_1", "station_longitude_2", "perihelion_aphelion", "passage_nodes"],
    "Venus": ["geometric_heliocentric_position", "apparent_heliocentric_position",
              "orbital_elements_mean_equinox", "orbital_elements_j2000", "geocentric_position",
              "inferior_conjunction", "superior_conjunction", "western_elongation", "eastern_elongation",
              "station_longitude_1", "station_longitude_2", "perihelion_aphelion", "passage_nodes"],
    "Mars": ["geometric_heliocentric_position", "apparent_heliocentric_position",
             "orbital_elements_mean_equinox", "orbital_elements_j2000", "geocentric_position",
             "conjunction", "opposition", "station_longitude_1", "station_longitude_2",
             "perihelion_aphelion", "passage_nodes"],
    "Jupiter": ["geometric_heliocentric_position", "apparent_heliocentric_position",
                "orbital_elements_mean_equinox", "orbital_elements_j2000", "geocentric_position",
                "conjunction", "opposition", "station_longitude_1", "station_longitude_2",
                "perihelion_aphelion", "passage_nodes"],
    "Saturn": ["geometric_heliocentric_position", "apparent_heliocentric_position",
               "orbital_elements_mean_equinox", "orbital_elements_j2000", "geocentric_position",
               "conjunction", "opposition", "station_longitude_1", "station_longitude_2",
               "perihelion_aphelion", "passage_nodes"],
    "Uranus": ["geometric_heliocentric_position", "apparent_heliocentric_position",
               "orbital_elements_mean_equinox", "orbital_elements_j2000", "geocentric_position",
               "conjunction", "opposition", "perihelion_aphelion", "passage_nodes"],
    "Neptune": ["geometric_heliocentric_position", "apparent_heliocentric_position",
                "orbital_elements_mean_equinox", "orbital_elements_j2000", "geocentric_position",
                "conjunction", "opposition"],
}

RA3 = [40.0, 41.0, 42.1]
DEC3 = [18.0, 18.4, 18.9]


def specs():
    S = {}

    def add(name, params, recv=None, kwargs=None, mutator=False, ret=None, cost=1):
        S[name] = {"recv": recv, "params": params, "kwargs": kwargs or {}, "mutator": mutator,
                   "ret": ret, "cost": cost}

    # ---- base
    add("base.machine_accuracy", [])
    add("base.get_ordinal_suffix", [num(3, [1, 2, 11, 22, 0])])
    add("base.iint", [num(-2.5, [0, 3, 7.9, -0.0])])
    # ---- Angle
    A = ("A", -23.44694444)
    add("Angle.reduce_deg", [("numangle", 745.67, [-400, 0, 360, ("A", 12.5)])])
    add("Angle.reduce_dms", [num(-743.0, [0, 23]), num(26.0, [59.9, 0]), num(49.6, [0.0, 60.0])])
    add("Angle.deg2dms", [num(23.44694444, [-0.5, 0, 359.99999])])
    add("Angle.dms2deg", [num(-23, [0, 12.5]), num(26, [0, 61]), num(48.999983999, [0.0])])
    add("Angle.get_tolerance", [], recv=A)
    add("Angle.set_tolerance", [num(1e-5, [0.5, 1])], recv=A, mutator=True)
    add("Angle.set", [("numlist", 370.5, [-12, 0.0, [12.5], (1.0, 30.0)])], recv=A, mutator=True)
    add("Angle.set_radians", [("numlist", 3.0, [-7.5, 0])], recv=A, mutator=True)
    add("Angle.set_ra", [("numlist", 9.25, [-3, 24, [9.0, 15.0]])], recv=A, mutator=True)
    add("Angle.dms_str", [boo(True), num(-1, [0, 3, 12])], recv=A)
    add("Angle.ra_str", [boo(True), num(-1, [0, 3, 12])], recv=A)
    add("Angle.get_ra", [], recv=A)
    add("Angle.rad", [], recv=A)
    add("Angle.dms_tuple", [], recv=A)
    add("Angle.ra_tuple", [], recv=A)
    add("Angle.to_positive", [], recv=A, mutator=True)
    # ---- Epoch
    EP = ("E", 2448908.5)
    add("Epoch.set", [num(1987, [-4712, 2024]), num(6, [1, 12]), num(19.5, [1, 30.999])], recv=EP, mutator=True)
    add("Epoch.set#leap_february", [num(2024, [1500, -4]), ("any", 2, ["Feb", "february"]), num(29.5, [1, 29])], recv=EP,
        mutator=True)
    add("Epoch.check_input_date", [num(1992, [-500, 2050]), num(10, [1, 2]), num(13.25, [1, 28])])
    add("Epoch.is_julian", [num(1582, [1581, 1583]), num(10, [9, 11]), num(4, [5, 15])])
    add("Epoch.julian", [], recv=EP)
    add("Epoch.get_month", [("any", 10, ["Oct", "october", 1.0]), boo(False)])
    add("Epoch.is_leap", [num(1900, [1500, 2000, -4, 0])])
    add("Epoch.leap", [], recv=EP)
    add("Epoch.get_doy", [num(2000, [1500, -1, 1582]), num(2, [1, 12]), num(28.25, [1, 15])])
    add("Epoch.doy", [], recv=EP)
    add("Epoch.doy2date", [num(2012, [1500, -4, 1582]), num(63.1, [1, 60, 355])])
    add("Epoch.leap_seconds", [num(1983, [1960, 2016, 2050]), num(6, [1, 12])])
    add("Epoch.get_last_leap_second", [])
    add("Epoch.easter", [num(1991, [-4712, 179, 1582, 1583, 9999])])
    add("Epoch.jewish_pesach", [num(1990, [1, 1582, 1583, 3000])])
    add("Epoch.moslem2gregorian", [num(1421, [1, 556, 2500]), num(1, [12]), num(1, [29])])
    add("Epoch.gregorian2moslem", [num(1991, [622, 1582, 3000]), num(8, [1, 12]), num(13, [1, 28])])
    add("Epoch.get_date", [], recv=EP)
    add("Epoch.get_full_date", [], recv=EP)
    add("Epoch.tt2ut", [num(1642, [-2000, -500, 500, 1999, 2050, 3000]), num(1, [6, 12])])
    add("Epoch.dow", [boo(False)], recv=EP)
    add("Epoch.mean_sidereal_time", [], recv=EP)
    add("Epoch.apparent_sidereal_time", [("numangle", 23.44357, [("A", 23.44357), 23]),
                                         ("numangle", -0.00106, [("A", -0.00106), 0])], recv=EP)
    add("Epoch.mjd", [], recv=EP)
    add("Epoch.jde", [], recv=EP)
    add("Epoch.year", [], recv=EP)
    add("Epoch.rise_set", [ang(48.1333, [0.0, -60.0, 66.0]), ang(11.5667, [0.0, -120.0, 179.9]), num(520.0, [0, 3000])],
        recv=("E", 2458575.5))
    # ---- Interpolation
    I = ("INTERP",)
    add("Interpolation.set", [("list", [0.0, 1.0, 3.0], [[5.0, 1.0, 2.0, 4.0]]),
                              ("list", [-1.0, -2.0, 2.0], [[2.0, 0.5, 1.0, 3.0]])], recv=I, mutator=True)
    add("Interpolation.get_tolerance", [], recv=I)
    add("Interpolation.set_tolerance", [num(1e-6, [1e-3])], recv=I, mutator=True)
    add("Interpolation.derivative", [("numangle", 28.2, [27.0, 29.0])], recv=I)
    add("Interpolation.root", [num(27.0, [27.5]), num(29.0, [28.9]), num(1000, [50])], recv=("INTERP_ROOT",))
    add("Interpolation.minmax", [num(27.0, [27.5]), num(29.0, [28.9]), num(1000, [50])], recv=("INTERP_MM",))
    # ---- CurveFitting
    C = ("CF",)
    add("CurveFitting.set", [("list", [1.0, 2.0, 3.0, 5.0], []), ("list", [2.1, 3.9, 6.2, 9.8], [])],
        recv=C, mutator=True)
    add("CurveFitting.correlation_coeff", [], recv=C)
    add("CurveFitting.linear_fitting", [], recv=C)
    add("CurveFitting.quadratic_fitting", [], recv=C)
    add("CurveFitting.general_fitting", [("any", ("FN", "sin"), []), ("any", ("FN", "x"), []),
                                         ("any", ("FN", "one"), [])], recv=C)
    # ---- Coordinates
    for fn in ("mean_obliquity", "true_obliquity", "nutation_longitude", "nutation_obliquity"):
        add("Coordinates." + fn, [("any", E0, E_ALT + [[1987, 4, 10.5], ("DT", 1987, 4, 10, 12)])])
    E1 = ("epoch", ("E", 2462088.69), [("E", 2451545.0), ("E", 2415020.5)])
    for fn in ("precession_equatorial", "precession_newcomb"):
        add("Coordinates." + fn, [ep([("E", 2451545.0), ("E", 2415020.5)]), E1, ang(41.054063), ang(49.227750, [0.0, -89.0, 86.0]),
                                  ("numangle", 0.0, [("A", 2.5e-5), 1e-5]), ("numangle", 0.0, [("A", -1e-5)])])
    add("Coordinates.precession_ecliptical", [ep([("E", 2451545.0)]), E1, ang(149.48194), ang(1.76549, [0.0, -60.0]),
                                              ("numangle", 0.0, [("A", 2.5e-5)]), ("numangle", 0.0, [("A", -1e-5)])])
    add("Coordinates.p_motion_equa2eclip", [ang(2.5e-5, [0.0]), ang(-1.0e-5, [0.0]), ang(41.05), ang(49.2, [0.0]),
                                            ang(1.77, [0.0, 60.0]), ang(23.44, [23.0])])
    add("Coordinates.motion_in_space", [ang(101.286962), ang(-16.716108, [0.0]), num(2.64, [100.0]), num(-7.6, [0.0]),
                                        ("numangle", ("A", -0.000129), [0.0]), ("numangle", ("A", -0.000335), [0.0]),
                                        num(-1000.0, [0.0, 4000.0])])
    add("Coordinates.equatorial2ecliptical", [ang(116.328942), ang(28.026183, [0.0, -89.9]), ang(23.4392911, [0.0, 30.0])])
    add("Coordinates.ecliptical2equatorial", [ang(113.21563), ang(6.68417, [0.0, -89.9]), ang(23.4392911, [0.0, 30.0])])
    add("Coordinates.equatorial2horizontal", [ang(64.352133), ang(-6.719892, [0.0, 89.9]), lat()])
    add("Coordinates.horizontal2equatorial", [ang(68.0337), ang(15.1249, [0.0, 89.9]), lat()])
    add("Coordinates.equatorial2galactic", [ang(267.0), ang(-28.9, [0.0, 89.9])])
    add("Coordinates.galactic2equatorial", [ang(12.9593), ang(6.0463, [0.0, -89.9])])
    add("Coordinates.parallactic_angle", [ang(30.0, [0.0, -45.0, 120.0]), ang(20.0, [-20.0, 60.0]), lat(50.0)])
    add("Coordinates.ecliptic_horizon", [ang(75.0), lat(51.0), ang(23.44, [23.0])])
    add("Coordinates.ecliptic_equator", [ang(0.0, [90.0, 200.0]), ang(0.0, [5.0]), ang(23.5, [23.0])])
    add("Coordinates.diurnal_path_horizon", [ang(23.44, [0.0, -20.0]), ang(40.0, [0.0, -30.0, 60.0])])
    add("Coordinates.times_rise_transit_set",
        [ang(71.0833, [0.0, -120.0]), lat(42.3333), ang(40.68021), ang(18.04761), ang(41.73129), ang(18.44092),
         ang(42.78204), ang(18.82742), ang(-0.5667, [-0.8333, 0.125]), num(56.0, [0, 69.2]), ang(177.74208)], cost=2)
    add("Coordinates.refraction_apparent2true", [ang(0.5, [5.0, 45.0, 90.0]), num(1010.0, [900.0]), num(10.0, [-20.0])])
    add("Coordinates.refraction_true2apparent", [ang(0.5541, [5.0, 45.0, 90.0]), num(1010.0, [900.0]), num(10.0, [-20.0])])
    add("Coordinates.angular_separation", [ang(213.9154), ang(19.1825), ang(201.2983), ang(-11.1614)])
    # three consecutive positions of two bodies in close approach: only small in-domain variations
    add("Coordinates.minimum_angular_separation",
        [ang(v, [v + 0.01]) for v in (195.24058, -5.86072, 195.61942, -4.38561, 196.0, -2.91, 194.05292, -4.53208,
                                      196.15117, -4.37289, 198.25, -4.2)])
    add("Coordinates.relative_position_angle", [ang(213.9154), ang(19.1825), ang(201.2983), ang(-11.1614)])
    add("Coordinates.planetary_conjunction",
        [("list", ("AL", [156.0 + 0.3 * (n + 0.4) for n in (-2, -1, 0, 1, 2)]), [("AT", [156.0 + 0.3 * (n + 0.4) for n in (-2, -1, 0, 1, 2)])]),
         ("list", ("AL", [6.0, 5.9, 5.8, 5.7, 5.6]), []),
         ("list", ("AL", [156.0 - 0.25 * n for n in (-2, -1, 0, 1, 2)]), []),
         ("list", ("AL", [4.2, 4.1, 4.0, 3.9, 3.8]), [])])
    RA6 = [156.0 + 0.3 * (n + 0.4) for n in (-2, -1, 0, 1, 2, 3)]
    for kind in ("AL", "AT"):
        add("Coordinates.planetary_conjunction#even_%s" % kind,
            [("list", (kind, RA6), []), ("list", (kind, [6.0, 5.9, 5.8, 5.7, 5.6, 5.5]), []),
             ("list", (kind, [156.0 - 0.25 * n for n in (-2, -1, 0, 1, 2, 3)]), []),
             ("list", (kind, [4.2, 4.1, 4.0, 3.9, 3.8, 3.7]), [])])
        add("Coordinates.planet_star_conjunction#even_%s" % kind,
            [("list", (kind, RA6), []), ("list", (kind, [6.0, 5.9, 5.8, 5.7, 5.6, 5.5]), []), ang(156.0, [156.1]),
             ang(4.0, [-4.0])])
        add("Coordinates.planet_stars_in_line#even_%s" % kind,
            [("list", (kind, RA6), []), ("list", (kind, [5.4, 5.3, 5.2, 5.1, 5.0, 4.9]), []), ang(149.0, [148.5]),
             ang(3.0, [3.1]), ang(165.0, [166.0]), ang(8.0, [7.9])])
    add("Coordinates.planet_star_conjunction",
        [("list", ("AL", [156.0 + 0.3 * (n + 0.4) for n in (-2, -1, 0, 1, 2)]), []),
         ("list", ("AL", [6.0, 5.9, 5.8, 5.7, 5.6]), []), ang(156.0, [156.1]), ang(4.0, [-4.0])])
    add("Coordinates.planet_stars_in_line",
        [("list", ("AL", [156.0 + 0.3 * (n + 0.4) for n in (-2, -1, 0, 1, 2)]), []),
         ("list", ("AL", [5.4, 5.3, 5.2, 5.1, 5.0]), []), ang(149.0, [148.5]), ang(3.0, [3.1]), ang(165.0, [166.0]),
         ang(8.0, [7.9])])
    add("Coordinates.straight_line", [ang(113.5), ang(31.88), ang(116.25), ang(28.03), ang(103.0), ang(21.57, [24.0])])
    add("Coordinates.circle_diameter", [ang(183.99, [184.5]), ang(-0.66), ang(187.9), ang(-8.9), ang(198.7), ang(-5.27)])
    VL, VB, VR = ("TAB", "Venus.VSOP87_L"), ("TAB", "Venus.VSOP87_B"), ("TAB", "Venus.VSOP87_R")
    add("Coordinates.vsop_pos", [ep(), ("list", VL, []), ("list", VB, []), ("list", VR, [])])
    add("Coordinates.geometric_vsop_pos", [ep(), ("list", VL, []), ("list", VB, []), ("list", VR, []), boo(True)])
    add("Coordinates.apparent_vsop_pos", [ep(), ("list", VL, []), ("list", VB, []), ("list", VR, []), boo(True)])
    add("Coordinates.apparent_position", [("epoch", ("E", 2462088.69), [("E", 2451545.0)]), ang(41.0623836), ang(49.2296238),
                                          ang(231.328)])
    add("Coordinates.orbital_equinox2equinox", [ep([("E", 2451545.0)]), E1, ang(47.122, [0.0, 0.5, 162.0]),
                                                ang(151.4486), ang(45.7481)])
    add("Coordinates.kepler_equation", [num(0.1, [0.0, 0.99, 0.5]), ang(5.0, [0.0, -200.0, 180.0])])
    add("Coordinates.orbital_elements", [ep(), ("list", ("TAB", "Venus.ORBITAL_ELEM"), []),
                                         ("list", ("TAB", "Venus.ORBITAL_ELEM_J2000"), [("TAB", "Venus.ORBITAL_ELEM")])])
    add("Coordinates.velocity", [num(1.0, [0.5, 1.5]), num(17.9400782, [1.0, 100.0])])
    add("Coordinates.velocity_perihelion", [num(0.96727426, [0.0, 0.5]), num(17.9400782, [1.0])])
    add("Coordinates.velocity_aphelion", [num(0.96727426, [0.0, 0.5]), num(17.9400782, [1.0])])
    add("Coordinates.length_orbit", [num(0.96727426, [0.0, 0.5, 0.95]), num(17.9400782, [1.0])])
    add("Coordinates.passage_nodes_elliptic", [ang(111.84644, [0.0, 195.0]), num(0.96727426, [0.0, 0.5]), num(17.9400782, [1.0]),
                                               ep([("E", 2446470.5)]), boo(True)])
    add("Coordinates.passage_nodes_parabolic", [ang(154.9103, [10.0, 195.0]), num(1.324502, [0.1]), ep([("E", 2447758.5)]),
                                                boo(True)])
    add("Coordinates.phase_angle", [num(0.724604, [1.5]), num(0.910947, [0.6]), num(0.983824, [1.0])])
    add("Coordinates.illuminated_fraction", [num(0.724604, [1.5]), num(0.910947, [0.6]), num(0.983824, [1.0])])
    # ---- Earth
    add("Ellipsoid.b", [], recv=("ELL", "IAU76"))
    add("Ellipsoid.e", [], recv=("ELL", "WGS84"))
    EA = ("EARTH",)
    add("Earth.set", [("any", ("ELL", "IAU76"), [("ELL", "WGS84")])], recv=EA, mutator=True)
    add("Earth.rho", [("numangle", 33.356111, [0, 90, -45.5, ("A", 33.356111)])], recv=EA)
    for fn in ("rho_sinphi", "rho_cosphi"):
        add("Earth." + fn, [("numangle", 33.356111, [0, 90, -90, ("A", 33.356111)]), num(1706, [0, -400, 9000.5])], recv=EA)
    for fn in ("rp", "linear_velocity", "rm"):
        add("Earth." + fn, [("numangle", 42.0, [0, 90, -90, ("A", 42.0)])], recv=EA)
    add("Earth.distance", [("numangle", 2.3372, [0, ("A", 2.3372), 180]), ("numangle", 48.836, [0, -90, ("A", 48.836)]),
                           ("numangle", -77.0656, [0, ("A", -77.0656)]), ("numangle", 38.9214, [0, 90])], recv=EA)
    add("Earth.geometric_heliocentric_position", [ep(), boo(True)])
    add("Earth.apparent_heliocentric_position", [ep(), boo(True)])
    add("Earth.geometric_heliocentric_position_j2000", [ep(), boo(True)])
    add("Earth.orbital_elements_mean_equinox", [ep()])
    add("Earth.orbital_elements_j2000", [ep()])
    add("Earth.perihelion_aphelion", [ep(), boo(True)])
    add("Earth.passage_nodes", [ep(), boo(True)])
    add("Earth.parallax_correction", [ang(339.530208), ang(-15.771083, [0.0, 60.0]), lat(33.356111), num(0.37276, [1.0, 30.0]),
                                      ang(288.7958), num(1706.0, [0.0])])
    add("Earth.parallax_ecliptical", [ang(181.775367), ang(2.290622, [0.0, -60.0]), ang(0.270986, [0.25]), lat(50.0850),
                                      ang(23.4669), ang(209.7662), num(0.0024650163, [1.0]), num(0.0, [500.0])])
    # ---- Sun
    for fn in ("true_longitude_coarse", "apparent_longitude_coarse", "apparent_rightascension_declination_coarse",
               "rectangular_coordinates_mean_equinox", "rectangular_coordinates_j2000",
               "rectangular_coordinates_b1950", "equation_of_time", "ephemeris_physical_observations"):
        add("Sun." + fn, [ep()], cost=2)
    add("Sun.geometric_geocentric_position", [ep(), boo(True)], cost=2)
    add("Sun.apparent_geocentric_position", [ep(), boo(True)], cost=2)
    add("Sun.rectangular_coordinates_equinox", [ep(), ("epoch", ("E", 2467616.0), [("E", 2451545.0), ("E", 2448908.5)])], cost=2)
    add("Sun.get_equinox_solstice", [num(1962, [-1000, 999, 1000, 3000]), ("str", "summer", ["spring", "autumn", "winter"])],
        cost=5)
    add("Sun.beginning_synodic_rotation", [num(1699, [1, 2000])])
    # ---- Moon
    for fn in ("geocentric_ecliptical_pos", "apparent_ecliptical_pos", "apparent_equatorial_pos",
               "longitude_mean_ascending_node", "longitude_true_ascending_node", "longitude_mean_perigee",
               "illuminated_fraction_disk", "position_bright_limb", "moon_librations", "moon_position_angle_axis"):
        add("Moon." + fn, [ep()], cost=2)
    add("Moon.moon_phase", [ep(), ("str", "new", ["first", "full", "last"])])
    add("Moon.moon_perigee_apogee", [ep(), ("str", "perigee", ["apogee"])])
    add("Moon.moon_passage_nodes", [ep(), ("str", "ascending", ["descending"])])
    add("Moon.moon_maximum_declination", [ep(), ("str", "northern", ["southern"])])
    # ---- Minor, Pluto
    MB = ("MINOR",)
    add("Minor.set", [num(0.5871018, [1.0]), num(0.8502196, [0.0, 0.5]), ang(11.94524), ang(334.75006), ang(186.23352),
                      ("epoch", ("E", 2448192.5), [])], recv=MB, mutator=True)
    add("Minor.geocentric_position", [("epoch", ("E", 2448170.5), [("E", 2448192.5), ("E", 2448500.5)])], recv=MB, cost=2)
    add("Minor.heliocentric_ecliptical_position", [("epoch", ("E", 2448170.5), [("E", 2448192.5)])], recv=MB)
    add("Pluto.geometric_heliocentric_position", [ep(E_MOD)])
    add("Pluto.geocentric_position", [ep(E_MOD)], cost=2)
    # ---- JupiterMoons
    JE = ("epoch", ("E", 2448972.50068), [("E", 2451545.0), ("E", 2455000.5)])
    add("JupiterMoons.jupiter_system_angles", [JE], cost=3)
    add("JupiterMoons.rectangular_positions_jovian_equatorial", [JE, boo(True), boo(False), boo(True)], cost=10)
    add("JupiterMoons.apparent_rectangular_coordinates",
        [JE, num(-3.4489935969836503), num(1.2104229269899164), num(-0.07983465368145398), num(100.39249942976576),
         num(317.1058009213959), num(3.1195907300000003), num(332.43174574047, [10.0]), num(0.18399290000000002),
         num(0, [1.0]), boo(False)], cost=3)
    add("JupiterMoons.calculate_delta", [JE], cost=5)
    add("JupiterMoons.correct_rectangular_positions", [num(5.9, [9.4]), num(1, [2, 3, 4]), num(5.0, [4.2]),
                                                       num(-3.45, [0.5]), num(0.21, [0.0]), num(0.0, [1.0])])
    add("JupiterMoons.check_phenomena", [JE, ("bool", False, []), num(1, [2, 4])], cost=20)
    add("JupiterMoons.is_phenomena", [JE], cost=20)
    add("JupiterMoons.check_coordinates", [num(1.0, [0.0, -5.0]), num(-3.0, [0.0, 0.5])])
    add("JupiterMoons.check_occultation", [num(0.5, [3.0]), num(0.2, [2.0]), num(1.0, [-1.0]),
                                           ("any", None, []), ("any", None, [])])
    add("JupiterMoons.check_eclipse", [num(0.5, [3.0]), num(0.2, [2.0]), num(1.0, [-1.0]),
                                       ("any", None, []), ("any", None, [])])
    # ---- planets
    for nm, methods in PLANET_METHODS.items():
        for m in methods:
            c = 4 if m == "geocentric_position" else (3 if m in ("perihelion_aphelion", "passage_nodes") else 1)
            add("%s.%s" % (nm, m), [tuple(p) for p in PLANET_COMMON[m]], cost=c)
    add("Mercury.magnitude", [num(0.4, [0.31]), num(1.1, [0.6]), ("numangle", 60.0, [("A", 60.0), 0.0, 150.0])])
    add("Venus.magnitude", [num(0.724604), num(0.910947, [0.3]), ("numangle", ("A", 72.96), [72.96, 0.0, 160.0])])
    add("Venus.illuminated_fraction", [ep()])
    add("Mars.magnitude", [num(1.5, [1.4]), num(0.6, [2.5]), ("numangle", 20.0, [("A", 20.0), 0.0, 45.0])])
    add("Jupiter.magnitude", [num(5.2, [5.0]), num(4.3, [6.2])])
    add("Saturn.magnitude", [num(9.867882), num(10.464606, [8.5]), ("numangle", ("A", 16.442), [16.442, 0.0]),
                             ("numangle", ("A", 4.198), [4.198, 0.0, -26.0])])
    add("Saturn.ring_inclination", [ep()])
    add("Saturn.ring_logitude_ascending_node", [ep()])
    add("Saturn.ring_parameters", [ep()], cost=5)
    add("Uranus.magnitude", [num(19.9, [18.3]), num(19.0, [20.5])])
    add("Neptune.magnitude", [num(30.1, [29.8]), num(29.2, [31.0])])
    return S


# callables whose result depends on the wall clock / time zone of the machine:
# catalogued (so that they are not "uncatalogued") but never called
NOT_CALLED = {"Epoch.utc2local": "reads the wall clock and the local time zone"}

# Dense sweeps of one scalar parameter through its documented domain (all other parameters at their base
# value): (parameter index, low, high, step).  Piecewise definitions (polynomial segments, calendar rules,
# table lookups) are decided by comparisons on these parameters; "int, float" parameters get fractional
# steps so that values *between* the integers are tried too.
DENSE = {
    "base.get_ordinal_suffix": [(0, 0, 130, 1)],
    "base.iint": [(0, -10.0, 10.0, 0.25)],
    "Angle.reduce_deg": [(0, -1080.0, 1080.0, 0.5)],
    "Angle.deg2dms": [(0, -400.0, 400.0, 0.125)],
    "Epoch.is_julian": [(0, 1570, 1595, 1), (1, 1, 12, 1), (2, 1, 31, 1)],
    "Epoch.is_leap": [(0, -4712, 6000, 1)],
    "Epoch.get_doy": [(0, -4712, 6000, 1), (1, 1, 12, 1), (2, 1.0, 28.75, 0.25)],
    "Epoch.doy2date": [(0, -4712, 6000, 1), (1, 1.0, 365.75, 0.25)],
    "Epoch.leap_seconds": [(0, 1900, 2200, 1), (1, 1, 12, 1)],
    "Epoch.easter": [(0, -4712, 10000, 1)],
    "Epoch.jewish_pesach": [(0, 1, 3000, 1)],
    "Epoch.moslem2gregorian": [(0, 1, 2500, 1), (1, 1, 12, 1), (2, 1, 29, 1)],
    "Epoch.gregorian2moslem": [(0, 623, 3000, 1), (1, 1, 12, 1), (2, 1, 28, 1)],
    "Epoch.tt2ut": [(0, -2000.0, 3000.0, 0.25), (1, 1.0, 12.0, 0.5)],
    "Coordinates.kepler_equation": [(0, 0.0, 0.995, 0.005), (1, -720.0, 720.0, 1.0)],
    "Coordinates.velocity": [(0, 0.5, 35.0, 0.5)],
    "Coordinates.velocity_perihelion": [(0, 0.0, 0.99, 0.01)],
    "Coordinates.velocity_aphelion": [(0, 0.0, 0.99, 0.01)],
    "Coordinates.length_orbit": [(0, 0.0, 0.99, 0.01)],
    "Coordinates.refraction_apparent2true": [(0, 0.0, 90.0, 0.25)],
    "Coordinates.refraction_true2apparent": [(0, 0.0, 90.0, 0.25)],
    "Sun.beginning_synodic_rotation": [(0, 1, 2500, 1)],
    "Sun.get_equinox_solstice": [(0, -1000, 3000, 40)],
    # finders that interpolate in a window around a first approximation: one query a year, both flags
    "Earth.perihelion_aphelion": [(0, -1999, 3999, 1, {1: True}), (0, -1999, 3999, 1, {1: False})],
    "Mars.perihelion_aphelion": [(0, -1999, 3999, 1, {1: True}), (0, -1999, 3999, 1, {1: False})],
    "Jupiter.perihelion_aphelion": [(0, -1999, 3999, 3, {1: True}), (0, -1999, 3999, 3, {1: False})],
    "Saturn.perihelion_aphelion": [(0, -1999, 3999, 5, {1: True}), (0, -1999, 3999, 5, {1: False})],
    "Uranus.perihelion_aphelion": [(0, -1999, 3999, 10, {1: True}), (0, -1999, 3999, 10, {1: False})],
    "Earth.rho": [(0, -90.0, 90.0, 0.5)],
    "Earth.rho_sinphi": [(0, -90.0, 90.0, 0.5), (1, -500.0, 9000.0, 250.0)],
    "Earth.rho_cosphi": [(0, -90.0, 90.0, 0.5), (1, -500.0, 9000.0, 250.0)],
    "Earth.rp": [(0, -90.0, 90.0, 0.5)],
    "Earth.rm": [(0, -90.0, 90.0, 0.5)],
    "Earth.linear_velocity": [(0, -90.0, 90.0, 0.5)],
}


def dense_values(lo, hi, step):
    n = int(round((hi - lo) / step))
    vals = []
    for k in range(n + 1):
        v = lo + k * step
        if isinstance(lo, int) and isinstance(step, int):
            v = int(v)
        vals.append(v)
    return vals


ILL = {
    "num": [None, "x", 1j, [1.0]],
    "angle": [None, "x", 1j, [1.0]],
    "numlist": [None, "x", 1j],
    "numangle": [None, "x", 1j, [1.0]],
    "epoch": [None, "x", 1j, [2000, 1, 1]],
    "bool": [],            # any truthy/falsy object is conventionally accepted for flags
    "str": [None, 1j, 3, "bogus"],
    "list": [None, 1.5, "x"],
    "any": [],
}
