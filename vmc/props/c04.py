"""C04 - sexagesimal / RA decomposition and printing (L: value lattice x
{angle, RA} x {fancy, colon} x n_dec; thorough adds every state reached by the
C03 operator BFS)."""
import math
import re
from fractions import Fraction

from ..engine import Clause, chunks
from ..fp import ulps
from . import c03

from pymeeus.Angle import Angle

PROPERTY = "C04"
LEVEL = "exploration"
RULE = ("values d + m/60 + s/3600 + eps for d in 9 degrees x m in 4 minutes x s in 4 seconds "
        "x eps in 11 offsets x sign x +-1 ulp (plus, thorough, every state of the C03 "
        "operator BFS); each value x {angle, RA}: tuple clauses; x {fancy, colon} x n_dec "
        "-1..12: string clauses; non-trivial = value within 1e-6 arcsec of a whole second "
        "(so a carry or a 59.999.. field is possible) or negative")
ASSUMPTIONS = ["independent grammar for the printed forms: [-]D(d|h) M' S'' with leading zero "
               "fields dropped (fancy) and D:M:S (colon)",
               "read-back tolerance: half a unit of the requested decimal (+1e-9 arcsec); for "
               "n_dec = -1: 3.6e-6 arcsec (1e-9 degree)"]
NDECS = list(range(-1, 13))


def bound(tier):
    return ("lattice of ~8 400 values x 2 x 2 x 14 strings" +
            ("; plus all C03 BFS states (depth 2)" if tier == "thorough" else ""))


def lattice():
    vals = set()
    for d in (0, 1, 12, 59, 89, 90, 179, 180, 359):
        for m in (0, 1, 29, 59):
            for s in (0, 1, 30, 59):
                base = d + m / 60 + s / 3600
                for eps in (0, 1e-12, -1e-12, 1e-9 / 3600, -1e-9 / 3600, 0.49995e-3 / 3600,
                            -0.49995e-3 / 3600, 0.5 / 3600, -0.5 / 3600, 0.9999999 / 3600,
                            0.05 / 3600):
                    for sg in (1, -1):
                        v = sg * (base + eps)
                        for w in ulps(v, 1):
                            if -360.0 < w < 360.0:
                                vals.add(w)
    # hour-based values (RA seams)
    for h in (0, 1, 11, 12, 23):
        for m in (0, 59):
            for s in (0, 59.9996, 59.96, 30):
                v = 15 * (h + m / 60 + s / 3600)
                for sg in (1, -1):
                    for w in ulps(sg * v, 1):
                        if -360.0 < w < 360.0:
                            vals.add(w)
    # a field that reads like another field's limit - 24 or 60 minutes / seconds, 23 or 359 in a lower field - with
    # the leading fields zero (they are left out of the fancy form)
    for unit in (1.0, 15.0):
        for a in (0, 5, 23):
            for b in (0, 24, 23, 36, 59):
                for c in (0, 10.0, 24.0, 24.3, 35.99, 59.4):
                    v = unit * (a + b / 60 + c / 3600)
                    for sg in (1, -1):
                        if -360.0 < sg * v < 360.0:
                            vals.add(sg * v)
    return sorted(vals)


FANCY = re.compile(r"^(?:(-?\d+)([dh]) )?(?:(-?\d+)' )?(-?(?:\d+\.?\d*|\.\d+)(?:e[+-]?\d+)?)''$")
NUM = r"-?(?:\d+\.?\d*|\.\d+)(?:e[+-]?\d+)?"
COLON = re.compile(r"^(-?\d+):(-?\d+):(" + NUM + r")$")


def parse(sx, fancy, ra):
    """Independent grammar. Returns (fields [d,m,s] as strings or None, unit)."""
    if fancy:
        mt = FANCY.match(sx)
        if not mt:
            raise ValueError("does not match the fancy grammar")
        d, unit, m, s = mt.groups()
        if d is not None and unit != ("h" if ra else "d"):
            raise ValueError("wrong unit letter")
        if d is not None and m is None:
            raise ValueError("minutes field missing after degrees")
        return [d, m, s]
    mt = COLON.match(sx)
    if not mt:
        raise ValueError("does not match D:M:S")
    return list(mt.groups())


def check_tuple(v, ra, obj=None):
    out = []
    a = Angle(v) if obj is None else obj
    try:
        tup = a.ra_tuple() if ra else a.dms_tuple()
        d, m, s, sg = tup
    except Exception as ex:
        return [("tuple", "%s_tuple of Angle(%r) raised %r" % ("ra" if ra else "dms", v, ex))]
    full = 24 if ra else 360
    val = Fraction(v) / 15 if ra else Fraction(v)
    ok = (isinstance(d, int) and isinstance(m, int) and isinstance(s, float)
          and 0 <= d < full and 0 <= m < 60 and 0.0 <= s < 60.0 and sg in (1.0, -1.0)
          and not isinstance(d, bool))
    if not ok:
        out.append(("tuple_range", "%s_tuple(Angle(%r)) = %r: field out of range"
                    % ("ra" if ra else "dms", v, tup)))
        return out
    rec = Fraction(sg) * (d + Fraction(m, 60) + Fraction(s) / 3600)
    tol = Fraction(1, 10**9) / (15 if ra else 1)
    if abs(rec - val) > tol:
        out.append(("tuple_recombine", "%s_tuple(Angle(%r)) = %r recombines to %r"
                    % ("ra" if ra else "dms", v, tup, float(rec))))
    if abs(val) > tol and (sg < 0) != (v < 0):   # the sign of a value that is 0 to 1e-9 is immaterial
        out.append(("tuple_sign", "%s_tuple(Angle(%r)) = %r has the wrong sign"
                    % ("ra" if ra else "dms", v, tup)))
    # recombination through the class itself (4-value forms)
    for form in ("args", "tuple", "list"):
        try:
            if form == "args":
                b = Angle(*tup, ra=True) if ra else Angle(*tup)
            elif form == "tuple":
                b = Angle(tuple(tup), ra=True) if ra else Angle(tuple(tup))
            else:
                b = Angle(list(tup), ra=True) if ra else Angle(list(tup))
            if abs(Fraction(b._deg) - Fraction(v)) > Fraction(1, 10**9):
                out.append(("tuple_reconstruct", "Angle(%s%r%s) = %r, expected %r"
                            % (form, tup, ", ra=True" if ra else "", b._deg, v)))
        except Exception as ex:
            out.append(("tuple_reconstruct", "Angle(%r) [%s] raised %r" % (tup, form, ex)))
    if not ra:
        try:
            d2, m2, s2, sg2 = Angle.deg2dms(v)
            back = Angle.dms2deg(sg2 * d2, sg2 * m2, sg2 * s2)
            if abs(back - v) > 1e-9:
                out.append(("static_roundtrip", "dms2deg(deg2dms(%r)) = %r" % (v, back)))
            t2 = Angle.deg2dms(Angle.dms2deg(sg * d, sg * m, sg * s))
            rec2 = t2[3] * (t2[0] + t2[1] / 60 + t2[2] / 3600)
            if abs(rec2 - v) > 1e-9:
                out.append(("static_roundtrip", "deg2dms(dms2deg(%r)) = %r" % (tup, t2)))
        except Exception as ex:
            out.append(("static_roundtrip", "static conversions raised %r for %r" % (ex, v)))
    return out


def check_string(v, ra, fancy, nd, tol=None, via_copy=False, obj=None):
    a = Angle(v) if obj is None else obj
    if tol is not None:
        # history: the comparison tolerance of the object was changed before printing
        a.set_tolerance(tol)
        if via_copy:
            a = Angle(a)
    try:
        sx = a.ra_str(fancy, nd) if ra else a.dms_str(fancy, nd)
    except Exception as ex:
        return [("string", "%s_str(%r, %r) of Angle(%r) raised %r"
                 % ("ra" if ra else "dms", fancy, nd, v, ex))]
    what = "Angle(%r)%s.%s_str(fancy=%r, n_dec=%d) = %r" % (
        v, "" if tol is None else (" [tolerance %r%s]" % (tol, ", copied" if via_copy else "")),
        "ra" if ra else "dms", fancy, nd, sx)
    if not isinstance(sx, str):
        return [("string", what + " is not a string")]
    try:
        ds, ms, ss = parse(sx, fancy, ra)
    except ValueError as ex:
        return [("grammar", what + ": " + str(ex))]
    out = []
    dv = int(ds) if ds is not None else 0
    mv = int(ms) if ms is not None else 0
    sv = float(ss)
    if abs(mv) >= 60 or abs(sv) >= 60.0:
        out.append(("sixty", what + " shows 60 in the minutes or seconds field"))
    # number of decimals printed
    if nd >= 0 and "e" not in ss:
        dec = ss.split(".")[1] if "." in ss else ""
        if len(dec) > max(nd, 1):
            out.append(("decimals", what + " prints more than %d decimals" % nd))
    # sign: exactly once, on the leading non-zero field
    fields = [(ds, dv), (ms, mv), (ss, sv)]
    minus = [i for i, (txt, _) in enumerate(fields) if txt is not None and txt.startswith("-")]
    mag = abs(dv) + Fraction(abs(mv), 60) + Fraction(abs(sv)) / 3600
    neg = bool(minus)
    if len(minus) > 1:
        out.append(("sign", what + " carries more than one minus sign"))
    elif minus:
        lead = [i for i, (txt, val) in enumerate(fields) if txt is not None and val != 0]
        if not lead or minus[0] != lead[0]:
            out.append(("sign", what + ": minus sign is not on the leading non-zero field"))
    # read back, modulo 360 degrees / 24 hours
    full = (24 if ra else 360) * 3600
    val = (Fraction(v) / 15 if ra else Fraction(v)) * 3600
    rb = (-mag if neg else mag) * 3600
    if nd >= 0:
        tol = Fraction(1, 2 * 10**nd) + Fraction(1, 10**9)
    else:
        tol = Fraction(36, 10**7) / (15 if ra else 1)
    diff = (rb - val) % full
    diff = min(diff, full - diff)
    if diff > tol:
        out.append(("readback", what + " reads back %.3g (arc)seconds away from the value"
                    % float(diff)))
    return out


def check_value(v):
    res = []
    for ra in (False, True):
        res += check_tuple(v, ra)
        for fancy in (True, False):
            for nd in NDECS:
                res += check_string(v, ra, fancy, nd)
    return res


def is_nontrivial(v):
    secs = abs(v) * 3600.0
    return v < 0 or abs(secs - round(secs)) < 1e-6


def run_values(block, ctx):
    for v in block:
        ctx.evals += 2 + 2 * 2 * len(NDECS)
        res = check_value(v)
        for site, msg in res:
            ctx.viol({"value": v}, msg, site=site)
        if is_nontrivial(v):
            ctx.nt_count += 1
        ctx.outcome(Angle(v).dms_str(True, 1))
        ctx.obs(v, len(res))
    ctx.sample({"value": block[0], "dms_str": Angle(block[0]).dms_str(n_dec=3),
                "ra_tuple": list(Angle(block[0]).ra_tuple())})


TOLS = [0.0, 1e-3, 0.5, 1.0000001]


def check_value_tol(v):
    res = []
    for tol in TOLS:
        for via_copy in (False, True):
            for ra in (False, True):
                for fancy in (True, False):
                    for nd in (-1, 0, 1, 3):
                        res += check_string(v, ra, fancy, nd, tol, via_copy)
    return res


def run_values_tol(block, ctx):
    for v in block:
        ctx.evals += len(TOLS) * 2 * 2 * 2 * 4
        ctx.nt_count += 1
        for site, msg in check_value_tol(v):
            ctx.viol({"value": v}, msg, site="tolerance_" + site)
        ctx.obs(v)
    ctx.outcome(len(block))
    ctx.sample({"value": block[0], "tolerances": TOLS})


def reachable(x0):
    """Values reached by the C03 depth-2 operator BFS from x0 (no oracles)."""
    events = c03.make_events(c03.OPERANDS)
    a0 = Angle(x0)
    seen = {c03.bits(a0._deg): a0}
    frontier = [a0]
    for lvl in range(2):
        nxt = []
        for a in frontier:
            for ev in events:
                try:
                    if ev[0] in c03.BINOPS:
                        r = c03.apply_bin(a, ev[0], ev[1], c03.operand(ev[2], ev[3]))
                    elif ev[0] == "neg":
                        r = -a
                    elif ev[0] == "abs":
                        r = abs(a)
                    elif ev[0] == "round":
                        r = round(a, ev[1])
                    elif ev[0] == "to_positive":
                        r = Angle(a).to_positive()
                    else:
                        r = Angle(a)
                except Exception:
                    continue
                if not isinstance(r, Angle):
                    continue
                k = c03.bits(r._deg)
                if k not in seen:
                    seen[k] = r
                    nxt.append(r)
        frontier = nxt
    return sorted(k[0] for k in seen if -360.0 < k[0] < 360.0)


def run_bfs_states(x0, ctx):
    vals = reachable(x0)
    ctx.count("bfs_states", len(vals))
    for v in vals:
        ctx.evals += 2 + 2 * 2 * len(NDECS)
        for site, msg in check_value(v):
            ctx.viol({"value": v}, msg, site=site)
        if is_nontrivial(v):
            ctx.nt_count += 1
    ctx.outcome((x0, len(vals)))
    ctx.obs(x0, len(vals))
    ctx.sample({"bfs_initial": x0, "states": len(vals), "value": vals[len(vals) // 2]})


# -- one Angle object over a history of observers and in-place mutators ----------------------------

OH_STARTS = [-87.32, -1e-20, -5e-324, 359.99999999999994, -0.5 / 3600.0, 15.25, -359.9999999999723, 180.0]
OH_OPS = [("dms_tuple",), ("ra_tuple",), ("dms_str",), ("ra_str",), ("dms_str_colon5",), ("ra_str_fancy0",),
          ("to_positive",), ("set", 272.68),
          ("set", -1e-15), ("set_ra", 23.99999999999), ("set_radians", -1e-18), ("set_tolerance", 0.0)]


def _oh_views(a):
    return (a.dms_tuple(), a.ra_tuple(), a.dms_str(True, 3), a.dms_str(False, 0), a.ra_str(True, 3), a.ra_str(False, -1))


def _oh_apply(a, op):
    k = op[0]
    if k == "dms_str_colon5":
        a.dms_str(False, 5)
    elif k == "ra_str_fancy0":
        a.ra_str(True, 0)
    elif k == "dms_str":
        a.dms_str(True, 2)
    elif k == "ra_str":
        a.ra_str(False, 2)
    elif len(op) == 1:
        getattr(a, k)()
    else:
        getattr(a, k)(op[1])


def check_object_history(case):
    """After every step of the history the decompositions and strings of the object are those of a
    fresh Angle holding the same value, the value is inside (-360, 360), and the tuple clauses hold on
    the object itself."""
    a = Angle(case["start"])
    out = []
    for k, op in enumerate(case["history"]):
        op = tuple(op)
        try:
            _oh_apply(a, op)
            v = a._deg
            if not (-360.0 < v < 360.0):
                out.append(("history_range", "after %r on Angle(%r) the object holds %r, outside (-360, 360)"
                            % (case["history"][:k + 1], case["start"], v)))
            fresh = Angle()
            fresh._deg = v
            fresh._tol = a._tol
            got, exp = _oh_views(a), _oh_views(fresh)
            if got != exp:
                bad = [i for i in range(len(got)) if got[i] != exp[i]][0]
                out.append(("history_views", "after %r on Angle(%r) (value now %r) view %d is %r, a fresh object "
                            "of that value gives %r" % (case["history"][:k + 1], case["start"], v, bad, got[bad], exp[bad])))
            for ra in (False, True):
                out += [("history_" + s_, "after %r on Angle(%r): %s" % (case["history"][:k + 1], case["start"], m))
                        for s_, m in check_tuple(v, ra, obj=a) if s_ in ("tuple", "tuple_range", "tuple_recombine",
                                                                        "tuple_sign")]
                # the strings of the object itself, judged absolutely (grammar, sign, read-back): state shared by
                # all objects would mislead a fresh object of the same value in the same way
                if -360.0 < v < 360.0:
                    for fancy, nd in ((True, 3), (False, 0)):
                        out += [("history_" + s_, "after %r on Angle(%r): %s" % (case["history"][:k + 1], case["start"], m))
                                for s_, m in check_string(v, ra, fancy, nd, obj=a)]
        except Exception as ex:
            out.append(("history_exception", "history %r on Angle(%r) raised %r" % (case["history"][:k + 1],
                                                                                   case["start"], ex)))
        if out:
            break
    return out


def object_history_cases(tier):
    import itertools
    depth = 4 if tier == "thorough" else 3
    return [{"start": x, "history": [list(o) for o in h]} for x in OH_STARTS
            for d in range(1, depth + 1) for h in itertools.product(OH_OPS, repeat=d)]


def run_object_history(block, ctx):
    for case in block:
        ctx.evals += 6 * len(case["history"])
        ctx.transitions += len(case["history"])
        ctx.traces += 1
        ctx.states += 1
        ctx.nt_count += 1
        res = check_object_history(case)
        for site, msg in res:
            ctx.viol(case, msg, site=site)
        ctx.outcome((case["history"][-1][0], len(res)))
    ctx.obs(block[0], block[-1])
    ctx.sample(block[0])

# -- two objects related by copying: histories of observers and mutators applied to either ---------------------

PAIR_MAKERS = ["copy_ctor", "set_from", "copy_then_copy"]
PAIR_OPS = [("dms_tuple",), ("ra_tuple",), ("dms_str",), ("ra_str",), ("to_positive",), ("set", 272.68),
            ("set_ra", 5.5), ("set_radians", -1e-18)]


def pair_history_cases(tier):
    import itertools
    depth = 4 if tier == "thorough" else 3
    ops = [(t,) + o for t in (0, 1) for o in PAIR_OPS]
    return [{"start": x, "maker": mk, "history": [list(o) for o in h]} for x in (-87.32, -5e-324, 15.25)
            for mk in PAIR_MAKERS for d in range(1, depth + 1) for h in itertools.product(ops, repeat=d)]


def check_pair_history(case):
    """a = Angle(start); b is made from a by the copy constructor (or set(a), or a copy of a copy); each step
    applies an observer or a mutator to one of the two; after every step the tuples and strings of BOTH objects are
    judged absolutely for the value each holds."""
    a = Angle(case["start"])
    if case["maker"] == "copy_ctor":
        b = Angle(a)
    elif case["maker"] == "set_from":
        b = Angle(1.0)
        b.dms_tuple()
        b.set(a)
    else:
        b = Angle(Angle(a))
    objs = (a, b)
    out = []
    for k, op in enumerate(case["history"]):
        try:
            _oh_apply(objs[op[0]], tuple(op[1:]))
            for i, o in enumerate(objs):
                v = o._deg
                for ra in (False, True):
                    out += [("pair_" + s_, "after %r on the pair (%s of Angle(%r)), object %d (value %r): %s"
                             % (case["history"][:k + 1], case["maker"], case["start"], i, v, m))
                            for s_, m in check_tuple(v, ra, obj=o)]
                    if -360.0 < v < 360.0:
                        out += [("pair_" + s_, "after %r on the pair (%s of Angle(%r)), object %d (value %r): %s"
                                 % (case["history"][:k + 1], case["maker"], case["start"], i, v, m))
                                for s_, m in check_string(v, ra, True, 3, obj=o)]
        except Exception as ex:
            out.append(("pair_exception", "history %r on the pair (%s of Angle(%r)) raised %r"
                        % (case["history"][:k + 1], case["maker"], case["start"], ex)))
        if out:
            break
    return out


def run_pair_history(block, ctx):
    for case in block:
        ctx.evals += 8 * len(case["history"])
        ctx.transitions += len(case["history"])
        ctx.traces += 1
        ctx.nt_count += 1
        res = check_pair_history(case)
        for site, msg in res:
            ctx.viol(case, msg, site=site)
        ctx.outcome((case["maker"], case["history"][-1][1], len(res)))
    ctx.obs(block[0], block[-1])
    ctx.sample(block[0])


def replay(case):
    return [m for _, m in check_value(case["value"])]


def clauses(tier):
    crit = [v for v in lattice() if is_nontrivial(v)]
    out = [Clause("lattice", chunks(lattice(), 64), run_values, replay, floor=2000),
           Clause("tolerance_history", chunks(crit, 32), run_values_tol,
                  lambda c: [m for _, m in check_value_tol(c["value"])], floor=1000, shape="H")]
    out.append(Clause("pair_history", chunks(pair_history_cases(tier), 32), run_pair_history,
                      lambda c: [m for _, m in check_pair_history(c)], floor=5000, shape="H"))
    out.append(Clause("object_history", chunks(object_history_cases(tier), 32), run_object_history,
                      lambda c: [m for _, m in check_object_history(c)], floor=1000, shape="H"))
    if tier == "thorough":
        out.append(Clause("c03_bfs_states", list(c03.INITIALS), run_bfs_states, replay, floor=5000))
    return out
