"""C12 - interpolation, roots, extrema (L for the numerics, H for copy
independence), and the conjunction helpers built on it."""
import itertools
import math
from fractions import Fraction

from ..engine import Clause, chunks
from ..ref import poly as P

from pymeeus.Interpolation import Interpolation
from pymeeus.Angle import Angle
from pymeeus.Coordinates import (planetary_conjunction, planet_star_conjunction,
                                 planet_stars_in_line, minimum_angular_separation)

PROPERTY = "C12"
LEVEL = "exploration"
RULE = ("tables: 9 abscissa sets x every polynomial degree below n x all permutations "
        "(n <= 5; rotations and reversals beyond) x input forms, evaluated at every node and "
        "8 abscissae; roots/extrema: every ordered pair (xl, xh) of a 12-14 point limit set "
        "on 6 tables; conjunction helpers on synthetic motions with a closed-form crossing; "
        "copy-independence histories of length <= 2; non-trivial = non-identity permutation "
        "or non-list form (tables), a limit pair that excludes at least one other root or is "
        "reversed / out of table (roots), every helper case")
ASSUMPTIONS = ["oracle = exact rational interpolant through the float table (Lagrange in "
               "fractions)", "|p(r)| <= 1e-9 * max(1, max|y|) counts as 'vanishes to the "
               "object's tolerance' (the object's own test is on the float evaluation)",
               "root(0, 0) means the whole table (documented default)"]
TOL_REL = 1e-9


def bound(tier):
    return "all permutations for n <= 5; all ordered limit pairs; histories of length <= 2"


GRIDS = [[0, 1], [0, 1, 2], [-1, 0, 1], [1, 2, 4, 8], [-3, -1, 0, 2, 5],
         [0, 0.5, 1.5, 2, 3, 4.5], [7, 8, 9, 10, 11, 12, 13], [0, 1, 2, 3, 4, 5, 6, 7],
         [-4, -3, -2, -1, 0, 1, 2, 3, 4]]
SCALED = [([1600, 1700, 1800, 1900, 2000, 2100, 2200, 2300, 2400], 2000, 100),
          ([0, 1000, 2000, 3000, 4000, 5000], 2500, 1000),
          ([2451545.0 + 36525.0 * k for k in range(-3, 4)], 2451545, 36525),
          ([0.0, 0.001, 0.002, 0.003, 0.004, 0.005, 0.006], 0, "1/1000"),
          # Julian-day abscissae a minute apart (distinct, although equal to 3e-10 relative)
          ([2451545.0 + k / 1440.0 for k in range(6)], 2451545, "1/1440")]
COEFFS = [Fraction(1), Fraction(-3), Fraction(1, 2), Fraction(2), Fraction(-1, 10),
          Fraction(1, 4), Fraction(-1, 3), Fraction(1, 7), Fraction(-1, 20)]


def poly_of_degree(k):
    # coefficient list, lowest first; leading coefficient non-zero
    return [COEFFS[(i * 2 + k) % len(COEFFS)] for i in range(k + 1)]


PERM_ALL = 5


def perms_of(n):
    idx = list(range(n))
    if n <= PERM_ALL:
        return list(itertools.permutations(idx))
    out = []
    for r in range(n):
        rot = idx[r:] + idx[:r]
        out.append(tuple(rot))
        out.append(tuple(reversed(rot)))
    out.append(tuple(sorted(idx, key=lambda i: (i * 7) % n)))
    return sorted(set(out))


FORMS = ["lists", "tuples", "flat", "yonly", "copy", "set_used", "mixed", "lent_overwritten", "copy_source_reset"]


def build(form, xs, ys):
    if form == "lists":
        return Interpolation(list(xs), list(ys))
    if form == "tuples":
        return Interpolation(tuple(xs), tuple(ys))
    if form == "mixed":
        return Interpolation(list(xs), tuple(ys))
    if form == "flat":
        args = []
        for x, y in zip(xs, ys):
            args += [x, y]
        if len(args) < 4:
            return None
        return Interpolation(*args)
    if form == "yonly":
        if list(xs) != list(range(len(xs))):
            return None
        return Interpolation(list(ys))
    if form == "copy":
        return Interpolation(Interpolation(list(xs), list(ys)))
    if form == "set_used":
        it = Interpolation([10.0, 20.0, 30.0], [1.0, 4.0, 2.0])
        it(15.0)
        it.root(10.0, 30.0) if False else None
        it.set(list(xs), list(ys))
        return it
    if form == "lent_overwritten":
        # the caller re-uses its own buffers after handing them over
        xl, yl = list(xs), list(ys)
        c = Interpolation(xl, yl)
        for k in range(len(xl)):
            xl[k] = -3.0 * xl[k] + k
            yl[k] = 7.0 - k
        xl.append(5.0)
        del yl[0]
        return c
    if form == "copy_source_reset":
        src = Interpolation(list(xs), list(ys))
        c = Interpolation(src)
        src.set([1.0, 2.0, 4.0], [3.0, -1.0, 2.0])
        return c
    raise KeyError(form)


def check_table(case):
    g = case["grid"]
    k = case["degree"]
    perm = case["perm"]
    form = case["form"]
    c = poly_of_degree(k)
    if case.get("scale"):
        # polynomial with O(1) coefficients in u = (x - off) / sc, re-expressed exactly in x
        off, sc = Fraction(case["scale"][0]), Fraction(case["scale"][1])
        cx = [Fraction(0)]
        pw = [Fraction(1)]                  # (x - off)^j / sc^j as a polynomial in x
        for j, cj in enumerate(c):
            if j:
                nxt = [Fraction(0)] * (len(pw) + 1)
                for i_, a_ in enumerate(pw):
                    nxt[i_ + 1] += a_ / sc
                    nxt[i_] += -off * a_ / sc
                pw = nxt
            cx = [(cx[i_] if i_ < len(cx) else 0) + cj * (pw[i_] if i_ < len(pw) else 0)
                  for i_ in range(max(len(cx), len(pw)))]
        c = cx
    dc = P.pderiv(c)
    ys_exact = [P.peval(c, x) for x in g]
    ys = [float(y) for y in ys_exact]
    xs = [g[i] for i in perm]
    yy = [ys[i] for i in perm]
    out = []
    try:
        it = build(form, xs, yy)
    except Exception as ex:
        return [("build", "Interpolation[%s](%r, %r) raised %r" % (form, xs, yy, ex), None)]
    if it is None:
        return []
    lo, hi = min(g), max(g)
    pts = [lo + (hi - lo) * j / 7.0 for j in range(8)] + [float(x) for x in g]
    if len(it) != len(g):
        out.append(("len", "len() = %r for %d points" % (len(it), len(g)), None))
    for x in pts:
        ev = P.peval(c, x)
        ed = P.peval(dc, x)
        try:
            v = it(x)
            dev = abs(float(Fraction(v) - ev))
            if dev > TOL_REL * max(1.0, abs(float(ev))):
                out.append(("value", "interpolant(%r) = %r, polynomial %r" % (x, v, float(ev)), dev))
        except Exception as ex:
            out.append(("value", "interpolant(%r) raised %r" % (x, ex), None))
        try:
            d = it.derivative(x)
            dev = abs(float(Fraction(d) - ed))
            if dev > TOL_REL * max(1.0, abs(float(ed))):
                out.append(("derivative", "derivative(%r) = %r, polynomial %r" % (x, d, float(ed)), dev))
        except Exception as ex:
            out.append(("derivative", "derivative(%r) raised %r" % (x, ex), None))
    # passes through every point exactly as given
    for x, y in zip(g, ys):
        try:
            if abs(it(x) - y) > TOL_REL * max(1.0, abs(y)):
                out.append(("node", "interpolant(node %r) = %r, tabulated %r" % (x, it(x), y), None))
        except Exception as ex:
            out.append(("node", "interpolant(node %r) raised %r" % (x, ex), None))
    # (a hair outside - less than the object's tolerance - is probed for derivative() only: __call__ takes such an
    # abscissa for the end point itself, by design)
    for xo in (lo - 1e-6, hi + 1e-6, lo - 5, hi + 5, lo - 4e-11, hi + 4e-11):
        for name, fn in (("call", it), ("derivative", it.derivative)):
            if name == "call" and abs(xo - lo) < 1e-9 or name == "call" and abs(xo - hi) < 1e-9:
                continue
            if lo <= xo <= hi:          # (4e-11 is below the spacing of doubles on Julian-day grids)
                continue
            try:
                r = fn(xo)
                out.append(("outside", "%s(%r) outside the table [%r, %r] returned %r"
                            % (name, xo, lo, hi, r), None))
            except ValueError:
                pass
            except Exception as ex:
                out.append(("outside", "%s(%r) raised %r instead of ValueError" % (name, xo, ex), None))
    return out


def table_cases():
    cases = []
    for g in GRIDS:
        n = len(g)
        for k in range(n):
            perms = perms_of(n)
            for perm in perms:
                cases.append({"grid": g, "degree": k, "perm": list(perm), "form": "lists"})
            ident = tuple(range(n))
            for perm in (ident, tuple(reversed(ident))):
                for form in FORMS[1:]:
                    cases.append({"grid": g, "degree": k, "perm": list(perm), "form": form})
    # widely (and very finely) spaced abscissae carrying a polynomial with O(1) coefficients in the scaled
    # variable: the high-order divided differences are many orders of magnitude below the low-order ones
    for g, off, sc in SCALED:
        n = len(g)
        ident = list(range(n))
        for k in range(n):
            for perm in (ident, ident[::-1], ident[1::2] + ident[0::2]):
                cases.append({"grid": g, "degree": k, "perm": perm, "form": "lists", "scale": [off, sc]})
    return cases


def run_tables(block, ctx):
    for case in block:
        ctx.evals += 1
        res = check_table(case)
        for site, msg, dev in res:
            ctx.viol(case, msg, dev=dev, site=site)
        if case["perm"] != sorted(case["perm"]) or case["form"] != "lists":
            ctx.nt_count += 1
        ctx.outcome((len(case["grid"]), case["degree"], case["form"]))
        ctx.obs(case["grid"], case["degree"], case["perm"], case["form"], len(res))
    ctx.sample(block[0])


def check_duplicates(case):
    xs, ys, form = case["xs"], case["ys"], case["form"]
    try:
        it = build(form, xs, ys)
        if it is None:
            return []
        return ["Interpolation[%s](%r) with duplicated abscissae was accepted" % (form, xs)]
    except ValueError:
        return []
    except Exception as ex:
        return ["Interpolation[%s](%r) raised %r instead of ValueError" % (form, xs, ex)]


def dup_cases():
    out = []
    for xs in ([0, 1, 1], [1, 2, 1 + 1e-12], [0, 0], [3, 1, 2, 3], [5.0, 4.0, 5.0 - 1e-12, 1.0],
               [-1, 0, 1, 2, -1], [0.1, 0.2, 0.30000000000000004, 0.3]):
        ys = [float(i * i + 1) for i in range(len(xs))]
        for form in ("lists", "tuples", "flat", "set_used", "mixed"):
            out.append({"xs": xs, "ys": ys, "form": form})
    return out


def run_dups(block, ctx):
    for case in block:
        ctx.evals += 1
        ctx.nt_count += 1
        for msg in check_duplicates(case):
            ctx.viol(case, msg, site="duplicates")
        ctx.outcome(len(case["xs"]))
    ctx.sample(block[0])


# ---------------------------------------------------------------------------
# roots and extrema

def _cubic(x):
    return (x + 2) * (x - 0.5) * (x - 2.2)


ROOT_TABLES = {
    "cubic3": ([-3, -2.5, -1, 0, 1, 2, 3], _cubic,
               [-3, -2.5, -2.1, -1.0, 0.0, 0.4, 0.6, 1.0, 2.0, 2.1, 2.3, 3.0, -10, 10]),
    "quad2": ([-3, -2, -1, 0, 1, 2, 3], lambda x: (x - 1) * (x + 1.5),
              [-3, -2, -1.6, -1.4, 0.0, 0.9, 1.1, 2.0, 3.0, -7.5, 4.0, 0.5]),
    "lin1": ([-1.0, 0.0, 1.0], lambda x: x - 0.3,
             [-1, -0.5, 0.0, 0.2, 0.3, 0.4, 1.0, 2.0, -2.0, 0.29, 0.31, 0.9]),
    # a flat spot away from the root (Newton's start sees a vanishing derivative), and tables symmetric about the
    # mid-point of the search interval (the derivative there is exactly zero)
    "quintic_flat": ([10, 11, 12, 13, 14, 15, 16, 17, 18, 19, 20], lambda x: ((x - 15.3) / 2.0) ** 5 + 0.02,
                     [10, 12, 14, 15, 15.3, 15.5, 16, 18, 20, 9, 21, 13.7]),
    "cubic_sym": ([-2, -1, 0, 1, 2], lambda x: x ** 3 + 3.0, [-2, -1.5, -1, 0, 1, 1.5, 2, -3, 3, 0.5, -0.5, 1.9]),
    "cubic_sym2": ([0, 1, 2, 3, 4, 5, 6], lambda x: (x - 4.0) ** 3 + 2.0, [0, 2, 2.5, 3, 4, 5, 6, -1, 7, 1, 3.5, 4.5]),
    "quartic_min": ([-3, -2, -1, 0, 1, 2, 3], lambda x: x ** 4 / 4.0 + 2.0 * x, [-3, -2, -1.5, -1, 0, 1, 2, 3, -4, 4, -1.3, -1.2]),
    # roots of odd multiplicity: the interpolant changes sign, the derivative vanishes AT the root (regula falsi stalls)
    "triple": ([0, 1, 2, 3, 4, 5, 6], lambda x: (x - 3.1) ** 3, [0, 1, 2.5, 3, 3.1, 3.2, 4, 5, 6, -1, 7, 3.05]),
    "triple_x": ([0, 1, 2, 3, 4, 5, 6], lambda x: (x - 3.1) ** 3 * (x + 1.0), [0, 1, 2.5, 3, 3.1, 3.2, 4, 5, 6, -1, 7, 3.05]),
    "quintuple": ([0, 1, 2, 3, 4, 5, 6], lambda x: (x - 2.7) ** 5 / 10.0, [0, 1, 2.5, 2.7, 3, 3.2, 4, 5, 6, -1, 7, 2.65]),
    "sine": ([1, 2, 3, 4, 5, 6, 7], math.sin,
             [1, 2, 3, 3.1, 3.2, 4, 5, 6, 6.2, 6.3, 7, 0.0, 8.0, 6.5]),
    "offset": ([27.0, 27.5, 28.0, 28.5, 29.0], lambda x: (x - 28.1) * (x - 26.0) * 0.3,
               [27.0, 27.4, 28.0, 28.1, 28.2, 28.9, 29.0, 26.0, 30.0, 28.05, 28.15, 27.9]),
    "close_pair": ([0, 1, 2, 3, 4, 5], lambda x: (x - 1) * (x - 4) * (x - 4.01),
                   [0, 0.5, 1.0, 2.5, 3.9, 3.99, 4.0, 4.005, 4.01, 4.02, 4.5, 5, -1, 6]),
    "close_pair_neg": ([0, 1, 2, 3, 4, 5], lambda x: -(x - 1) * (x - 4) * (x - 4.01) * 3.0,
                       [0, 0.5, 1.0, 2.5, 3.9, 3.99, 4.0, 4.005, 4.01, 4.02, 4.5, 5, -1, 6]),
    "uneven": ([-4.0, -1.0, 0.5, 1.0, 3.0, 8.0], lambda x: (x + 2) * (x - 2) * (x - 6) / 10.0,
               [-4, -3, -2.5, -1.5, 0, 1.5, 2.5, 5, 6.5, 8, -9, 12]),
}


def _tab(xs, ys):
    d = dict(zip(xs, ys))
    return lambda x: d[x]


def _grid_pts(xs):
    """The abscissae themselves and points between them (search limits need not be tabulated values)."""
    out = list(xs)
    for a, b in zip(xs, xs[1:]):
        out += [a + 0.5 * (b - a), a + 0.3 * (b - a)]
    return out


# measured-looking tables: flat, quintic-like data rounded to three decimals (steep ends, a long flat stretch around
# the root), decaying and growing data whose interpolant wiggles BETWEEN the abscissae (an extremum pair, or a dip
# through zero, that the tabulated values themselves do not show)
_GEN = {}
for _i, (_r, _a, _b) in enumerate([(2.7, 1.0, 0.0), (3.1, 0.3, 0.02), (3.45, 1.0, 0.02), (2.2, 0.3, 0.0), (3.9, 2.0, 0.01)]):
    _xs = [0.0, 1.0, 2.0, 3.0, 4.0, 5.0, 6.0]
    _GEN["rquintic%d" % _i] = (_xs, [round(_a * (x - _r) ** 5 + _b * (x - _r), 3) for x in _xs])
_GEN["demo_flat1"] = ([0.0, 1.0, 2.0, 3.0, 4.0, 5.0, 6.0], [-104.965, -20.002, -1.566, 0.035, -0.033, 1.037, 15.863])
_GEN["demo_flat2"] = ([0.0, 1.0, 2.0, 3.0, 4.0, 5.0, 6.0, 7.0], [-47.974, -1.342, -0.001, 1.401, 48.929, 372.199, 1567.202, 4779.132])
_GEN["decay"] = ([0.0, 1.0, 2.0, 3.0, 4.0], [5.24, 2.80, 0.95, 0.44, 0.25])
_GEN["growth"] = ([0.0, 1.0, 2.0, 3.0, 4.0], [0.11, 0.17, 0.40, 4.79, 6.75])
for _i, (_A, _k, _c) in enumerate([(5.0, 0.9, 0.2), (7.0, 1.4, 0.05), (3.0, 0.6, -0.1)]):
    _xs = [0.0, 1.0, 2.0, 3.0, 4.0]
    _GEN["rdecay%d" % _i] = (_xs, [round(_A * math.exp(-_k * x) + _c, 2) for x in _xs])
    _GEN["rgrowth%d" % _i] = (_xs, [round(0.1 * math.exp(_k * x) + _c, 2) for x in _xs])
for _n, (_xs, _ys) in _GEN.items():
    ROOT_TABLES[_n] = (_xs, _tab(_xs, _ys), _grid_pts(_xs))
# Julian-day abscissae with brackets a few minutes wide around the root (narrower than 1e-9 of the abscissa)
_jx = [2451545.0 + k for k in range(6)]
ROOT_TABLES["jd_thin"] = (_jx, lambda x: 50.0 * (x - 2451547.3),
                          [2451547.3 - 1e-4, 2451547.3 + 1e-4, 2451547.3 - 1e-3, 2451547.3 + 2e-3, 2451547.0, 2451548.0,
                           2451545.0, 2451550.0, 2451547.3 - 3e-6, 2451547.3 + 5e-6])


def judge_root(p, scale, lo, hi, call, label):
    """p: exact polynomial (list); [lo, hi]: clamped interval (Fractions).
    call(): performs the library call.  Returns list of (site, msg, dev)."""
    tolv = Fraction(TOL_REL) * scale
    try:
        r = call()
    except ValueError as ex:
        if lo < hi:
            sl, sh = P.peval(p, lo), P.peval(p, hi)
            if P.sign(sl) * P.sign(sh) < 0 and abs(sl) > tolv and abs(sh) > tolv:
                return [("missed", "%s raised ValueError(%s) although the interpolant changes sign "
                         "on [%r, %r]" % (label, ex, float(lo), float(hi)), None)]
        return []
    except Exception as ex:
        return [("exception", "%s raised %r" % (label, ex), None)]
    out = []
    if isinstance(r, Angle):
        r = float(r)
    if not isinstance(r, (int, float)) or not math.isfinite(r):
        return [("type", "%s returned %r" % (label, r), None)]
    R = Fraction(r)
    slack = Fraction(1, 10**9)
    if lo > hi or R < lo - slack or R > hi + slack:
        out.append(("outside", "%s = %r lies outside the requested interval [%r, %r]"
                    % (label, r, float(lo), float(hi)), float(max(lo - R, R - hi))))
    v = P.peval(p, R)
    if abs(v) > tolv:
        out.append(("notzero", "%s = %r but the interpolant is %.3g there" % (label, r, float(v)),
                    float(abs(v))))
    return out


def check_root(case):
    xs, fn, _ = ROOT_TABLES[case["table"]]
    ys = [float(fn(x)) for x in xs]
    it = Interpolation(list(xs), list(ys))
    p = P.interpolant(xs, ys)
    if case["kind"] == "minmax":
        p = P.pderiv(p)
        scale = max(1.0, max(abs(float(P.peval(p, x))) for x in xs))
    else:
        scale = max(1.0, max(abs(y) for y in ys))
    xl, xh = case["xl"], case["xh"]
    xmin, xmax = Fraction(min(xs)), Fraction(max(xs))
    if xl == 0 and xh == 0:
        lo, hi = xmin, xmax
    else:
        lo = max(Fraction(min(xl, xh)), xmin)
        hi = min(Fraction(max(xl, xh)), xmax)
    label = "%s.%s(%r, %r)" % (case["table"], case["kind"], xl, xh)
    if case["kind"] == "root":
        call = lambda: it.root(xl, xh)
    else:
        call = lambda: it.minmax(xl, xh)
    if xl == xh and not (xl == 0 and xh == 0):
        try:
            r = call()
            return [("equal_limits", "%s with equal limits returned %r" % (label, r), None)]
        except ValueError:
            return []
        except Exception as ex:
            return [("exception", "%s raised %r" % (label, ex), None)]
    return judge_root(p, Fraction(scale), lo, hi, call, label)


def root_cases():
    cases = []
    for name, (xs, fn, pts) in ROOT_TABLES.items():
        for kind in ("root", "minmax"):
            for xl in pts:
                for xh in pts:
                    cases.append({"table": name, "kind": kind, "xl": xl, "xh": xh})
            cases.append({"table": name, "kind": kind, "xl": 0, "xh": 0})
    return cases


def run_roots(block, ctx):
    for case in block:
        ctx.evals += 1
        res = check_root(case)
        for site, msg, dev in res:
            ctx.viol(case, msg, dev=dev, site="%s_%s" % (case["kind"], site))
        xs = ROOT_TABLES[case["table"]][0]
        if case["xl"] > case["xh"] or min(case["xl"], case["xh"]) > min(xs) or \
                max(case["xl"], case["xh"]) < max(xs) or case["xl"] < min(xs) or case["xh"] > max(xs):
            ctx.nt_count += 1
        ctx.outcome((case["table"], case["kind"], len(res)))
        ctx.obs(case["table"], case["kind"], case["xl"], case["xh"], len(res))
    ctx.sample(block[0])


# -- root() with a tightened tolerance and a search limit a hair beyond the root ----------------------------------

TOL_TABLES = {
    "lin": ([-1.0, 0.0, 1.0], lambda x: x - 0.3, 0.3, (-1.0, 1.0)),
    "quad": ([0.0, 1.0, 2.0, 3.0, 4.0], lambda x: (x - 1.7) * (x + 2.0) * 0.25, 1.7, (0.4, 3.6)),
    "offset": ([27.0, 27.5, 28.0, 28.5, 29.0], lambda x: (x - 28.1) * (x - 26.0) * 0.3, 28.1, (27.2, 28.9)),
    "steep": ([0.0, 1.0, 2.0, 3.0], lambda x: 40.0 * (x - 1.25) * (x + 1.0), 1.25, (0.5, 2.5)),
}


def tol_cases():
    return [{"table": t, "tol": tol, "off": off, "side": side} for t in TOL_TABLES for tol in (1e-12, 1e-13)
            for off in (3e-11, 5e-11, 8e-11, 2e-12) for side in ("high", "low", "reversed")]


def check_root_tolerance(case):
    """The object's tolerance is tightened with set_tolerance(); one search limit lies `off` beyond the root (the
    interpolant changes sign on the interval): the returned abscissa must make the interpolant vanish to the
    OBJECT's tolerance (scaled by the size of the table's ordinates as everywhere in this check)."""
    xs, fn, root, (a, b) = TOL_TABLES[case["table"]]
    ys = [float(fn(x)) for x in xs]
    it = Interpolation(list(xs), list(ys))
    it.set_tolerance(case["tol"])
    off = case["off"]
    xl, xh = {"high": (a, root + off), "low": (root - off, b), "reversed": (b, root - off)}[case["side"]]
    lo, hi = min(xl, xh), max(xl, xh)
    p = P.interpolant(xs, ys)
    if P.sign(P.peval(p, Fraction(lo))) * P.sign(P.peval(p, Fraction(hi))) >= 0:
        return []
    label = "%s.root(%r, %r) with tolerance %g" % (case["table"], xl, xh, case["tol"])
    try:
        r = it.root(xl, xh)
    except Exception as ex:
        return [("tol_exception", "%s raised %r" % (label, ex), None)]
    out = []
    if not (lo - 1e-15 <= r <= hi + 1e-15):
        out.append(("tol_outside", "%s = %r outside the interval" % (label, r), None))
    v = abs(float(P.peval(p, Fraction(r))))
    if v > 4.0 * case["tol"]:
        out.append(("tol_notzero", "%s = %r, the interpolant is %.3g there (object tolerance %g)" % (label, r, v, case["tol"]), v))
    return out


def run_root_tolerance(block, ctx):
    for case in block:
        ctx.evals += 1
        ctx.nt_count += 1
        for site, msg, dev in check_root_tolerance(case):
            ctx.viol(case, msg, dev=dev, site=site)
        ctx.outcome((case["table"], case["side"]))
    ctx.sample(block[0])


# ---------------------------------------------------------------------------
# conjunction helpers

NS5 = [-2, -1, 0, 1, 2]


def helper_cases():
    cases = []
    for n0 in (-1.7, -0.37, 0.0, 0.2379, 1.9):
        for rates in ((0.30, -0.25), (1.2, 0.4), (-0.5, -0.9)):
            for curv in (0.0, 0.01, -0.02):
                for a0 in (156.0, 359.95, 0.02, 359.0):
                    for helper in ("planetary", "star", "inline"):
                        cases.append({"n0": n0, "rates": list(rates), "curv": curv, "a0": a0,
                                      "helper": helper, "entries": 5})
                    cases.append({"n0": n0, "rates": list(rates), "curv": curv, "a0": a0,
                                  "helper": "planetary", "entries": 6})
    return cases


def synth(case):
    n0, (r1, r2), curv, a0 = case["n0"], case["rates"], case["curv"], case["a0"]
    ns = NS5 if case["entries"] == 5 else NS5 + [3]
    if case["helper"] == "star":
        r2 = 0.0
    a2 = [a0 + r2 * n for n in ns]
    a1 = [a0 + r2 * n + (r1 - r2) * (n - n0) + curv * (n - n0) * (n + 5) for n in ns]
    d1 = [6.0 - 0.2 * n + 0.01 * n * n for n in ns]
    d2 = [4.0 - 0.1 * n for n in ns] if case["helper"] != "star" else [4.0 for n in ns]
    return ns, a1, d1, a2, d2


def check_helper(case):
    ns, a1, d1, a2, d2 = synth(case)
    A1 = [Angle(x) for x in a1]
    D1 = [Angle(x) for x in d1]
    A2 = [Angle(x) for x in a2]
    D2 = [Angle(x) for x in d2]
    snap1 = [x._deg for x in A1 + D1 + A2 + D2]
    use = ns[:5]
    out = []
    if case["helper"] == "inline":
        # two stars on the equator-ish great circle; planet crosses it
        s1a, s1d, s2a, s2d = Angle(a2[2] - 7.0), Angle(3.0), Angle(a2[2] + 9.0), Angle(8.0)

        def straight(a, d):
            ar, dr = math.radians(a), math.radians(d)
            b, e = math.radians(s1a._deg), math.radians(s1d._deg)
            c, f = math.radians(s2a._deg), math.radians(s2d._deg)
            return (math.tan(dr) * math.sin(b - c) + math.tan(e) * math.sin(c - ar)
                    + math.tan(f) * math.sin(ar - b))
        dx = [straight(A1[i]._deg, D1[i]._deg) for i in range(5)]
        p = P.interpolant(use, dx)
        scale = Fraction(max(1.0, max(abs(v) for v in dx)))
        call = lambda: planet_stars_in_line(A1, D1, s1a, s1d, s2a, s2d)
        return [(s, m, d) for s, m, d in
                judge_root(p, scale, Fraction(-2), Fraction(2), call, "planet_stars_in_line")]
    # right-ascension differences as angles on the circle, i.e. reduced to
    # (-180, 180]: their zero is where the two right ascensions coincide
    def wrap(v):
        v = math.fmod(v, 360.0)
        if v > 180.0:
            v -= 360.0
        elif v <= -180.0:
            v += 360.0
        return v
    if case["helper"] == "star":
        star_a, star_d = Angle(a2[2]), Angle(4.0)
        dal = [wrap(A1[i]._deg - star_a._deg) for i in range(5)]
        dde = [D1[i]._deg - star_d._deg for i in range(5)]
        call = lambda: planet_star_conjunction(A1, D1, star_a, star_d)
    else:
        dal = [wrap(A1[i]._deg - A2[i]._deg) for i in range(5)]
        dde = [D1[i]._deg - D2[i]._deg for i in range(5)]
        call = lambda: planetary_conjunction(A1, D1, A2, D2)
    p = P.interpolant(use, dal)
    scale = Fraction(max(1.0, max(abs(v) for v in dal)))
    got = {}

    def call2():
        r = call()
        got["r"] = r
        return r[0]
    out += judge_root(p, scale, Fraction(-2), Fraction(2), call2, case["helper"] + "_conjunction")
    if "r" in got:
        n_ret, dd = got["r"]
        if abs(float(n_ret) - case["n0"]) > 1e-6:
            out.append(("closed_form", "%s conjunction at n = %r, closed form %r"
                        % (case["helper"], float(n_ret), case["n0"]), abs(float(n_ret) - case["n0"])))
        pd = P.interpolant(use, dde)
        edd = float(P.peval(pd, Fraction(float(n_ret))))
        if abs(float(dd) - edd) > 1e-8:
            out.append(("declination", "declination difference %r, interpolated %r" % (float(dd), edd),
                        abs(float(dd) - edd)))
    snap2 = [x._deg for x in A1 + D1 + A2 + D2]
    if snap1 != snap2:
        out.append(("mutation", "helper modified its argument Angles", None))
    return out


def run_helpers(block, ctx):
    for case in block:
        ctx.evals += 1
        ctx.nt_count += 1
        res = check_helper(case)
        for site, msg, dev in res:
            ctx.viol(case, msg, dev=dev, site="%s_%s" % (case["helper"], site))
        ctx.outcome((case["helper"], len(res)))
        ctx.obs(case, len(res))
    ctx.sample(block[0])


# minimum angular separation: two bodies moving linearly in (alpha, delta)

def sep_deg(a1, d1, a2, d2):
    a1, d1, a2, d2 = map(math.radians, (a1, d1, a2, d2))
    x = math.cos(d1) * math.sin(d2) - math.sin(d1) * math.cos(d2) * math.cos(a2 - a1)
    y = math.cos(d2) * math.sin(a2 - a1)
    z = math.sin(d1) * math.sin(d2) + math.cos(d1) * math.cos(d2) * math.cos(a2 - a1)
    return math.degrees(math.atan2(math.hypot(x, y), z))


def minsep_cases():
    out = []
    for d0 in (0.0, 12.5, -33.0, 60.0):
        for (ra1, rd1, ra2, rd2) in ((0.9, 0.2, 0.1, -0.1), (0.5, -0.4, 0.5, 0.3), (-0.7, 0.1, 0.2, 0.05)):
            for nmin in (-0.6, 0.0, 0.35):
                for off in (0.05, 0.6):
                    out.append({"d0": d0, "rates": [ra1, rd1, ra2, rd2], "nmin": nmin, "off": off})
    return out


def check_minsep(case):
    d0 = case["d0"]
    ra1, rd1, ra2, rd2 = case["rates"]
    nm, off = case["nmin"], case["off"]
    a0 = 150.0
    # body 2 passes `off` degrees north of body 1 around n = nm
    def pos1(n):
        return a0 + ra1 * (n - nm), d0 + rd1 * (n - nm)

    def pos2(n):
        return a0 + ra2 * (n - nm), d0 + off + rd2 * (n - nm)
    args = []
    for n in (-1, 0, 1):
        a, d = pos1(n)
        args += [Angle(a), Angle(d)]
    for n in (-1, 0, 1):
        a, d = pos2(n)
        args += [Angle(a), Angle(d)]
    try:
        n_ret, dist = minimum_angular_separation(*args)
    except Exception as ex:
        return [("exception", "minimum_angular_separation raised %r" % ex, None)]
    # brute force on the exact linear motions

    def f(n):
        return sep_deg(*(pos1(n) + pos2(n)))
    lo, hi = -1.5, 1.5
    g = (math.sqrt(5) - 1) / 2
    c, d = hi - g * (hi - lo), lo + g * (hi - lo)
    for _ in range(200):
        if f(c) < f(d):
            hi = d
        else:
            lo = c
        c, d = hi - g * (hi - lo), lo + g * (hi - lo)
    nb = (lo + hi) / 2
    out = []
    if abs(n_ret - nb) > 2e-3:
        out.append(("time", "minimum separation at n = %r, brute force %r" % (n_ret, nb), abs(n_ret - nb)))
    if abs(float(dist) - f(nb)) > 1e-3 * f(nb) + 2e-4:
        out.append(("distance", "minimum separation %r deg, brute force %r" % (float(dist), f(nb)),
                    abs(float(dist) - f(nb))))
    return out


def run_minsep(block, ctx):
    for case in block:
        ctx.evals += 1
        ctx.nt_count += 1
        for site, msg, dev in check_minsep(case):
            ctx.viol(case, msg, dev=dev, site="minsep_" + site)
            ctx.maxi("minsep_dev_" + site, dev)
        ctx.outcome(case["d0"])
    ctx.sample(block[0])


# ---------------------------------------------------------------------------
# H: copy independence

TABLE_A = ([0.0, 1.0, 3.0, 4.0], [-1.0, -2.0, 2.0, 7.0])
TABLE_B = ([0.0, 1.0, 3.0, 4.0], [5.0, 1.0, -3.0, -4.0])
MUTATORS = ["set_B", "set_tol", "set_A_rev", "set_copy_of_other", "caller_scribbles"]
_LENT = []      # every list the harness has handed to the library in the current history


def lend(seq):
    lst = list(seq)
    _LENT.append(lst)
    return lst


def observe(it):
    obs = []
    for x in (0.5, 2.0, 3.5):
        try:
            obs.append(it(x))
            obs.append(it.derivative(x))
        except Exception as ex:
            obs.append(repr(ex))
    try:
        obs.append(it.root())
    except Exception as ex:
        obs.append(type(ex).__name__)
    try:
        obs.append(it.minmax())
    except Exception as ex:
        obs.append(type(ex).__name__)
    obs.append(len(it))
    obs.append(it.get_tolerance())
    return obs


def mutate(it, m, other):
    if m == "caller_scribbles":
        # the caller re-uses its own buffers: every list it ever passed in is overwritten in place
        for lst in _LENT:
            for k in range(len(lst)):
                lst[k] = -3.0 * lst[k] + 0.25 * k
            lst.append(99.0)
    elif m == "set_B":
        it.set(lend(TABLE_B[0]), lend(TABLE_B[1]))
    elif m == "set_tol":
        it.set_tolerance(1e-3)
    elif m == "set_A_rev":
        it.set(lend(reversed(TABLE_A[0])), lend([y + 1.0 for y in reversed(TABLE_A[1])]))
    elif m == "set_copy_of_other":
        it.set(other)


def check_history(case):
    del _LENT[:]
    src = Interpolation(lend(TABLE_A[0]), lend(TABLE_A[1]))
    cp = Interpolation(src)
    objs = {"src": src, "copy": cp}
    out = []
    if observe(src) != observe(cp):
        out.append("copy does not reproduce its source")
    for (who, m) in case["history"]:
        other = "copy" if who == "src" else "src"
        before = observe(objs[other])
        mine = observe(objs[who])
        try:
            mutate(objs[who], m, objs[other])
        except Exception as ex:
            out.append("%s.%s raised %r" % (who, m, ex))
            continue
        after = observe(objs[other])
        if before != after:
            out.append("%s.%s changed what the %s returns: %r -> %r"
                       % (who, m, other, before, after))
        if m == "set_copy_of_other" and observe(objs[who]) != observe(objs[other]):
            out.append("after %s.set(<the %s>) the two objects answer differently: %r vs %r"
                       % (who, other, observe(objs[who]), observe(objs[other])))
        if m == "caller_scribbles" and observe(objs[who]) != mine:
            out.append("overwriting the lists the tables were built from changed what the %s returns: %r -> %r"
                       % (who, mine, observe(objs[who])))
    return out


def history_cases():
    evs = [(w, m) for w in ("src", "copy") for m in MUTATORS]
    out = [{"history": [list(e)]} for e in evs]
    out += [{"history": [list(a), list(b)]} for a in evs for b in evs]
    out += [{"history": [list(a), list(b), list(c)]} for a in evs for b in evs for c in evs
            if "caller_scribbles" in (a[1], b[1], c[1])]
    return out


def run_history(block, ctx):
    for case in block:
        ctx.evals += 1
        ctx.nt_count += 1
        ctx.states += 1
        ctx.transitions += len(case["history"])
        for msg in check_history(case):
            ctx.viol(case, msg, site="copy_independence")
        ctx.outcome(len(case["history"]))
    ctx.sample(block[0])


def clauses(tier):
    global PERM_ALL
    PERM_ALL = 6 if tier == "thorough" else 5
    if tier == "thorough":
        for name in list(ROOT_TABLES):
            xs, fn, pts = ROOT_TABLES[name]
            lo, hi = min(xs), max(xs)
            extra = [lo + (hi - lo) * k / 23.0 for k in range(24)]
            ROOT_TABLES[name] = (xs, fn, sorted(set(list(pts) + extra)))
    return [
        Clause("tables", chunks(table_cases(), 48), run_tables,
               lambda c: [m for _, m, _ in check_table(c)], floor=1000),
        Clause("duplicates", [dup_cases()], run_dups, check_duplicates, floor=10),
        Clause("roots_extrema", chunks(root_cases(), 32), run_roots,
               lambda c: [m for _, m, _ in check_root(c)], floor=500),
        Clause("root_tolerance", chunks(tol_cases(), 16), run_root_tolerance,
               lambda c: [m for _, m, _ in check_root_tolerance(c)], floor=50),
        Clause("conjunction_helpers", chunks(helper_cases(), 16), run_helpers,
               lambda c: [m for _, m, _ in check_helper(c)], floor=100),
        Clause("minimum_separation", [minsep_cases()], run_minsep,
               lambda c: [m for _, m, _ in check_minsep(c)], floor=20),
        Clause("copy_history", chunks(history_cases(), 8), run_history, check_history, floor=20, shape="H"),
    ]
