"""./check <id> [--tier quick|thorough] [--replay file] [--workers n]"""
import argparse
import importlib
import json
import os
import sys
import time

from . import ROOT, SRC
from . import engine, evidence, findings


def load(prop):
    return importlib.import_module("vmc.props." + prop.lower())


def do_replay(prop, path):
    mod = load(prop)
    with open(path) as f:
        rec = json.load(f)
    clauses = {c.name: c for c in mod.clauses(rec.get("tier", "thorough"))}
    cl = clauses.get(rec["clause"])
    if cl is not None and rec.get("site") in ("stalled", "shard_exception"):
        # the whole shard is the replayable unit: run it again in one forked worker under the stall limit
        from . import findings as F
        import multiprocessing as mp
        si = rec["case"]["shard"]
        engine._CLAUSES, engine._PROP, engine._KNOWN = [cl], prop, F.for_property(prop)
        stall = float(os.environ.get("VMC_STALL_TIMEOUT", "0")) or engine.STALL_TIMEOUT
        with mp.get_context("fork").Pool(1) as pool:
            try:
                d = pool.apply_async(engine._work, ((0, si),)).get(timeout=stall)
            except mp.TimeoutError:
                d = None
        if d is None or d["error"] or d["nviol"]:
            print("replay: shard %d of %s %s" % (si, rec["clause"], "did not return" if d is None else
                                                 (d["error"] or "reports %d violation(s)" % d["nviol"])))
            print("VIOLATION property=%s replay=%s" % (prop, path))
            return 1
        print("replay: shard %d of %s/%s now completes without violation" % (si, prop, rec["clause"]))
        return 0
    if cl is None or cl.replay is None:
        print("replay: clause %r has no replay function" % rec["clause"])
        return 2
    out = cl.replay(rec["case"])
    if out:
        for o in out:
            print("replay: still violates: %s" % (o,))
        print("VIOLATION property=%s replay=%s" % (prop, path))
        return 1
    print("replay: case no longer violates %s/%s" % (prop, rec["clause"]))
    return 0


def main(argv=None):
    ap = argparse.ArgumentParser()
    ap.add_argument("prop")
    ap.add_argument("--tier", default=None)
    ap.add_argument("--replay", default=None)
    ap.add_argument("--workers", type=int, default=None)
    ap.add_argument("--only", default=None,
                    help="comma list of clause names (debugging; evidence not written)")
    a = ap.parse_args(argv)
    prop = a.prop.upper()
    if a.replay:
        return do_replay(prop, a.replay)
    tier = a.tier or os.environ.get("VERIF_TIER") or "quick"
    if tier not in ("quick", "thorough"):
        tier = "quick"
    try:
        seed = int(os.environ.get("VERIF_SEED", "0"))
    except ValueError:
        seed = 0
    os.environ["VMC_TIER"] = tier
    t0 = time.time()
    mod = load(prop)
    clauses = mod.clauses(tier)
    if a.only:
        want = set(a.only.split(","))
        clauses = [c for c in clauses if c.name in want]
    merged, broken = engine.run_clauses(prop, clauses, seed=seed, workers=a.workers,
                                        fresh=getattr(mod, "FRESH_WORKERS", False))
    wall = time.time() - t0

    tot = {"evals": 0, "nt": 0, "states": 0, "transitions": 0, "traces": 0,
           "nviol": 0, "outcomes": 0}
    per = {}
    samples = []
    hits = {}
    viols = []
    for name, m in merged.items():
        tot["evals"] += m["evals"]
        tot["nt"] += m["nt"]
        tot["states"] += m["states"]
        tot["transitions"] += m["transitions"]
        tot["traces"] += m["traces"]
        tot["nviol"] += m["nviol"]
        tot["outcomes"] += m["distinct_outcomes"]
        per[name] = {"evaluations": m["evals"], "distinct_nontrivial": m["nt"],
                     "distinct_outcomes": m["distinct_outcomes"],
                     "violations": m["nviol"], "shards": m["shards"],
                     "cpu_s": round(m["wall"], 2), "shape": m["shape"]}
        if m["states"]:
            per[name]["states"] = m["states"]
            per[name]["transitions"] = m["transitions"]
            per[name]["traces_validated_against_impl"] = m["traces"]
        for k, v in sorted(m["extra"].items()):
            per[name][k] = v
        for s in m["samples"][:2]:
            samples.append({"clause": name, "case": s})
        for fid, h in m["hits"].items():
            g = hits.setdefault(fid, [0, None, None])
            g[0] += h[0]
            if h[1] is not None and (g[1] is None or h[1] > g[1]):
                g[1] = h[1]
            g[2] = g[2] or h[2]
        viols.extend(m["viols"])

    rec_path = os.environ.get("VMC_RECORD_TABLES")
    if rec_path:
        tables = {}
        for name, m in merged.items():
            for fid, key, dev in m.get("records", []):
                tables.setdefault(fid, {})[key] = dev
        with open(rec_path, "w") as f:
            json.dump(tables, f, indent=0, sort_keys=True)
        print("recorded deviation tables for %s -> %s" % (sorted(tables), rec_path))
        return 0
    level = mod.LEVEL
    cov = {
        "evaluations": tot["evals"],
        "distinct_nontrivial": tot["nt"],
        "rule": mod.RULE,
        "samples": samples[:12] or [{"note": "no case explored"}],
        "distinct_outcomes": tot["outcomes"],
        "per_clause": per,
        "bound": mod.bound(tier) if hasattr(mod, "bound") else "",
        "exhaustive": not broken and not getattr(mod, "CAPPED", False),
        "source_tree": SRC,
        "known_findings_hit": {k: {"count": v[0], "max_dev": v[1],
                                   "example": v[2]} for k, v in sorted(hits.items())},
    }
    if level == "model_checking":
        cov["states"] = tot["states"]
        cov["transitions"] = tot["transitions"]
        cov["traces_validated_against_impl"] = tot["traces"]
    if broken:
        cov["broken"] = broken
    ev = {"property_id": prop, "tier": tier, "seed": seed, "level": level,
          "coverage": cov, "assumptions": list(getattr(mod, "ASSUMPTIONS", [])),
          "wall_s": round(wall, 2), "violations": tot["nviol"]}
    write_ev = not a.only and SRC == "/repo" and not os.environ.get("VMC_NO_EVIDENCE")
    errs = []
    if write_ev:
        path, errs = evidence.write(prop, ev)

    print("%s tier=%s seed=%d src=%s wall=%.1fs" % (prop, tier, seed, SRC, wall))
    for name, p in per.items():
        extra = ""
        if "states" in p:
            extra = " states=%d transitions=%d traces=%d" % (
                p["states"], p["transitions"], p["traces_validated_against_impl"])
        print("  clause %-28s evals=%-9d nontrivial=%-8d outcomes=%-7d viol=%d%s"
              % (name, p["evaluations"], p["distinct_nontrivial"],
                 p["distinct_outcomes"], p["violations"], extra))
    for name, p in per.items():
        for k, v in p.items():
            if k.startswith("violations_at:"):
                print("    %s %s = %d" % (name, k, v))
    for fid, h in sorted(hits.items()):
        print("KNOWN-FINDING: property=%s %s: %s [hits=%d%s]"
              % (prop, fid, findings.what(fid), h[0],
                 "" if h[1] is None else " max_dev=%.6g" % h[1]))
    rc = 0
    if viols or tot["nviol"]:
        os.makedirs(os.path.join(ROOT, "replays"), exist_ok=True)
        shown = 0
        seen_keys = set()
        for v in viols:
            key = (v["clause"], v.get("site"))
            n = sum(1 for k in seen_keys if k[:2] == key)
            if n >= 3:
                continue
            seen_keys.add(key + (shown,))
            rp = os.path.join(ROOT, "replays", "%s-%s-%d.json"
                              % (prop, v["clause"], shown))
            with open(rp, "w") as f:
                json.dump({"property": prop, "clause": v["clause"],
                           "site": v.get("site"), "tier": tier,
                           "case": v["case"], "detail": v["detail"],
                           "dev": v.get("dev")}, f, indent=1, sort_keys=True)
                f.write("\n")
            print("  violation clause=%s site=%s case=%s :: %s"
                  % (v["clause"], v.get("site"), json.dumps(v["case"])[:300],
                     str(v["detail"])[:300]))
            print("VIOLATION property=%s replay=%s" % (prop, rp))
            shown += 1
            if shown >= 12:
                break
        print("  total violations: %d" % tot["nviol"])
        rc = 1
    if broken:
        for b in broken:
            print("BROKEN: %s" % b)
        rc = rc or 2
    if errs:
        print("BROKEN: evidence invalid: %s" % errs)
        rc = rc or 2
    return rc


if __name__ == "__main__":
    sys.exit(main())
