"""Exploration engine: clauses, shards, per-shard accumulators, 16-way fan-out.

A property module provides ``clauses(tier) -> [Clause]``.  A Clause owns a finite
list of shards (a deterministic partition of its case space), a ``run(shard,
ctx)`` that executes *every* case of the shard against the implementation and
reports through the Ctx, and a ``replay(case)`` that re-evaluates one case
without the explorer.  Nothing here is random: the seed only permutes the
order in which shards are handed to workers and which explored cases are shown
as samples.
"""
import hashlib
import json
import math
import multiprocessing as mp
import os
import random
import sys
import time
import traceback

from . import findings as F

MAX_VIOL_PER_SHARD = 40
MAX_OUTCOMES = 200000
STALL_TIMEOUT = 3600.0       # seconds without any shard result before a thorough run is declared stalled
STALL_TIMEOUT_QUICK = 600.0  # ... a quick run (its slowest shard takes about a minute)
RECORD = bool(os.environ.get("VMC_RECORD_TABLES"))


class Clause(object):
    def __init__(self, name, shards, run, replay=None, floor=2, shape="L",
                 note=""):
        self.name = name
        self.shards = list(shards)
        self.run = run
        self.replay = replay
        self.floor = floor          # minimum distinct non-trivial cases
        self.shape = shape          # S / H / L (see DESIGN.md)
        self.note = note


def jsonable(x):
    """Literal, JSON-serialisable form of a case (floats kept exactly via
    repr round-trip; non-finite floats and other objects as strings)."""
    if isinstance(x, bool) or x is None or isinstance(x, (int, str)):
        return x
    if isinstance(x, float):
        if math.isfinite(x):
            return x
        return repr(x)
    if isinstance(x, (list, tuple)):
        return [jsonable(v) for v in x]
    if isinstance(x, dict):
        return {str(k): jsonable(v) for k, v in x.items()}
    return repr(x)


class Ctx(object):
    """Per-shard accumulator.  All counts are measured, none is a constant."""

    def __init__(self, prop, clause, known):
        self.prop = prop
        self.clause = clause
        self.known = known          # findings applying to this property
        self.evals = 0
        self.nt_count = 0           # distinct non-trivial (caller-distinct)
        self.nt_keys = set()        # distinct non-trivial (keyed)
        self.outcomes = set()
        self.states = 0
        self.transitions = 0
        self.traces = 0
        self.nviol = 0
        self.viols = []
        self.hits = {}              # finding id -> [count, maxdev, example]
        self.samples = []
        self.extra = {}
        self.records = []
        self._h = hashlib.blake2b(digest_size=8)

    # -- counting ---------------------------------------------------------
    def ev(self, n=1):
        self.evals += n

    def nt(self, key=None, n=1):
        if key is None:
            self.nt_count += n
        else:
            self.nt_keys.add(key)

    def outcome(self, key):
        if len(self.outcomes) < MAX_OUTCOMES:
            self.outcomes.add(key)

    def obs(self, *vals):
        """Feed observations into the determinism digest."""
        self._h.update(repr(vals).encode())

    def count(self, key, n=1):
        self.extra[key] = self.extra.get(key, 0) + n

    def maxi(self, key, v):
        k = "max:" + key
        if v is not None and (k not in self.extra or v > self.extra[k]):
            self.extra[k] = v

    def sample(self, case):
        if len(self.samples) < 3:
            self.samples.append(jsonable(case))

    # -- violations -------------------------------------------------------
    def viol(self, case, detail, dev=None, site=None):
        case = jsonable(case)
        if RECORD:
            fid = F.match(self.known, self.clause, site, case, dev, ignore_table=True)
            if fid is not None:
                for f in self.known:
                    if f["id"] == fid and f.get("dev_table"):
                        self.records.append((fid, F.table_key(f["dev_table"]["keys"], case, site), dev))
                    elif f["id"] == fid and f.get("input_list"):
                        self.records.append((fid, F.table_key(f["input_list"]["keys"], case, site), 1))
        fid = F.match(self.known, self.clause, site, case, dev)
        if fid is not None:
            h = self.hits.setdefault(fid, [0, None, None])
            h[0] += 1
            if dev is not None and (h[1] is None or abs(dev) > h[1]):
                h[1] = abs(dev)
            if h[2] is None:
                h[2] = {"case": case, "detail": detail}
            return
        self.nviol += 1
        self.count("violations_at:%s" % site)
        if len(self.viols) < MAX_VIOL_PER_SHARD:
            self.viols.append({"clause": self.clause, "site": site,
                               "case": case, "detail": detail, "dev": dev})

    def dump(self):
        return {
            "clause": self.clause, "evals": self.evals,
            "nt_count": self.nt_count, "nt_keys": self.nt_keys,
            "outcomes": self.outcomes, "states": self.states,
            "transitions": self.transitions, "traces": self.traces,
            "nviol": self.nviol, "viols": self.viols, "hits": self.hits,
            "samples": self.samples, "extra": self.extra, "records": self.records,
            "digest": self._h.hexdigest(),
        }


_CLAUSES = None
_PROP = None
_KNOWN = None


def _work(task):
    ci, si = task
    cl = _CLAUSES[ci]
    ctx = Ctx(_PROP, cl.name, _KNOWN)
    t0 = time.time()
    try:
        cl.run(cl.shards[si], ctx)
        err = None
    except BaseException:
        err = traceback.format_exc()
    d = ctx.dump()
    d["task"] = task
    d["error"] = err
    d["wall"] = time.time() - t0
    return d


def _digest_of(d):
    h = hashlib.blake2b(digest_size=8)
    h.update(repr((d["evals"], d["nt_count"], len(d["nt_keys"]),
                   sorted(map(repr, d["outcomes"]))[:1000], d["states"],
                   d["transitions"], d["nviol"],
                   json.dumps(d["viols"], sort_keys=True),
                   sorted((k, v[0]) for k, v in d["hits"].items()),
                   d["digest"])).encode())
    return h.hexdigest()


def run_clauses(prop, clauses, seed=0, workers=None, selftest=True, fresh=False):
    """Execute every shard of every clause; return merged per-clause results."""
    global _CLAUSES, _PROP, _KNOWN
    _CLAUSES = clauses
    _PROP = prop
    _KNOWN = F.for_property(prop)
    workers = workers or int(os.environ.get("VMC_WORKERS", "0")) or \
        min(16, os.cpu_count() or 1)
    tasks = [(ci, si) for ci, cl in enumerate(clauses)
             for si in range(len(cl.shards))]
    rnd = random.Random(seed)
    order = list(tasks)
    rnd.shuffle(order)
    ctxm = mp.get_context("fork")
    results = []
    broken = []
    stall = float(os.environ.get("VMC_STALL_TIMEOUT", "0")) or (
        STALL_TIMEOUT if os.environ.get("VMC_TIER") == "thorough" else STALL_TIMEOUT_QUICK)
    if workers <= 1 or len(order) <= 1:
        for t in order:
            results.append(_work(t))
    else:
        # A worker that dies (killed, out of memory, interpreter crash) never returns its shard and a
        # multiprocessing pool then waits for ever; a shard caught in an endless loop does the same.
        # If no shard result arrives for ``stall`` seconds the outstanding shards are reported as
        # violations (site 'stalled') and the pool is torn down.
        pool = ctxm.Pool(workers, maxtasksperchild=1 if fresh else None)
        pending = set(order)
        try:
            it = pool.imap_unordered(_work, order, chunksize=1)
            while pending:
                try:
                    d = it.next(timeout=stall)
                except mp.TimeoutError:
                    break
                except StopIteration:
                    break
                results.append(d)
                pending.discard(tuple(d["task"]))
        finally:
            pool.terminate()
            pool.join()
        for (ci, si) in sorted(pending):
            ctx = Ctx(prop, clauses[ci].name, _KNOWN)
            ctx.viol({"shard": si, "of": len(clauses[ci].shards)},
                     "shard %d of clause %s returned no result within %.0f s (worker died or the shard does not "
                     "terminate)" % (si, clauses[ci].name, stall), site="stalled")
            d = ctx.dump()
            d["task"] = (ci, si)
            d["error"] = None
            d["wall"] = stall
            results.append(d)
    # determinism self-test: first task of each clause is re-run in a fresh
    # single-use process; its observation digest must be identical.
    if selftest:
        firsts = {}
        for d in results:
            ci, si = d["task"]
            if si == 0:
                firsts[ci] = d
        if firsts:
            with ctxm.Pool(min(workers, len(firsts)), maxtasksperchild=1) as pool:
                try:
                    again = pool.map_async(_work, [(ci, 0) for ci in sorted(firsts)], chunksize=1).get(timeout=stall)
                except mp.TimeoutError:
                    again = []
                    broken.append("determinism self-test did not finish within %.0f s" % stall)
            for d2 in again:
                d1 = firsts[d2["task"][0]]
                if _digest_of(d1) != _digest_of(d2):
                    broken.append("non-deterministic shard 0 of clause %s"
                                  % d1["clause"])
    merged = {}
    for cl in clauses:
        merged[cl.name] = {"evals": 0, "nt": 0, "nt_keys": set(),
                           "outcomes": set(), "states": 0, "transitions": 0,
                           "traces": 0, "nviol": 0, "viols": [], "hits": {},
                           "samples": [], "extra": {}, "shards": 0, "records": [],
                           "wall": 0.0, "floor": cl.floor, "shape": cl.shape}
    for d in sorted(results, key=lambda d: d["task"]):
        m = merged[d["clause"]]
        if d["error"]:
            # an exception escaping a shard: on the unchanged tree this cannot happen (the check would be
            # broken); on a changed tree the library has handed the harness something it cannot digest
            m["nviol"] += 1
            m["viols"].append({"clause": d["clause"], "site": "shard_exception",
                               "case": {"shard": d["task"][1]},
                               "detail": "shard %d raised:\n%s" % (d["task"][1], d["error"][-1500:]), "dev": None})
            m["extra"]["violations_at:shard_exception"] = m["extra"].get("violations_at:shard_exception", 0) + 1
        m["evals"] += d["evals"]
        m["nt"] += d["nt_count"]
        m["nt_keys"] |= d["nt_keys"]
        if len(m["outcomes"]) < MAX_OUTCOMES:
            m["outcomes"] |= d["outcomes"]
        m["states"] += d["states"]
        m["transitions"] += d["transitions"]
        m["traces"] += d["traces"]
        m["nviol"] += d["nviol"]
        m["viols"].extend(d["viols"])
        for fid, h in d["hits"].items():
            g = m["hits"].setdefault(fid, [0, None, None])
            g[0] += h[0]
            if h[1] is not None and (g[1] is None or h[1] > g[1]):
                g[1] = h[1]
            if g[2] is None:
                g[2] = h[2]
        m["samples"].extend(d["samples"])
        m["records"].extend(d.get("records", []))
        for k, v in d["extra"].items():
            if k.startswith("max:"):
                if k not in m["extra"] or v > m["extra"][k]:
                    m["extra"][k] = v
            else:
                m["extra"][k] = m["extra"].get(k, 0) + v
        m["shards"] += 1
        m["wall"] += d["wall"]
    for name, m in merged.items():
        m["nt"] += len(m["nt_keys"])
        del m["nt_keys"]
        m["distinct_outcomes"] = len(m["outcomes"])
        del m["outcomes"]
        rnd2 = random.Random(seed * 7919 + len(name))
        if len(m["samples"]) > 4:
            m["samples"] = rnd2.sample(m["samples"], 4)
        if m["nt"] < m["floor"]:
            broken.append("clause %s is vacuous: %d distinct non-trivial cases"
                          " (floor %d)" % (name, m["nt"], m["floor"]))
    return merged, broken


# ---------------------------------------------------------------------------
# enumerators

def product(*alphabets):
    import itertools
    return itertools.product(*alphabets)


def within_deviations(base, alphabets, dmax):
    """All tuples that differ from ``base`` in at most ``dmax`` positions, each
    differing position taking any non-base member of its alphabet.  Yields
    (tuple, positions) with the base tuple first, then 1 deviation, then 2..."""
    import itertools
    n = len(base)
    yield tuple(base), ()
    for d in range(1, dmax + 1):
        for pos in itertools.combinations(range(n), d):
            alts = [[a for a in alphabets[p]] for p in pos]
            for choice in itertools.product(*alts):
                t = list(base)
                for p, c in zip(pos, choice):
                    t[p] = c
                yield tuple(t), pos


def chunks(seq, n):
    """Deterministic split of a list into at most n nearly equal blocks."""
    seq = list(seq)
    if not seq:
        return []
    n = max(1, min(n, len(seq)))
    k, r = divmod(len(seq), n)
    out = []
    i = 0
    for b in range(n):
        j = i + k + (1 if b < r else 0)
        out.append(seq[i:j])
        i = j
    return out


def bfs(initials, events, step, depth, on_transition=None, canon=None,
        enabled=None):
    """Breadth-first search over operation sequences applied to canonical
    states.  ``step(state, ev)`` returns the successor canonical state (or None
    when the event is disabled / ends in a documented exception);
    ``on_transition(state, ev, nxt, hist)`` is the oracle hook.  Returns
    (states, transitions, max_depth_completed, parents) where ``parents`` maps a
    state to the (parent, event) that first reached it, so a history can be
    rebuilt for the replay file."""
    canon = canon or (lambda s: s)
    seen = {}
    frontier = []
    for s in initials:
        k = canon(s)
        if k not in seen:
            seen[k] = None
            frontier.append(s)
    transitions = 0
    done = 0
    for lvl in range(depth):
        nxt_frontier = []
        for s in frontier:
            for ev in events:
                if enabled is not None and not enabled(s, ev):
                    continue
                n = step(s, ev)
                transitions += 1
                if n is None:
                    continue
                k = canon(n)
                if k not in seen:
                    seen[k] = (canon(s), ev)
                    nxt_frontier.append(n)
        frontier = nxt_frontier
        done = lvl + 1
        if not frontier:
            break
    return len(seen), transitions, done, seen


def history(parents, key):
    """Rebuild the event list that first reached canonical state ``key``."""
    evs = []
    while parents.get(key) is not None:
        key, ev = parents[key]
        evs.append(ev)
    evs.reverse()
    return key, evs
