"""Known findings: genuine defects of the pinned tree that are recorded instead
of repaired (DESIGN.md section 5).  The file is read-only at run time.

An entry is matched on the *inputs* of a violation, never on floating-point
outputs:  {"id", "property", "clause" (str or list), "site" (optional),
"match": {key: cond, ...} or "match_any": [ {..}, ... ], "envelope":
{"dev_max": x} (optional), "what"}.  cond is a literal (equality), or a dict
with any of in / nin / ge / gt / le / lt / ne.  All keys of a match dict must
be present in the case and satisfy their condition.  A violation with a
deviation larger than the envelope is NOT matched and is reported.
"""
import json
import os

from . import ROOT

PATH = os.path.join(ROOT, "known_findings.json")
_cache = None


def load():
    global _cache
    if _cache is None:
        if os.path.exists(PATH):
            with open(PATH) as f:
                _cache = json.load(f)
        else:
            _cache = {"findings": [], "fixed": []}
    return _cache


def for_property(prop):
    return [f for f in load().get("findings", []) if f["property"] == prop]


def _cond(val, cond):
    if isinstance(cond, dict):
        for op, ref in cond.items():
            try:
                if op == "in":
                    if val not in ref:
                        return False
                elif op == "nin":
                    if val in ref:
                        return False
                elif op == "ge":
                    if not val >= ref:
                        return False
                elif op == "gt":
                    if not val > ref:
                        return False
                elif op == "le":
                    if not val <= ref:
                        return False
                elif op == "lt":
                    if not val < ref:
                        return False
                elif op == "ne":
                    if val == ref:
                        return False
                else:
                    return False
            except TypeError:
                return False
        return True
    return val == cond


def _match_dict(case, m):
    if not isinstance(case, dict):
        return False
    for k, cond in m.items():
        if k not in case:
            return False
        if not _cond(case[k], cond):
            return False
    return True


def match(known, clause, site, case, dev, ignore_table=False):
    for f in known:
        cl = f.get("clause")
        if cl is not None:
            if isinstance(cl, list):
                if clause not in cl:
                    continue
            elif cl != clause:
                continue
        fs = f.get("site")
        if fs is not None:
            if isinstance(fs, list):
                if site not in fs:
                    continue
            elif fs != site:
                continue
        if "match_any" in f:
            if not any(_match_dict(case, m) for m in f["match_any"]):
                continue
        elif not _match_dict(case, f.get("match", {})):
            continue
        env = f.get("envelope")
        if env and "dev_max" in env:
            if dev is None or abs(dev) > env["dev_max"]:
                continue
        il = f.get("input_list")
        if il and not ignore_table:
            # explicit list of the failing inputs (findings_data/<id>.json)
            if table_key(il["keys"], case, site) not in _table(il["file"]):
                continue
        tab = f.get("dev_table")
        if tab and not ignore_table:
            # the deviation recorded for exactly this input (findings_data/<id>.json,
            # written once by tools/record_tables.py, never at check time)
            values = _table(tab["file"])
            key = table_key(tab["keys"], case, site)
            if key not in values or dev is None:
                continue
            ref = values[key]
            if abs(dev - ref) > tab["tol_abs"] + tab.get("tol_rel", 0.0) * abs(ref):
                continue
        return f["id"]
    return None


_tables = {}


def _table(name):
    if name not in _tables:
        path = os.path.join(ROOT, name)
        if os.path.exists(path):
            with open(path) as fh:
                _tables[name] = json.load(fh)
        else:
            _tables[name] = {}
    return _tables[name]


def table_key(keys, case, site=None):
    return "|".join([str(site)] + [repr(case.get(k)) for k in keys])


def what(fid):
    for f in load().get("findings", []):
        if f["id"] == fid:
            return f.get("what", "")
    return ""
