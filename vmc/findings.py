"""Known findings: genuine defects of the pinned tree that are recorded instead
of repaired (DESIGN.md section 5).  The file is read-only at run time.

An entry is matched on the *inputs* of a violation, never on floating-point
outputs:  {"id", "property", "clause" (str or list), "site" (optional),
"match": {key: cond, ...} or "match_any": [ {..}, ... ], "envelope":
{"dev_max": x} (optional), "what"}.  cond is a literal (equality), or a dict
with any of in / nin / ge / gt / le / lt / ne.  All keys of a match dict must
be present in the case and satisfy their condition.  A violation with a
deviation larger than the envelope is NOT matched and is reported.
"""
import json
import os

from . import ROOT

PATH = os.path.join(ROOT, "known_findings.json")
_cache = None


def load():
    global _cache
    if _cache is None:
        if os.path.exists(PATH):
            with open(PATH) as f:
                _cache = json.load(f)
        else:
            _cache = {"findings": [], "fixed": []}
    return _cache


def for_property(prop):
    return [f for f in load().get("findings", []) if f["property"] == prop]


def _cond(val, cond):
    if isinstance(cond, dict):
        for op, ref in cond.items():
            try:
                if op == "in":
                    if val not in ref:
                        return False
                elif op == "nin":
                    if val in ref:
                        return False
                elif op == "ge":
                    if not val >= ref:
                        return False
                elif op == "gt":
                    if not val > ref:
                        return False
                elif op == "le":
                    if not val <= ref:
                        return False
                elif op == "lt":
                    if not val < ref:
                        return False
                elif op == "ne":
                    if val == ref:
                        return False
                else:
                    return False
            except TypeError:
                return False
        return True
    return val == cond


def _match_dict(case, m):
    if not isinstance(case, dict):
        return False
    for k, cond in m.items():
        if k not in case:
            return False
        if not _cond(case[k], cond):
            return False
    return True


def match(known, clause, site, case, dev):
    for f in known:
        cl = f.get("clause")
        if cl is not None:
            if isinstance(cl, list):
                if clause not in cl:
                    continue
            elif cl != clause:
                continue
        if f.get("site") is not None and f["site"] != site:
            continue
        if "match_any" in f:
            if not any(_match_dict(case, m) for m in f["match_any"]):
                continue
        elif not _match_dict(case, f.get("match", {})):
            continue
        env = f.get("envelope")
        if env and "dev_max" in env:
            if dev is None or abs(dev) > env["dev_max"]:
                continue
        return f["id"]
    return None


def what(fid):
    for f in load().get("findings", []):
        if f["id"] == fid:
            return f.get("what", "")
    return ""
