"""vmc - bounded exhaustive exploration ("model checking") harness for pymeeus.

Importing this package puts the pymeeus source tree under test at the front of
sys.path: /repo by default, or $VMC_SRC (a scratch copy with a seeded change).
"""
import os
import sys
import warnings

SRC = os.environ.get("VMC_SRC", "/repo")
if sys.path[0] != SRC:
    sys.path.insert(0, SRC)
warnings.filterwarnings("ignore")

ROOT = os.path.dirname(os.path.dirname(os.path.abspath(__file__)))
