---- MODULE Pesach ----
(* 15 Nisan (Pesach) from the molad of Tishri and the four postponement rules, in integer
   arithmetic on "parts" (1 day = 25 920 parts, 1 hour = 1 080 parts) - independent second
   model for C19: the Python reference follows Dershowitz & Reingold's elapsed-days form, the
   library Meeus' (Gauss's) closed form in floating point.  State = (a, rh) where a is the
   Hebrew year and rh the day number (days since the molad epoch's week start) of 1 Tishri;
   Pesach of civil year a - 3761 is 163 days before 1 Tishri of year a.  TLC enumerates the
   years; every dumped state is replayed against pymeeus.Epoch.jewish_pesach. *)
EXTENDS Integers
CONSTANTS A0, A1
VARIABLES a, rh
vars == <<a, rh>>
PartsPerDay == 25920
(* months elapsed before Tishri of year yy (Metonic cycle: 235 months in 19 years) *)
Months(yy) == (235 * yy - 234) \div 19
(* molad of Tishri of year yy: molad BaHaRaD = day 1 (Monday) 5 h 204 p; one lunation =
   29 d 12 h 793 p = 29 d 13 753 p.  Days and parts are carried separately (TLC integers
   are 32 bits wide). *)
PartsSum(yy) == (5 * 1080 + 204) + 13753 * Months(yy)
MDay(yy) == 1 + 29 * Months(yy) + PartsSum(yy) \div PartsPerDay
MPart(yy) == PartsSum(yy) % PartsPerDay
(* weekday of a day number: day 1 is a Monday (1), Saturday = 0 ... here 0 = Sunday *)
WD(dd) == dd % 7
LeapYear(yy) == (7 * yy + 1) % 19 < 7
(* the four dehiyyot applied to the molad day *)
Postponed(yy) ==
  LET d0 == MDay(yy)
      p  == MPart(yy)
      d1 == IF p >= 18 * 1080 THEN d0 + 1                                         \* molad zaken
            ELSE IF WD(d0) = 2 /\ p >= 9 * 1080 + 204 /\ ~LeapYear(yy) THEN d0 + 1   \* GaTaRaD (Tuesday)
            ELSE IF WD(d0) = 1 /\ p >= 15 * 1080 + 589 /\ LeapYear(yy - 1) THEN d0 + 1 \* BeTUTeKaPoT (Monday)
            ELSE d0
  IN IF WD(d1) \in {0, 3, 5} THEN d1 + 1 ELSE d1                                 \* lo ADU rosh
Init == a = A0 /\ rh = Postponed(A0)
Next == /\ a < A1
        /\ a' = a + 1 /\ rh' = Postponed(a + 1)
Spec == Init /\ [][Next]_vars
TypeOK == WD(rh) \in {1, 2, 4, 6}
====
