---- MODULE Calendar ----
(* Civil-calendar successor machine: Julian through 1582-10-04, Gregorian from
   1582-10-15.  Independent second model for C01/C16: the harness hands in the
   day number N0 and weekday W0 of 1 January Y0 and replays EVERY state TLC
   dumps against pymeeus.Epoch (JDE = n - 0.5, weekday, day of year). *)
EXTENDS Integers
CONSTANTS YP, YN, SPAN, N0, W0
(* TLC configuration files cannot hold negative numbers: Y0 = YP - YN *)
Y0 == YP - YN
Y1 == Y0 + SPAN
VARIABLES y, m, d, n, w, doy
vars == <<y, m, d, n, w, doy>>
Leap(yy) == IF yy <= 1582 THEN yy % 4 = 0
            ELSE (yy % 4 = 0 /\ yy % 100 # 0) \/ yy % 400 = 0
MLen(yy, mm) == IF mm = 2 THEN (IF Leap(yy) THEN 29 ELSE 28)
                ELSE IF mm \in {4, 6, 9, 11} THEN 30 ELSE 31
Init == y = Y0 /\ m = 1 /\ d = 1 /\ n = N0 /\ w = W0 /\ doy = 1
Next == /\ ~(y = Y1 /\ m = 12 /\ d = 31)
        /\ n' = n + 1
        /\ w' = (w + 1) % 7
        /\ IF y = 1582 /\ m = 10 /\ d = 4
             THEN y' = y /\ m' = m /\ d' = 15 /\ doy' = doy + 1
           ELSE IF d < MLen(y, m)
             THEN y' = y /\ m' = m /\ d' = d + 1 /\ doy' = doy + 1
           ELSE IF m < 12
             THEN y' = y /\ m' = m + 1 /\ d' = 1 /\ doy' = doy + 1
           ELSE y' = y + 1 /\ m' = 1 /\ d' = 1 /\ doy' = 1
Spec == Init /\ [][Next]_vars
TypeOK == m \in 1..12 /\ d \in 1..31 /\ w \in 0..6 /\ doy \in 1..366
====
