---- MODULE LeapSeconds ----
(* The IERS leap-second history as a step automaton over months - independent second
   model for C10, typed from the Bulletin C presentation (years with a leap second at
   the end of June, years with one at the end of December) instead of the list of
   effective (year, month) pairs used by the Python reference.  Every state TLC dumps
   is replayed against pymeeus.Epoch (table value, utc=True offset, read-back). *)
EXTENDS Integers
CONSTANTS Y0, Y1
VARIABLES y, m, c
vars == <<y, m, c>>
JuneYears == {1972, 1981, 1982, 1983, 1985, 1992, 1993, 1994, 1997, 2012, 2015}
DecYears  == {1972, 1973, 1974, 1975, 1976, 1977, 1978, 1979, 1987, 1989, 1990,
              1995, 1998, 2005, 2008, 2016}
Init == y = Y0 /\ m = 1 /\ c = 0
Next == /\ ~(y = Y1 /\ m = 12)
        /\ IF m < 12 THEN y' = y /\ m' = m + 1 ELSE y' = y + 1 /\ m' = 1
        /\ c' = IF (m = 6 /\ y \in JuneYears) \/ (m = 12 /\ y \in DecYears) THEN c + 1 ELSE c
Spec == Init /\ [][Next]_vars
TypeOK == m \in 1..12 /\ c \in 0..27
====
