---- MODULE Hijri ----
(* Tabular Islamic calendar as a successor machine - independent second model for
   C19, written from the 30-year cycle table (leap years 2, 5, 7, 10, 13, 16, 18,
   21, 24, 26, 29 of each cycle) instead of the closed form (11 h + 14) mod 30 < 11
   used by the Python reference.  The harness hands in the day number N0 of
   1 Muharram H0 and replays EVERY state TLC dumps against
   pymeeus.Epoch.moslem2gregorian / gregorian2moslem. *)
EXTENDS Integers
CONSTANTS H0, SPAN, N0
H1 == H0 + SPAN
VARIABLES h, m, d, n
vars == <<h, m, d, n>>
LeapInCycle == {2, 5, 7, 10, 13, 16, 18, 21, 24, 26, 29}
Leap(hh) == (hh % 30) \in LeapInCycle
MLen(hh, mm) == IF mm % 2 = 1 THEN 30
                ELSE IF mm = 12 /\ Leap(hh) THEN 30 ELSE 29
Init == h = H0 /\ m = 1 /\ d = 1 /\ n = N0
Next == /\ ~(h = H1 /\ m = 12 /\ d = MLen(h, 12))
        /\ n' = n + 1
        /\ IF d < MLen(h, m)
             THEN h' = h /\ m' = m /\ d' = d + 1
           ELSE IF m < 12
             THEN h' = h /\ m' = m + 1 /\ d' = 1
           ELSE h' = h + 1 /\ m' = 1 /\ d' = 1
Spec == Init /\ [][Next]_vars
TypeOK == m \in 1..12 /\ d \in 1..30 /\ h >= H0 /\ h <= H1
====
