---- MODULE Easter ----
(* Easter Sunday by Gauss's algorithm (with its two Gregorian exceptions) - independent
   third formulation for C19: the library uses the Meeus/Butcher closed forms, the Python
   reference the tabular epact Computus.  Julian rule up to 1582, Gregorian from 1583.
   TLC enumerates the years Y0..Y1; every dumped state (y, mo, da) is replayed against
   pymeeus.Epoch.easter. *)
EXTENDS Integers
CONSTANTS YP, YN, SPAN
(* TLC configuration files cannot hold negative numbers: Y0 = YP - YN *)
Y0 == YP - YN
Y1 == Y0 + SPAN
VARIABLES y, mo, da
vars == <<y, mo, da>>
A(yy) == yy % 19
B(yy) == yy % 4
C(yy) == yy % 7
K(yy) == yy \div 100
P(yy) == (13 + 8 * K(yy)) \div 25
Q(yy) == K(yy) \div 4
MM(yy) == IF yy <= 1582 THEN 15 ELSE (15 - P(yy) + K(yy) - Q(yy)) % 30
NN(yy) == IF yy <= 1582 THEN 6 ELSE (4 + K(yy) - Q(yy)) % 7
D(yy) == (19 * A(yy) + MM(yy)) % 30
E(yy) == (2 * B(yy) + 4 * C(yy) + 6 * D(yy) + NN(yy)) % 7
(* days after 21 March *)
Raw(yy) == D(yy) + E(yy) + 1
Off(yy) == IF yy > 1582 /\ D(yy) = 29 /\ E(yy) = 6 THEN Raw(yy) - 7
           ELSE IF yy > 1582 /\ D(yy) = 28 /\ E(yy) = 6 /\ (11 * MM(yy) + 11) % 30 < 19 THEN Raw(yy) - 7
           ELSE Raw(yy)
Month(yy) == IF Off(yy) <= 10 THEN 3 ELSE 4
Day(yy) == IF Off(yy) <= 10 THEN 21 + Off(yy) ELSE Off(yy) - 10
Init == y = Y0 /\ mo = Month(Y0) /\ da = Day(Y0)
Next == /\ y < Y1
        /\ y' = y + 1 /\ mo' = Month(y + 1) /\ da' = Day(y + 1)
Spec == Init /\ [][Next]_vars
TypeOK == mo \in {3, 4} /\ da \in 1..31 /\ (mo = 3 => da >= 22) /\ (mo = 4 => da <= 25)
====
