#!/bin/sh
# Offline setup: nothing to build (pure Python, stdlib only).  Verifies the
# interpreter and byte-compiles the framework.
cd "$(dirname "$0")" || exit 1
/venv/bin/python -c "import sys; assert sys.version_info >= (3, 8)" || exit 1
/venv/bin/python -m compileall -q vmc >/dev/null || exit 1
mkdir -p evidence replays
echo "vmc ready"
