import warnings
warnings.filterwarnings("ignore")
from pymeeus.Epoch import Epoch
for j in (-500,500,1600,1700,1800,1860,1900,1920,1941,1961,1986,2005,2050,2150):
    a=Epoch.tt2ut(j-1,12); b=Epoch.tt2ut(j,1); 
    # natural monthly change estimated from neighbours
    n1=Epoch.tt2ut(j-1,12)-Epoch.tt2ut(j-1,11); n2=Epoch.tt2ut(j,2)-Epoch.tt2ut(j,1)
    print(j,'jump=%.3f'%(b-a),'nat_before=%.3f nat_after=%.3f'%(n1,n2))
IERS=[(1972,7),(1973,1),(1974,1),(1975,1),(1976,1),(1977,1),(1978,1),(1979,1),(1980,1),(1981,7),(1982,7),(1983,7),(1985,7),(1988,1),(1990,1),(1991,1),(1992,7),(1993,7),(1994,7),(1996,1),(1997,7),(1999,1),(2006,1),(2009,1),(2012,7),(2015,7),(2017,1)]
def ref(y,m): return sum(1 for (yy,mm) in IERS if (yy,mm)<=(y,m))
w=0
for y in range(1972,2019):
    for m in range(1,13):
        d=abs(Epoch.tt2ut(y,m)-(42.184+ref(y,m))); w=max(w,d)
print('max dev 1972-2018',w)
# within-year steps for 500..1600 (uses integer year)
print(Epoch.tt2ut(1000,1),Epoch.tt2ut(1000,12),Epoch.tt2ut(1001,1))
