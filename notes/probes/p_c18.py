import warnings, math, itertools
warnings.filterwarnings("ignore")
from pymeeus.Earth import Earth, Ellipsoid, IAU76, WGS84
from pymeeus.Angle import Angle
from collections import Counter, defaultdict
bad=Counter(); ex={}; worst=defaultdict(float)
for el in (IAU76,WGS84,Ellipsoid(6378137.0,0.0,7.29e-5),Ellipsoid(6378137.0,0.01,7.29e-5)):
    e=Earth(el); a=el._a; b=el.b()
    for lat in (-90,-89.999,-66.5,-45,-1e-6,0,1e-6,33.356,42,45,89.999,90):
        for lt in (lat, float(lat), Angle(lat)):
            rs=e.rho_sinphi(lt,0); rc=e.rho_cosphi(lt,0)
            worst['ellipse']=max(worst['ellipse'],abs(rc**2+(rs*a/b)**2-1))
            worst['rp']=max(worst['rp'],abs(e.rp(lt)-a*rc)/a)
            worst['vel']=max(worst['vel'],abs(e.linear_velocity(lt)-el._omega*e.rp(lt)))
            for h in (-500,0,1706,9000):
                worst['height']=max(worst['height'],abs(e.rho_sinphi(lt,h)-rs-h/a*math.sin(math.radians(lat))),abs(e.rho_cosphi(lt,h)-rc-h/a*math.cos(math.radians(lat))))
    worst['rm_eq']=max(worst['rm_eq'],abs(e.rm(0)-b*b/a)/a); worst['rm_pole']=max(worst['rm_pole'],abs(e.rm(90)-a*a/b)/a)
print(dict(worst))
e=Earth(IAU76); a=IAU76._a
pts=[(0,0),(10,0),(-170,0),(170,0),(0,45),(0,-45),(0,90),(0,-90),(77.065,38.92),(-2.337,48.836),(180,0),(90,0),(0,1e-7),(1e-7,0)]
for (l1,p1),(l2,p2) in itertools.product(pts,pts):
    try:
        d,err=e.distance(l1,p1,l2,p2); d2,_=e.distance(l2,p2,l1,p1)
    except Exception as x:
        bad['dist_exc:'+type(x).__name__]+=1; ex.setdefault('dist_exc:'+type(x).__name__,((l1,p1),(l2,p2))); continue
    if abs(d-d2)>1e-6: bad['sym']+=1
    # great-circle
    u=[math.cos(math.radians(p1))*math.cos(math.radians(l1)),math.cos(math.radians(p1))*math.sin(math.radians(l1)),math.sin(math.radians(p1))]
    v=[math.cos(math.radians(p2))*math.cos(math.radians(l2)),math.cos(math.radians(p2))*math.sin(math.radians(l2)),math.sin(math.radians(p2))]
    cx=(u[1]*v[2]-u[2]*v[1], u[2]*v[0]-u[0]*v[2], u[0]*v[1]-u[1]*v[0])
    gc=a*math.atan2(math.sqrt(sum(c*c for c in cx)), sum(x*y for x,y in zip(u,v)))
    if gc>1 and abs(d-gc)/gc>0.006: bad['gc']+=1; ex.setdefault('gc',((l1,p1),(l2,p2),d,gc))
    if p1==0 and p2==0:
        dl=abs(l1-l2); dl=min(dl,360-dl)
        if abs(d-a*math.radians(dl))>1e-4*max(1,d): bad['equator']+=1; ex.setdefault('equator',((l1,p1),(l2,p2),d,a*math.radians(dl)))
    if l1==l2 and abs(p1)<90 and abs(p2)<90:
        # integral of rm
        n=2000; lo,hi=min(p1,p2),max(p1,p2); s=0
        for i in range(n):
            ph=lo+(hi-lo)*(i+0.5)/n; s+=e.rm(ph)*math.radians((hi-lo)/n)
        if s>0 and abs(d-s)/s>1e-4: bad['meridian']+=1; ex.setdefault('meridian',((l1,p1),(l2,p2),d,s))
print(bad); 
for k,v in ex.items(): print(k,v)
# parallax
bad=Counter(); ex={}
for dist in (1e-3,0.0024650163,0.37276,1.0,30.0,1e3):
    hp=math.degrees(math.asin(math.sin(math.radians(8.794/3600))/dist)) if dist>5e-5 else None
    for ra,dec,lat,ha in itertools.product((0.0,339.53,180.0),(-89.0,-15.77,0.0,60.0,89.0),(-90.0,-33.356,0.0,33.356,90.0),(0.0,90.0,288.7958,180.0)):
        try:
            tra,tdec=Earth.parallax_correction(Angle(ra),Angle(dec),Angle(lat),dist,Angle(ha))
        except Exception as x:
            bad['pc_exc']+=1; ex.setdefault('pc_exc',(ra,dec,lat,dist,ha,repr(x))); continue
        u=[math.cos(math.radians(dec))*math.cos(math.radians(ra)),math.cos(math.radians(dec))*math.sin(math.radians(ra)),math.sin(math.radians(dec))]
        v=[math.cos(tdec.rad())*math.cos(tra.rad()),math.cos(tdec.rad())*math.sin(tra.rad()),math.sin(tdec.rad())]
        cx=(u[1]*v[2]-u[2]*v[1], u[2]*v[0]-u[0]*v[2], u[0]*v[1]-u[1]*v[0])
        s=math.degrees(math.atan2(math.sqrt(sum(c*c for c in cx)), sum(x*y for x,y in zip(u,v))))
        if s>hp*(1+1e-6)+1e-12: bad['pc_toobig']+=1; ex.setdefault('pc_toobig',(ra,dec,lat,dist,ha,s,hp))
    for lon,latb,obs,sid in itertools.product((0.0,181.77,359.9),(-60.0,-2.29,0.0,2.29,60.0),(-50.0,0.0,50.085),(0.0,209.77)):
        try:
            tl,tb,ts=Earth.parallax_ecliptical(Angle(lon),Angle(latb),Angle(0,16,15.5),Angle(obs),Angle(23.4669),Angle(sid),dist)
        except Exception as x:
            bad['pe_exc']+=1; ex.setdefault('pe_exc',(lon,latb,obs,sid,dist,repr(x))); continue
        u=[math.cos(math.radians(latb))*math.cos(math.radians(lon)),math.cos(math.radians(latb))*math.sin(math.radians(lon)),math.sin(math.radians(latb))]
        v=[math.cos(tb.rad())*math.cos(tl.rad()),math.cos(tb.rad())*math.sin(tl.rad()),math.sin(tb.rad())]
        cx=(u[1]*v[2]-u[2]*v[1], u[2]*v[0]-u[0]*v[2], u[0]*v[1]-u[1]*v[0])
        s=math.degrees(math.atan2(math.sqrt(sum(c*c for c in cx)), sum(x*y for x,y in zip(u,v))))
        if s>hp*(1+1e-6)+1e-12: bad['pe_toobig']+=1; ex.setdefault('pe_toobig',(lon,latb,obs,sid,dist,s,hp,tl(),tb()))
print(bad)
for k,v in ex.items(): print(k,v)
