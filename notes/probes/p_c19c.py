import warnings
warnings.filterwarnings("ignore")
from pymeeus.Epoch import Epoch
from collections import Counter
bad=Counter(); ex={}
EPOCH=1948439.5  # 622-07-16 Julian 0h
def ileap(h): return (11*h+14)%30<11
def mlen(h,m): return 30 if (m%2==1 or (m==12 and ileap(h))) else 29
def islamic_jd(h,m,d):
    return EPOCH + 354*(h-1) + (3+11*h)//30 + sum(mlen(h,k) for k in range(1,m)) + d-1
print(Epoch(EPOCH).get_date(), Epoch(islamic_jd(1421,1,1)).get_date())
n=0
prev=None
for h in range(1,2501):
    for m in range(1,13):
        for d in range(1,mlen(h,m)+1):
            n+=1
            jd=islamic_jd(h,m,d)
            try:
                g=Epoch.moslem2gregorian(h,m,d)
                gj=Epoch(*g).jde()
            except Exception as x:
                bad['m2g_exc']+=1; ex.setdefault('m2g_exc',(h,m,d,repr(x))); continue
            if gj!=jd: bad['m2g']+=1; ex.setdefault('m2g',(h,m,d,g,Epoch(jd).get_date()))
            try:
                back=Epoch.gregorian2moslem(*g)
                if tuple(back)!=(h,m,d): bad['rt']+=1; ex.setdefault('rt',(h,m,d,g,back))
            except Exception as x:
                bad['g2m_exc']+=1; ex.setdefault('g2m_exc',(h,m,d,g,repr(x)))
print(n,bad)
for k,v in ex.items(): print(k,v)
# civil->moslem over every civil date 622-07-16 .. 3000
bad=Counter(); ex={}
jd=EPOCH; end=Epoch(3000,12,31).jde(); n=0
# build reverse map incrementally
h,m,d=1,1,1
while jd<=end:
    y,mo,da=Epoch(jd).get_date(); da=int(da)
    try:
        got=Epoch.gregorian2moslem(y,mo,da)
        if tuple(got)!=(h,m,d): bad['g2m']+=1; ex.setdefault('g2m',((y,mo,da),got,(h,m,d)))
    except Exception as x:
        bad['g2m_exc']+=1; ex.setdefault('g2m_exc',((y,mo,da),repr(x)))
    n+=1; jd+=1
    d+=1
    if d>mlen(h,m):
        d=1; m+=1
        if m>12: m=1; h+=1
print(n,bad)
for k,v in ex.items(): print(k,v)
