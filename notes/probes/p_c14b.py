import warnings, math, itertools, time
warnings.filterwarnings("ignore")
from pymeeus.Sun import Sun
from pymeeus.Epoch import Epoch
from pymeeus.Angle import Angle
from pymeeus.Coordinates import *
from collections import Counter, defaultdict
bad=Counter(); ex={}; worst=defaultdict(float)
def sun_alt(ep_utc, lat, lon_east):
    # ep_utc: Epoch whose jde is a UTC-scale JD (as rise_set returns "UTC")
    y,m,d,h,mi,s=ep_utc.get_full_date()
    tt=Epoch(y,m,d,h,mi,s,utc=True)
    lon,la,r=Sun.apparent_geocentric_position(tt)
    eps=true_obliquity(tt); dpsi=nutation_longitude(tt)
    ra,dec=ecliptical2equatorial(lon,la,eps)
    # sidereal time from UT ~ UTC
    st=ep_utc.apparent_sidereal_time(eps,dpsi)*360.0
    H=Angle(st+lon_east-ra())
    az,el=equatorial2horizontal(H,dec,Angle(lat))
    return el(),H()
for (y,m,d) in [(1900,1,1),(1950,3,21),(1999,6,21),(2019,4,2),(2024,2,29),(2050,9,23),(2100,12,21),(1972,7,1)]:
    for lat in (-66.5,-45.0,-23.4,0.0,23.4,48.133,66.5):
        for lon in (-180.0,-75.0,0.0,11.567,120.0,179.9):
            for alt in (0.0,520.0,5000.0):
                e=Epoch(y,m,d)
                try: r,s=e.rise_set(Angle(lat),Angle(lon),alt)
                except Exception as x:
                    bad['exc:'+type(x).__name__]+=1; ex.setdefault('exc:'+type(x).__name__,(y,m,d,lat,lon,alt,repr(x))); continue
                h0=-0.83-2.076*math.sqrt(alt)/60
                ar,Hr=sun_alt(r,lat,lon); as_,Hs=sun_alt(s,lat,lon)
                for nm,a in (('rise',ar),('set',as_)):
                    dv=abs(a-h0)
                    if dv>worst[nm]: worst[nm]=dv; ex[nm]=(y,m,d,lat,lon,alt,a,h0)
                if not r<s: bad['order']+=1
                # hour angle: rise negative (east), set positive
                Hr=(Hr+180)%360-180; Hs=(Hs+180)%360-180
                if not (Hr<0<Hs): bad['transit_order']+=1; ex.setdefault('transit_order',(y,m,d,lat,lon,Hr,Hs))
                # same day?
                dd=r.jde()-e.jde()
                worst['day_off_max']=max(worst['day_off_max'],dd); worst['day_off_min']=max(worst['day_off_min'],-dd)
print(dict(worst)); print(bad)
for k,v in ex.items(): print(k,v)
