import warnings
warnings.filterwarnings("ignore")
from pymeeus.Epoch import Epoch
from collections import Counter
bad=Counter(); ex={}
# --- Easter: tabular computus ---
def easter_julian(y):
    g = y % 19
    # epact-based: paschal full moon
    i = (19*g + 15) % 30
    j = (y + y//4 + i) % 7
    l = i - j
    m = 3 + (l + 40)//44
    d = l + 28 - 31*(m//4)
    return m,d
def easter_greg(y):
    # Tabular: golden number, epact with solar & lunar corrections (Clavius)
    g = y % 19 + 1
    c = y//100 + 1
    x = 3*c//4 - 12
    z = (8*c+5)//25 - 5
    d = 5*y//4 - x - 10
    e = (11*g + 20 + z - x) % 30
    if (e == 25 and g > 11) or e == 24: e += 1
    n = 44 - e
    if n < 21: n += 30
    n = n + 7 - ((d + n) % 7)
    return (4, n-31) if n > 31 else (3, n)
for y in range(-4712, 10001):
    try:
        m,d=Epoch.easter(y)
    except Exception as x:
        bad['easter_exc']+=1; ex.setdefault('easter_exc',(y,repr(x))); continue
    exp = easter_julian(y) if y<1583 else easter_greg(y)
    if (m,d)!=exp: bad['easter']+=1; ex.setdefault('easter',(y,(m,d),exp))
    if not ((m==3 and d>=22) or (m==4 and d<=25)): bad['easter_range']+=1; ex.setdefault('easter_range',(y,m,d))
    try:
        if Epoch(y,m,d).dow()!=0: bad['easter_dow']+=1; ex.setdefault('easter_dow',(y,m,d))
    except Exception as x:
        bad['easter_epoch_exc']+=1; ex.setdefault('easter_epoch_exc',(y,m,d,repr(x)))
print(bad); print(ex)
