import warnings, math, itertools
warnings.filterwarnings("ignore")
from pymeeus.Angle import Angle
from pymeeus.Coordinates import *
from collections import Counter, defaultdict
def vec(lon,lat):
    lo=math.radians(lon); la=math.radians(lat)
    return (math.cos(la)*math.cos(lo), math.cos(la)*math.sin(lo), math.sin(la))
def sep(u,v):
    cx=(u[1]*v[2]-u[2]*v[1], u[2]*v[0]-u[0]*v[2], u[0]*v[1]-u[1]*v[0])
    return math.degrees(math.atan2(math.sqrt(sum(c*c for c in cx)), sum(a*b for a,b in zip(u,v))))
lons=[i*7.5+0.123 for i in range(48)]+[0.0,90.0,180.0,270.0]
lats=[-90.0,-89.999999,-89.9999,-89.99,-89.9,-89.0,-85.0,-60.0,-45.0,-1.0,0.0,1.0,23.44,45.0,66.56,85.0,89.0,89.9,89.99,89.9999,90.0]
worst=defaultdict(float)
for lo,la in itertools.product(lons,lats):
    for e in (0.0,10.0,23.4392911,30.0):
        l,b=equatorial2ecliptical(Angle(lo),Angle(la),Angle(e)); r,d=ecliptical2equatorial(l,b,Angle(e))
        s=sep(vec(lo,la),vec(r(),d())); worst[('ecl',la)]=max(worst[('ecl',la)],s)
        # also worst wrt output latitude
        worst[('ecl_out',round(abs(b()),0))]=max(worst[('ecl_out',round(abs(b()),0))],s)
    for phi in (-90.0,-66.5,0.0,38.92,89.9,90.0):
        az,el=equatorial2horizontal(Angle(lo),Angle(la),Angle(phi)); h,d=horizontal2equatorial(az,el,Angle(phi))
        s=sep(vec(lo,la),vec(h(),d())); worst[('hor',la)]=max(worst[('hor',la)],s)
        worst[('hor_out',round(abs(el()),0))]=max(worst[('hor_out',round(abs(el()),0))],s)
for k in sorted(worst, key=str): 
    if worst[k]>2e-10: print(k, worst[k])
