import warnings, math
warnings.filterwarnings("ignore")
from pymeeus.Angle import Angle
from pymeeus.Epoch import Epoch, JDE2000
from pymeeus.Coordinates import *
from pymeeus.Sun import Sun
from pymeeus.Earth import Earth
def y2jde(y): return 2451545.0+(y-2000.0)*365.25
for y in (1000,1500,1655.6,1900,1992.78,2000,2100,2500,3000):
    e=Epoch(y2jde(y))
    L,B,R=Earth.geometric_heliocentric_position(e,tofk5=False)
    Lj,Bj,Rj=Earth.geometric_heliocentric_position_j2000(e,tofk5=False)
    l2,b2=precession_ecliptical(e,JDE2000,L,B)
    dl=((l2()-Lj()+180)%360-180)*3600; db=(b2()-Bj())*3600
    print(y,'dlon"=%.3f dlat"=%.3f dR=%.2e'%(dl,db,R-Rj))
