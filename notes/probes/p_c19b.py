import warnings
warnings.filterwarnings("ignore")
from pymeeus.Epoch import Epoch
from collections import Counter
bad=Counter(); ex={}
def elapsed(y):
    months=(235*y-234)//19
    parts=12084+13753*months
    day=months*29+parts//25920
    if (3*(day+1))%7<3: day+=1
    return day
def delay(y):
    a,b,c=elapsed(y-1),elapsed(y),elapsed(y+1)
    if c-b==356: return 2
    if b-a==382: return 1
    return 0
HE=-1373427  # RD of day before? R.D. of Tishri 1 AM1 = -1373427 per D&R (fixed-from-julian(-3761 Oct 7))
def rh_rd(y): return HE+elapsed(y)+delay(y)
def rd2jd(rd): return rd+1721424.5
for y in range(1,3001):
    m,d=Epoch.jewish_pesach(y)
    try:
        e=Epoch(y,m,d)
    except Exception as x:
        bad['pesach_epoch_exc']+=1; ex.setdefault('pesach_epoch_exc',(y,m,d,repr(x))); continue
    w=e.dow()
    if w not in (0,2,4,6): bad['pesach_dow']+=1; ex.setdefault('pesach_dow',(y,m,d,w))
    exp=rd2jd(rh_rd(y+3761))-163
    if e.jde()!=exp: bad['pesach']+=1; ex.setdefault('pesach',(y,m,d,e.jde(),exp))
print(bad,ex)
# check my reference on known: 1990 -> Apr 10; 2024 -> Apr 23; 2000 Apr 20
for y in (1990,2024,2000): print(y, Epoch(rd2jd(rh_rd(y+3761))-163).get_date())
