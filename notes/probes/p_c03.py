import warnings, math, itertools
warnings.filterwarnings("ignore")
from pymeeus.Angle import Angle
from fractions import Fraction as F
from collections import Counter
bad=Counter(); ex={}
def nb(x,k=1):
    out=[x]
    a=b=x
    for _ in range(k):
        a=math.nextafter(a,math.inf); b=math.nextafter(b,-math.inf); out+= [a,b]
    return out
base=[0.0,1e-300,5e-324,1e-20,1e-10,1.0,59.999999,90.0,180.0,359.99999999,360.0,360.0000001,720.0,1080.0,1e6,1e9+0.5,1e15,123456789.123]
vals=[]
for b in base:
    for s in (1,-1):
        vals+=nb(s*b,1)
vals=sorted(set(vals))
def cong(a,b,tol):
    # a,b Fractions ; congruent mod 360 within tol
    d=(a-b)%360
    return min(d,360-d)<=tol
def check(tag,val,exact,inp):
    if not isinstance(val,float): bad[tag+'_type']+=1; ex.setdefault(tag+'_type',(inp,val)); return
    if not (-360<val<360): bad[tag+'_range']+=1; ex.setdefault(tag+'_range',(inp,val))
    tol=F(1,10**9)*max(1,abs(exact))
    if not cong(F(val),exact,tol): bad[tag+'_cong']+=1; ex.setdefault(tag+'_cong',(inp,val,float(exact)))
    if exact!=0 and val!=0 and (val>0)!=(exact>0): bad[tag+'_sign']+=1; ex.setdefault(tag+'_sign',(inp,val))
for v in vals:
    check('deg',Angle(v)(),F(v),v)
    check('int',Angle(int(v))(),F(int(v)),int(v)) if abs(v)<1e16 else None
for v in vals:
    if abs(v)>1e13: continue
    r=math.radians(v)
    check('rad',Angle(r,radians=True)(),F(r)*180/F(math.pi),r)   # note: pi float vs real pi
    h=v/15.0
    check('ra',Angle(h,ra=True)(),F(h)*15,h)
# to_positive
for v in vals:
    a=Angle(v); p=a.to_positive()()
    if not (0<=p<360): bad['topos_range']+=1; ex.setdefault('topos_range',(v,p))
print(bad); 
for k,v in ex.items(): print(k,v)
