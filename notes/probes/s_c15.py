import warnings, math, time
warnings.filterwarnings("ignore")
from multiprocessing import Pool
from pymeeus.Epoch import Epoch
from pymeeus.Moon import Moon
from pymeeus.Sun import Sun
from pymeeus.Coordinates import true_obliquity, ecliptical2equatorial
tg={'moon_phase':(["new","first","full","last"],29.530588861),'moon_perigee_apogee':(["perigee","apogee"],27.55454989),'moon_passage_nodes':(["ascending","descending"],27.212220817),'moon_maximum_declination':(["northern","southern"],27.321582241)}
J0=Epoch(-2000,1,2).jde(); J1=Epoch(3999,12,30).jde()
def elong(e):
    l,b,d,p=Moon.apparent_ecliptical_pos(e); sl,sb,sr=Sun.apparent_geocentric_position(e)
    return (l()-sl())%360
def ev_err(fn,t,re,extra):
    # returns error measure of event clause
    e=Epoch(re)
    if fn=='moon_phase':
        tgt={'new':0,'first':90,'full':180,'last':270}[t]
        return abs((elong(e)-tgt+180)%360-180)
    if fn=='moon_passage_nodes':
        return abs(Moon.geocentric_ecliptical_pos(e)[1]())
    if fn=='moon_perigee_apogee':
        f=lambda x: Moon.geocentric_ecliptical_pos(Epoch(x))[2]
    else:
        f=lambda x: Moon.apparent_equatorial_pos(Epoch(x))[1]()
    # locate extremum by golden/ternary search within +-1.5 d
    sgn = 1 if (t in('perigee','southern')) else -1   # minimise sgn*f
    a,b=re-1.5,re+1.5
    for _ in range(40):
        m1=a+(b-a)/3; m2=b-(b-a)/3
        if sgn*f(m1)<sgn*f(m2): b=m2
        else: a=m1
    x=(a+b)/2
    return abs(x-re) if fn=='moon_perigee_apogee' else (abs(x-re), abs(abs(f(x))-abs(extra())))
def job(a):
    fn,t,per=a; f=getattr(Moon,fn)
    prev=None; q=J0; step=per/20.0
    st={'n':0,'back':0,'gaplo':9,'gaphi':0,'far':0,'exc':0,'distinct':0,'ex':[],'everr':0,'everr2':0}
    cnt=0
    while q<=J1:
        try: r=f(Epoch(q),t)
        except Exception as x:
            st['exc']+=1
            if len(st['ex'])<2: st['ex'].append((q,repr(x)))
            q+=step; continue
        re=(r[0] if isinstance(r,tuple) else r).jde(); st['n']+=1
        fd=abs(re-q)
        if fd>st['far']: st['far']=fd; st['farq']=q
        if prev is not None:
            d=re-prev
            if d<-1e-6: st['back']+=1
            elif d>1e-6:
                st['distinct']+=1; g=d/per; st['gaplo']=min(st['gaplo'],g); st['gaphi']=max(st['gaphi'],g)
                cnt+=1
                if cnt%97==0:
                    er=ev_err(fn,t,re,r[1] if isinstance(r,tuple) else None)
                    if isinstance(er,tuple):
                        st['everr']=max(st['everr'],er[0]); st['everr2']=max(st['everr2'],er[1])
                    else: st['everr']=max(st['everr'],er)
        prev=re; q+=step
    return fn,t,st
if __name__=='__main__':
    jobs=[(fn,t,per) for fn,(ts,per) in tg.items() for t in ts]
    t0=time.time()
    with Pool(10) as p:
        for fn,t,st in p.imap_unordered(job,jobs):
            print(fn,t,'n=%d distinct=%d back=%d exc=%d gap=[%.3f,%.3f] far=%.2fd@%s everr=%.4g everr2=%.4g'%(st['n'],st['distinct'],st['back'],st['exc'],st['gaplo'],st['gaphi'],st['far'],st.get('farq'),st['everr'],st['everr2']),st['ex'],flush=True)
    print('wall',time.time()-t0)
