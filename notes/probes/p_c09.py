import warnings, math, itertools, time, importlib
warnings.filterwarnings("ignore")
from pymeeus.Sun import Sun
from pymeeus.Earth import Earth
from pymeeus.Epoch import Epoch, JDE2000
from pymeeus.Angle import Angle
from pymeeus.Coordinates import *
from pymeeus.Pluto import Pluto
from pymeeus.Minor import Minor
from collections import Counter, defaultdict
bad=Counter(); ex={}; worst=defaultdict(float)
def y2jde(y): return 2451545.0+(y-2000.0)*365.25
def vec(lon,lat,r=1.0):
    return (r*math.cos(lat)*math.cos(lon), r*math.cos(lat)*math.sin(lon), r*math.sin(lat))
def sepv(u,v):
    cx=(u[1]*v[2]-u[2]*v[1], u[2]*v[0]-u[0]*v[2], u[0]*v[1]-u[1]*v[0])
    return math.degrees(math.atan2(math.sqrt(sum(c*c for c in cx)), sum(a*b for a,b in zip(u,v))))
t0=time.time()
for nm in "Mercury Venus Mars Jupiter Saturn Uranus Neptune".split():
    P=getattr(importlib.import_module('pymeeus.'+nm),nm)
    for y in range(-2000,4001,100):
        for off in (0.0,91.3,200.7):
            e=Epoch(y2jde(y)+off); j0=e.jde()
            ra,dec,elon=P.geocentric_position(e)
            if e.jde()!=j0: bad['epoch_mutated']+=1
            l0,b0,r0=Earth.geometric_heliocentric_position(e,tofk5=False)
            E0=vec(l0.rad(),b0.rad(),r0)
            tau=0.0
            for _ in range(3):
                l,b,r=P.geometric_heliocentric_position(e-tau,tofk5=False)
                Pv=vec(l.rad(),b.rad(),r)
                d=[p-q for p,q in zip(Pv,E0)]; delta=math.sqrt(sum(c*c for c in d)); tau=0.0057755183*delta
            lam=math.atan2(d[1],d[0]); bet=math.atan2(d[2],math.hypot(d[0],d[1]))
            eps=mean_obliquity(e)
            ra2,dec2=ecliptical2equatorial(Angle(lam,radians=True),Angle(bet,radians=True),eps)
            s=sepv(vec(ra.rad(),dec.rad()),vec(ra2.rad(),dec2.rad()))
            if s>worst[nm+':dir']: worst[nm+':dir']=s; ex[nm+':dir']=(y,off)
            # elongation vs Sun apparent at same epoch
            sl,sb,sr=Sun.apparent_geocentric_position(e)
            eps_t=true_obliquity(e)
            sra,sdec=ecliptical2equatorial(sl,sb,eps_t)
            el2=sepv(vec(ra.rad(),dec.rad()),vec(sra.rad(),sdec.rad()))
            dv=abs(elon()-el2)
            if dv>worst[nm+':elon']: worst[nm+':elon']=dv; ex[nm+':elon']=(y,off)
            worst[nm+':elonmax']=max(worst[nm+':elonmax'],elon())
for k in sorted(worst): print(k,'%.4g'%worst[k],ex.get(k,''))
print(bad,time.time()-t0)
