import warnings
warnings.filterwarnings("ignore")
import pymeeus.Earth as E
for i,(a,b) in enumerate(zip(E.VSOP87_L,E.VSOP87_L_J2000)):
    print("L%d"%i,len(a),len(b))
    for k in range(min(len(a),len(b),6)):
        print("   ",a[k],b[k])
print([len(x) for x in E.VSOP87_B],[len(x) for x in E.VSOP87_B_J2000])
for i,(a,b) in enumerate(zip(E.VSOP87_B,E.VSOP87_B_J2000)):
    for k in range(min(len(a),len(b),3)):
        print("  B%d"%i,a[k],b[k])
