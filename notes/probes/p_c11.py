import warnings, math, itertools
warnings.filterwarnings("ignore")
from pymeeus.Angle import Angle
from pymeeus.Epoch import Epoch
from pymeeus.Coordinates import *
from collections import defaultdict, Counter
worst=defaultdict(float); ex={}; bad=Counter()
E=[0.0,1e-9,0.0167,0.1,0.5,0.9,0.95,0.98,0.99,0.999,0.9999,0.99999,0.999999]
Ms=[0.0,1e-9,-1e-9,1e-6,0.001,1.0,5.0,45.0,90.0,179.0,179.999999999,180.0,180.000000001,181.0,270.0,359.0,359.999999999,360.0,361.0,540.0,720.0,1e4,9999.9]
Ms=sorted(set(Ms+[-m for m in Ms]))
for e in E:
    for m in Ms:
        try:
            EE,v=kepler_equation(e,Angle(m))
        except Exception as x:
            bad['exc']+=1; ex.setdefault('exc',(e,m,repr(x))); continue
        Er=EE.rad()
        res=math.degrees(Er-e*math.sin(Er))-m
        res=(res+180)%360-180
        k=('res',e)
        if abs(res)>worst[k]: worst[k]=abs(res); ex[k]=m
        # same half revolution: sin(E) and sin(M) same sign (or zero)
        sm=math.sin(math.radians(m)); se=math.sin(Er)
        if abs(sm)>1e-9 and abs(se)>1e-9 and (sm>0)!=(se>0): bad['half']+=1; ex.setdefault('half',(e,m,EE()))
        # true anomaly relation
        if abs(abs(EE())-180)>1e-6:
            lhs=math.tan(v.rad()/2); rhs=math.sqrt((1+e)/(1-e))*math.tan(Er/2)
            if abs(lhs-rhs)>1e-9*max(1,abs(rhs)): bad['tanv']+=1; ex.setdefault('tanv',(e,m,lhs,rhs))
for k in sorted(worst): print(k,'%.3g'%worst[k],ex[k])
print(bad,{k:v for k,v in ex.items() if isinstance(k,str)})
# velocities etc
for e in (0.0,0.1,0.5,0.9,0.94999,0.95,0.95001,0.99):
    for a in (0.3,1.0,17.94,100.0):
        vp=velocity_perihelion(e,a); va=velocity_aphelion(e,a)
        print(e,a,'vp-v(q)=%.2e va-v(Q)=%.2e vpva/vc2-1=%.2e'%(vp-velocity(a*(1-e),a) if e>0 else 0, va-velocity(a*(1+e),a), vp*va/(velocity(a,a)**2)-1), 'L=%.6f'%(length_orbit(e,a)/a), 2*math.pi*math.sqrt(1-e*e), 2*math.pi) if a==1.0 else None
