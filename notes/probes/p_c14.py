import warnings, math, itertools, time
warnings.filterwarnings("ignore")
from pymeeus.Sun import Sun
from pymeeus.Epoch import Epoch
from pymeeus.Angle import Angle
from collections import Counter, defaultdict
bad=Counter(); ex={}; worst=defaultdict(float)
t0=time.time()
tg=["spring","summer","autumn","winter"]
prev={}
for y in list(range(-1000,-900))+list(range(-10,10))+list(range(990,1010))+list(range(1570,1590))+list(range(1990,2010))+list(range(2950,3001)):
    es=[]
    for k,t in enumerate(tg):
        e=Sun.get_equinox_solstice(y,t); es.append(e)
        lon,lat,r=Sun.apparent_geocentric_position(e)
        d=abs((lon.to_positive()()-90*k+180)%360-180)
        worst['lon']=max(worst['lon'],d)
        if (y-1,t) in prev:
            dd=e-prev[(y-1,t)]
            if not 365.2<=dd<=365.3: bad['year_gap']+=1; ex.setdefault('year_gap',(y,t,dd))
        prev[(y,t)]=e
        if e.get_date()[0]!=y: bad['wrong_year']+=1; ex.setdefault('wrong_year',(y,t,e.get_date()))
    for a,b in zip(es,es[1:]):
        if not 88<=b-a<=95: bad['season_gap']+=1; ex.setdefault('season_gap',(y,b-a))
for y in (-1001,3001):
    try: Sun.get_equinox_solstice(y,"spring"); bad['noerr']+=1
    except ValueError: pass
print(dict(worst),bad,ex,time.time()-t0)
# EoT
bad=Counter(); ex={}; worst=defaultdict(float)
def val(ms): 
    m,s=ms
    return m+math.copysign(s/60,m) if m!=0 else s/60
for y in (-2000,-500,0,1000,1582,1900,2000,2024,3000,4000):
    prevv=None
    for d in range(0,366):
        e=Epoch(Epoch(y,1,1).jde()+d)
        try: ms=Sun.equation_of_time(e)
        except Exception as x: bad['eot_exc']+=1; ex.setdefault('eot_exc',(y,d,repr(x))); continue
        v=val(ms)
        if abs(v)>worst[y]: worst[y]=abs(v); 
        if abs(v)>25: bad['eot_big']+=1; ex.setdefault('eot_big',(y,d,ms))
        if not (0<=ms[1]<60): bad['sec_range']+=1
        prevv=v
print(dict(worst),bad,ex)
