import warnings, datetime
warnings.filterwarnings("ignore")
from pymeeus.Epoch import Epoch
from collections import Counter
def jleap(y): return y % 4 == 0
def gleap(y): return (y%4==0 and y%100!=0) or y%400==0
ml=[31,28,31,30,31,30,31,31,30,31,30,31]
bad=Counter(); ex={}
jd=-0.5; n=0
for y in range(-4712, 6001):
    leap = jleap(y) if y<1582 else (False if y==1582 else gleap(y))
    jan1=jd
    for m in range(1,13):
        L = ml[m-1] + (1 if (m==2 and leap) else 0)
        for d in range(1, L+1):
            if y==1582 and m==10 and 5<=d<=14: continue
            e=Epoch(y,m,d); n+=1
            # dow
            w=e.dow(); ew=int((jd+1.5)//1)%7
            if w!=ew: bad['dow']+=1; ex.setdefault('dow',(y,m,d,w,ew))
            if y>1582:
                pw=(datetime.date(y,m,d).weekday()+1)%7 if y<=9999 else None
                if pw is not None and pw!=w: bad['dowgreg']+=1
            # doy
            edoy=jd-jan1+1
            try:
                g=Epoch.get_doy(y,m,d)
                if g!=edoy: bad['get_doy']+=1; ex.setdefault('get_doy',(y,m,d,g,edoy))
            except Exception as x:
                bad['get_doy_exc']+=1; ex.setdefault('get_doy_exc',(y,m,d,repr(x)))
            try:
                g=e.doy()
                if g!=edoy: bad['doy']+=1
            except Exception as x:
                bad['doy_exc']+=1
            try:
                r=Epoch.doy2date(y,int(edoy))
                if (r[0],r[1],r[2])!=(y,m,d): bad['doy2date']+=1; ex.setdefault('doy2date',(y,m,d,edoy,r))
            except Exception as x:
                bad['doy2date_exc']+=1; ex.setdefault('doy2date_exc',(y,m,d,repr(x)))
            try:
                yr=e.year()
                if int(yr//1)!=y: bad['year_int']+=1; ex.setdefault('year_int',(y,m,d,yr))
            except Exception as x:
                bad['year_exc']+=1; ex.setdefault('year_exc',(y,m,d,repr(x)))
            jd+=1
print(n,bad); 
for k,v in ex.items(): print(k,v)
