import warnings, math, itertools, time
warnings.filterwarnings("ignore")
from pymeeus.Sun import Sun
from pymeeus.Moon import Moon
from pymeeus.Epoch import Epoch
from pymeeus.Angle import Angle
from collections import Counter, defaultdict
bad=Counter(); ex={}; worst=defaultdict(float)
def y2jde(y): return 2451545.0+(y-2000.0)*365.25
t0=time.time()
mn=defaultdict(lambda:1e99); mx=defaultdict(lambda:-1e99)
for y in range(-2000,4001,25):
    for d in range(0,60,3):
        e=Epoch(y2jde(y)+d*1.37)
        lon,lat,dist,par=Moon.geocentric_ecliptical_pos(e)
        mn['dist']=min(mn['dist'],dist); mx['dist']=max(mx['dist'],dist); mx['lat']=max(mx['lat'],abs(lat()))
        worst['par']=max(worst['par'],abs(par()-math.degrees(math.asin(6378.14/dist))))
        l2,_,_,_=Moon.geocentric_ecliptical_pos(e+1.0)
        rate=(l2()-lon()+180)%360-180
        mn['rate']=min(mn['rate'],rate); mx['rate']=max(mx['rate'],rate)
        k=Moon.illuminated_fraction_disk(e)
        mn['k']=min(mn['k'],k); mx['k']=max(mx['k'],k)
        # geometry k
        sl,sb,sr=Sun.apparent_geocentric_position(e)
        al,ab,_,_=Moon.apparent_ecliptical_pos(e)
        cospsi=math.cos(ab.rad())*math.cos(al.rad()-sl.rad())
        psi=math.acos(cospsi); R=sr*149597870.7
        i=math.atan2(R*math.sin(psi), dist-R*cospsi)
        kk=(1+math.cos(i))/2
        worst['k_geom']=max(worst['k_geom'],abs(k-kk))
print(dict(mn),dict(mx),dict(worst),time.time()-t0)
# finders
tg={'moon_phase':(["new","first","full","last"],29.530588861),'moon_perigee_apogee':(["perigee","apogee"],27.55454989),'moon_passage_nodes':(["ascending","descending"],27.212220817),'moon_maximum_declination':(["northern","southern"],27.321582241)}
for fn,(targets,per) in tg.items():
    f=getattr(Moon,fn)
    for t in targets:
        for era in (-2000,-1,100,1500,1582,2000,3999):
            prev=None; start=Epoch(era,1,1).jde()
            for i in range(0,800):
                q=Epoch(start+i*per/20.0)
                try: r=f(q,t)
                except Exception as x:
                    bad[fn+':exc']+=1; ex.setdefault(fn+':exc',(t,q.get_date(),repr(x))); continue
                re=r[0] if isinstance(r,tuple) else r
                if abs(re-q)>1.6*29.53: bad[fn+':far']+=1; ex.setdefault(fn+':far',(t,q(),re()))
                if prev is not None:
                    d=re-prev
                    if d<-1e-6: bad[fn+':back']+=1; ex.setdefault(fn+':back',(t,q.get_date(),d))
                    elif d>1e-6 and not (0.9*per<d<1.1*per): bad[fn+':gap']+=1; ex.setdefault(fn+':gap',(t,q.get_date(),d))
                prev=re
print(bad)
for k,v in ex.items(): print(k,v)
print(time.time()-t0)
