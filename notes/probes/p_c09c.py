import warnings, math
warnings.filterwarnings("ignore")
from pymeeus.Epoch import Epoch
from pymeeus.Angle import Angle
from pymeeus.Minor import Minor
from collections import Counter
T=Epoch(1998,4,14.4358); c=Counter(); exs={}
for q in (0.1,0.5871018,1.0,3.363943,30.0):
    for e in (0.0,0.1,0.5,0.8502196,0.9672746,0.9799999,0.98,0.9800001,0.99,0.999,1.0):
        for (i,Om,w) in ((0,0,0),(11.94524,334.75006,186.23352),(90,120,270),(162,58,112)):
            mb=Minor(q,e,Angle(i),Angle(Om),Angle(w),T)
            for dt in (0.0,1e-11,-1e-11,0.5,-0.5,20.0,-20.0,300.0,-300.0,5000.0,-5000.0,18262.0,-18262.0):
                try: mb.geocentric_position(T+dt)
                except Exception as x:
                    c[(e,str(x)[:30])]+=1; exs.setdefault((e,str(x)[:30]),(q,i,dt))
for k,v in sorted(c.items()): print(k,v,exs[k])
import traceback
mb=Minor(0.1,0.0,Angle(0),Angle(0),Angle(0),T)
try: mb.geocentric_position(T+18262.0)
except Exception: traceback.print_exc()
