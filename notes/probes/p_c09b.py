import warnings, math, itertools
warnings.filterwarnings("ignore")
from pymeeus.Epoch import Epoch
from pymeeus.Angle import Angle
from pymeeus.Minor import Minor
from pymeeus.Pluto import Pluto
from pymeeus.Sun import Sun
from collections import defaultdict, Counter
K=0.01720209895
def helio(q,e,i,Om,w,dt):
    # returns heliocentric equatorial J2000 xyz at dt days from perihelion
    if e<1.0:
        a=q/(1-e); n=K/(a*math.sqrt(a)); M=n*dt
        # solve Kepler by bisection on wrapped M
        M=(M+math.pi)%(2*math.pi)-math.pi
        lo,hi=-math.pi,math.pi
        for _ in range(200):
            mid=(lo+hi)/2
            if mid-e*math.sin(mid)-M>0: hi=mid
            else: lo=mid
        E=(lo+hi)/2
        v=2*math.atan2(math.sqrt(1+e)*math.sin(E/2),math.sqrt(1-e)*math.cos(E/2)); r=a*(1-e*math.cos(E))
    else:
        W=3*K/math.sqrt(2)*dt/(q*math.sqrt(q))
        # solve s^3+3s-W=0
        lo,hi=-1e6,1e6
        for _ in range(200):
            mid=(lo+hi)/2
            if mid**3+3*mid-W>0: hi=mid
            else: lo=mid
        s=(lo+hi)/2; v=2*math.atan(s); r=q*(1+s*s)
    u=w+v
    x=r*(math.cos(Om)*math.cos(u)-math.sin(Om)*math.sin(u)*math.cos(i))
    y=r*(math.sin(Om)*math.cos(u)+math.cos(Om)*math.sin(u)*math.cos(i))
    z=r*math.sin(i)*math.sin(u)
    se,ce=0.397777156,0.917482062
    return (x, y*ce-z*se, y*se+z*ce)
def sepv(u,v):
    cx=(u[1]*v[2]-u[2]*v[1], u[2]*v[0]-u[0]*v[2], u[0]*v[1]-u[1]*v[0])
    return math.degrees(math.atan2(math.sqrt(sum(c*c for c in cx)), sum(a*b for a,b in zip(u,v))))
worst=defaultdict(float); ex={}; bad=Counter()
T=Epoch(1998,4,14.4358)
for q in (0.1,0.5871018,1.0,3.363943,30.0):
    for e in (0.0,0.1,0.5,0.8502196,0.9672746,0.9799999,0.98,0.9800001,0.99,0.999,1.0):
        for (i,Om,w) in ((0,0,0),(11.94524,334.75006,186.23352),(90,120,270),(162,58,112)):
            try: mb=Minor(q,e,Angle(i),Angle(Om),Angle(w),T)
            except Exception as x: bad['ctor:'+type(x).__name__]+=1; continue
            for dt in (0.0,1e-11,-1e-11,0.5,-0.5,20.0,-20.0,300.0,-300.0,5000.0,-5000.0,18262.0,-18262.0):
                ep=T+dt
                try: ra,dec,el=mb.geocentric_position(ep)
                except Exception as x:
                    bad['exc:'+type(x).__name__]+=1; ex.setdefault('exc:'+type(x).__name__,(q,e,i,dt,repr(x))); continue
                xs,ys,zs=Sun.rectangular_coordinates_j2000(ep)
                tau=0.0
                for _ in range(4):
                    H=helio(q,e,math.radians(i),math.radians(Om),math.radians(w),dt-tau)
                    G=(H[0]+xs,H[1]+ys,H[2]+zs); tau=0.0057755183*math.sqrt(sum(c*c for c in G))
                got=(math.cos(dec.rad())*math.cos(ra.rad()),math.cos(dec.rad())*math.sin(ra.rad()),math.sin(dec.rad()))
                s=sepv(got,G)
                key='e=%g'%e
                if s>worst[key]: worst[key]=s; ex[key]=(q,i,dt)
for k in sorted(worst): print(k,'%.3g'%worst[k],ex[k])
print(bad); print({k:v for k,v in ex.items() if k.startswith('exc')})
# Pluto
w=0
for j in range(int(Epoch(1885,1,5).jde()),int(Epoch(2098,12,25).jde()),30):
    ep=Epoch(float(j)); ra,dec=Pluto.geocentric_position(ep)
    xs,ys,zs=Sun.rectangular_coordinates_j2000(ep); tau=0.0
    for _ in range(3):
        l,b,r=Pluto.geometric_heliocentric_position(ep-tau); l=l.rad(); b=b.rad()
        x=r*math.cos(l)*math.cos(b); y=r*(math.sin(l)*math.cos(b)*0.917482062-math.sin(b)*0.397777156); z=r*(math.sin(l)*math.cos(b)*0.397777156+math.sin(b)*0.917482062)
        G=(x+xs,y+ys,z+zs); tau=0.0057755183*math.sqrt(sum(c*c for c in G))
    got=(math.cos(dec.rad())*math.cos(ra.rad()),math.cos(dec.rad())*math.sin(ra.rad()),math.sin(dec.rad()))
    w=max(w,sepv(got,G))
print('pluto max',w)
