import warnings
warnings.filterwarnings("ignore")
from pymeeus.Epoch import Epoch
IERS=[(1972,7),(1973,1),(1974,1),(1975,1),(1976,1),(1977,1),(1978,1),(1979,1),(1980,1),(1981,7),(1982,7),(1983,7),(1985,7),(1988,1),(1990,1),(1991,1),(1992,7),(1993,7),(1994,7),(1996,1),(1997,7),(1999,1),(2006,1),(2009,1),(2012,7),(2015,7),(2017,1)]
def ref(y,m): return sum(1 for (yy,mm) in IERS if (yy,mm)<=(y,m))
bad=[]
for y in range(1950,2101):
    for m in range(1,13):
        g=Epoch.leap_seconds(y,m)
        if g!=ref(y,m): bad.append((y,m,g,ref(y,m)))
print("table mismatches",len(bad),bad[:40])
bad=[]
import calendar
for y in range(1950,2101):
    for m in range(1,13):
        last=calendar.monthrange(y,m)[1]
        for d in (1,15,last):
            for (h,mi,s) in ((0,0,0),(12,0,0),(23,59,59)):
                a=Epoch(y,m,d,h,mi,s,utc=True).jde(); b=Epoch(y,m,d,h,mi,s).jde()
                got=(a-b)*86400
                exp=(32.184+10+ref(y,m)) if y>=1972 else 0.0
                if abs(got-exp)>1e-3: bad.append((y,m,d,h,round(got,3),exp))
print("utc offset mismatches",len(bad)); print(bad[:12]); 
from collections import Counter
print(Counter((b[0],b[1]) for b in bad).most_common(200)[:80])
