import warnings, math, importlib
warnings.filterwarnings("ignore")
from pymeeus.Epoch import Epoch, JDE2000
from pymeeus.Angle import Angle
from pymeeus.Coordinates import *
from pymeeus.Moon import Moon
from pymeeus.Sun import Sun
names="Mercury Venus Earth Mars Jupiter Saturn Uranus Neptune".split()
for nm in names:
    M=importlib.import_module("pymeeus."+nm); P=getattr(M,nm)
    L1=[t for t in M.VSOP87_L[1] if t[1]==0.0 and t[2]==0.0]
    rate_series=math.degrees(L1[0][0]/1e8)/10.0   # deg per century
    rate_elem=M.ORBITAL_ELEM[0][1]
    a=M.ORBITAL_ELEM[1][0]
    n=rate_elem/36525.0  # deg/day (tropical, of date)
    # sidereal: subtract precession 1.396971 deg/century
    n_sid=(rate_elem-1.3969713)/36525.0
    k=0.9856076686/(a*math.sqrt(a))
    print(nm,'rate rel diff %.2e'%(abs(rate_series-rate_elem)/rate_elem),'kepler3 trop %.2e sid %.2e'%(n/k-1,n_sid/k-1))
    # direct summation vs vsop_pos at a few epochs
    w=0
    for y in (-2000,-500,1000,1992.9,2000,3000,4000):
        e=Epoch(2451545.0+(y-2000)*365.25)
        t=(e.jde()-2451545.0)/365250.0
        def direct(tab):
            return math.fsum(math.fsum(A*math.cos(B+C*t) for A,B,C in ser)*t**i for i,ser in enumerate(tab))/1e8
        l,b,r=vsop_pos(e,M.VSOP87_L,M.VSOP87_B,M.VSOP87_R)
        dl=direct(M.VSOP87_L); 
        w=max(w,abs(((l.rad()-dl)+math.pi)%(2*math.pi)-math.pi),abs(b.rad()-direct(M.VSOP87_B)),abs(r-direct(M.VSOP87_R)))
        # fk5
        l1,b1,r1=P.geometric_heliocentric_position(e,tofk5=True); l0,b0,r0=P.geometric_heliocentric_position(e,tofk5=False)
        T=(e.jde()-2451545.0)/36525.0
        lp=l0()-T*(1.397+0.00031*T)
        exp=(-0.09033+0.03916*(math.cos(math.radians(lp))+math.sin(math.radians(lp)))*math.tan(b0.rad()))
        got=((l1()-l0()+180)%360-180)*3600
        expb=0.03916*(math.cos(math.radians(lp))-math.sin(math.radians(lp)))
        gotb=(b1()-b0())*3600
        w2=max(abs(got-exp),abs(gotb-expb))
        if nm!='Earth':
            la,ba,ra=P.apparent_heliocentric_position(e)
        else:
            la,ba,ra=P.apparent_heliocentric_position(e,nutation=False)
        ab=((la()-l1()+180)%360-180)*3600
        nut=nutation_longitude(e)()*3600 if nm!='Earth' else 0.0
        w3=abs(ab-(-20.4898/r1)-nut)
    print('   direct-sum maxdiff %.2e  fk5 err" %.2e  aberr err" %.2e'%(w,w2,w3))
# obliquity vs IAU cubic, nutation main term, coarse sun
wo=0;wn=0;we=0;wc=0
for y in range(-2000,4001,7):
    for off in (0.0,80.0,170.0,260.0):
        e=Epoch(2451545.0+(y-2000)*365.25+off); T=(e.jde()-2451545.0)/36525.0
        if abs(T)<=20:
            iau=23+26/60+21.448/3600+(-46.8150*T-0.00059*T*T+0.001813*T**3)/3600
            wo=max(wo,abs(mean_obliquity(e)()-iau)*3600)
        om=Moon.longitude_mean_ascending_node(e).rad()
        wn=max(wn,abs(nutation_longitude(e)()*3600-(-17.20*math.sin(om))))
        we=max(we,abs(nutation_obliquity(e)()*3600-(9.20*math.cos(om))))
print('obliq vs IAU" %.3f  dpsi-main" %.3f deps-main" %.3f'%(wo,wn,we))
for y in range(1800,2201,1):
    for off in (0.0,73.0,146.0,219.0,292.0):
        e=Epoch(2451545.0+(y-2000)*365.25+off)
        tl,r=Sun.true_longitude_coarse(e); gl,gb,gr=Sun.geometric_geocentric_position(e,tofk5=False)
        al,r2=Sun.apparent_longitude_coarse(e); pl,pb,pr=Sun.apparent_geocentric_position(e)
        wc=max(wc,abs((tl()-gl()+180)%360-180),abs((al()-pl()+180)%360-180))
print('coarse sun max diff deg %.4f'%wc)
