import warnings, math, datetime
warnings.filterwarnings("ignore")
from pymeeus.Epoch import Epoch
from fractions import Fraction as F
def ulps(x,k):
    for _ in range(abs(k)):
        x = math.nextafter(x, math.inf if k>0 else -math.inf)
    return x
bad=[]
import itertools
# boundaries: day boundary (x.5), month/year boundaries, reform
bases=[0.0, 0.5, 1.5, 2299159.5, 2299160.5, 2299161.5, 2451544.5, 2451545.0, 2451910.5, 1721057.5, 1721423.5, 2305812.5, 5.4e6, 5399999.5, 2400000.5, 1000000.5, 2415020.5,2436116.31]
offs=[0]+[s*k for k in (1,2,3) for s in (1,-1)]
secs=[0,1e-3,0.5,1,59,60,61,3599,3600,86399,86399.5,86399.999]
n=0
prev=None
for b in bases:
    for ds in secs:
        for sg in (1,-1):
            x=b+sg*ds/86400.0
            for k in (-2,-1,0,1,2):
                j=ulps(x,k)
                if j<0 or j>5.4e6: continue
                e=Epoch(j)
                n+=1
                try:
                    y,m,d,h,mi,s=e.get_full_date()
                except Exception as ex:
                    bad.append((j,'EXC',repr(ex))); continue
                if not (0<=h<=23 and 0<=mi<=59 and 0<=s<60 and 1<=d<=31):
                    bad.append((j,'RANGE',(y,m,d,h,mi,s)))
                # reconstruct
                try:
                    j2=Epoch(y,m,d,h,mi,s).jde()
                    if abs(j2-j)>1e-8: bad.append((j,'RT',j2,(y,m,d,h,mi,s)))
                except Exception as ex:
                    bad.append((j,'EXC2',repr(ex),(y,m,d,h,mi,s)))
                if abs(e.jde()-j)>1e-8: bad.append((j,'CTOR',e.jde()))
print(n,len(bad)); print(bad[:30])
# input forms
bad=[]
forms=0
for (y,m,d,h,mi,s) in [(1987,6,19,12,0,0),(2000,1,1,0,0,0),(1582,10,4,23,59,59.5),(1582,10,15,0,0,0),(-4712,1,1,12,0,0),(333,1,27,12,0,0),(1600,12,31,23,59,59.999),(2024,2,29,6,30,15.25),(1,1,1,0,0,0),(9999,12,31,23,59,59)]:
    ref=Epoch(y,m,d,h,mi,s).jde()
    alts={}
    alts['tuple']=Epoch((y,m,d,h,mi,s)).jde()
    alts['list']=Epoch([y,m,d,h,mi,s]).jde()
    alts['frac']=Epoch(y,m,d+h/24+mi/1440+s/86400).jde()
    alts['short']=Epoch(y,Epoch.get_month(m,True)[:3],d,h,mi,s).jde()
    alts['long']=Epoch(y,Epoch.get_month(m,True).upper(),d,h,mi,s).jde()
    alts['copy']=Epoch(Epoch(y,m,d,h,mi,s)).jde()
    e=Epoch(); e.set(y,m,d,h,mi,s); alts['set']=e.jde()
    if 1<=y<=9999:
        us=int(round((s%1)*1e6))
        alts['datetime']=Epoch(datetime.datetime(y,m,d,h,mi,int(s),us)).jde()
        alts['date']=Epoch(datetime.date(y,m,d)).jde()+ (h/24+mi/1440+s/86400)
    for k,v in alts.items():
        forms+=1
        if abs(v-ref)>1e-9: bad.append((y,m,d,h,mi,s,k,v,ref))
print(forms,len(bad)); print(bad[:10])
# arithmetic
bad=[]
for j in [0.0,2299160.5,2451545.0,5.4e6-1e6, 1234567.891]:
    e=Epoch(j)
    for x in [0,1,-1,0.5,1e-3,1e6,-1e6 if j>1e6 else -j, 365.25, 1e-9, 86399/86400]:
        if j+x<0 or j-x<0: continue
        a=(e+x)-e; b=e-(e-x)
        if abs(a-x)>1e-8 or abs(b-x)>1e-8: bad.append((j,x,a,b))
        r=(x+e).jde(); 
        if abs(r-(e+x).jde())>0: bad.append((j,x,'radd'))
        f=Epoch(e); f+=x
        if abs(f.jde()-(e+x).jde())>0 or e.jde()!=Epoch(j).jde(): bad.append((j,x,'iadd'))
print(len(bad),bad[:10])
