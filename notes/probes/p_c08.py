import warnings, math, itertools
warnings.filterwarnings("ignore")
from pymeeus.Angle import Angle
from pymeeus.Epoch import Epoch, JDE2000
from pymeeus.Coordinates import *
from pymeeus.Sun import Sun
from pymeeus.Earth import Earth
from pymeeus.Moon import Moon
from collections import defaultdict
worst=defaultdict(float); ex={}
def y2jde(y): return 2451545.0+(y-2000.0)*365.25
def vec(lon,lat,r=1.0):
    lo=math.radians(lon); la=math.radians(lat)
    return (r*math.cos(la)*math.cos(lo), r*math.cos(la)*math.sin(lo), r*math.sin(la))
def dist(u,v): return math.sqrt(sum((a-b)**2 for a,b in zip(u,v)))
def upd(k,v,y):
    if v>worst[k]: worst[k]=v; ex[k]=y
B1950=Epoch(2433282.4235)
for y in [1000+ i*12.37 for i in range(0,162)]:
    e=Epoch(y2jde(y))
    # of-date mean equinox rectangular
    x,yy,z=Sun.rectangular_coordinates_mean_equinox(e)
    lon,lat,r=Sun.geometric_geocentric_position(e)
    upd('norm_me',abs(math.sqrt(x*x+yy*yy+z*z)-r),y)
    ra=math.degrees(math.atan2(yy,x))%360; dec=math.degrees(math.asin(z/r))
    for nm,target,f in (('j2000',JDE2000,lambda: Sun.rectangular_coordinates_j2000(e)),('b1950',B1950,lambda: Sun.rectangular_coordinates_b1950(e)),('eqx2100',Epoch(y2jde(2100)),lambda: Sun.rectangular_coordinates_equinox(e,Epoch(y2jde(2100)))),('eqx_self',e,lambda: Sun.rectangular_coordinates_equinox(e,e))):
        X=f()
        a1,d1=precession_equatorial(e,target,Angle(ra),Angle(dec))
        V=vec(a1(),d1(),r)
        upd('frame_'+nm,dist(X,V),y)
        upd('norm_'+nm,abs(math.sqrt(sum(c*c for c in X))-r),y)
for k in sorted(worst): print(k,'%.3g'%worst[k],ex[k])
