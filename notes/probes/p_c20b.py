import warnings, math, importlib, inspect, hashlib, pickle, doctest, io, contextlib, sys
warnings.filterwarnings("ignore")
mods = "base Angle Epoch Interpolation CurveFitting Coordinates Earth Sun Moon Minor Pluto JupiterMoons Mercury Venus Mars Jupiter Saturn Uranus Neptune".split()
M={m:importlib.import_module("pymeeus."+m) for m in mods}
def digest_obj(o,depth=0):
    if isinstance(o,(int,float,str,bool,type(None),complex)): return repr(o)
    if isinstance(o,(list,tuple)): return '['+','.join(digest_obj(x,depth+1) for x in o)+']'
    if isinstance(o,dict): return '{'+','.join(digest_obj(k)+':'+digest_obj(v,depth+1) for k,v in sorted(o.items(),key=lambda kv:repr(kv[0])))+'}'
    if hasattr(o,'__dict__') and not inspect.isclass(o) and not inspect.ismodule(o) and not inspect.isfunction(o):
        return type(o).__name__+digest_obj(vars(o),depth+1)
    return '<'+type(o).__name__+'>'
def state():
    h={}
    for name,mod in M.items():
        for k,v in vars(mod).items():
            if k.startswith('__') or inspect.ismodule(v) or inspect.isclass(v) or inspect.isfunction(v) or inspect.isbuiltin(v): continue
            h[name+'.'+k]=hashlib.md5(digest_obj(v).encode()).hexdigest()
        for k,v in vars(mod).items():
            if inspect.isfunction(v) and v.__defaults__: h[name+'.'+k+'.__defaults__']=hashlib.md5(digest_obj(v.__defaults__).encode()).hexdigest()
            if inspect.isclass(v) and v.__module__==mod.__name__:
                for kk,vv in vars(v).items():
                    f=vv.__func__ if isinstance(vv,(staticmethod,classmethod)) else vv
                    if inspect.isfunction(f) and f.__defaults__: h[name+'.'+k+'.'+kk+'.__defaults__']=hashlib.md5(digest_obj(f.__defaults__).encode()).hexdigest()
    return h
s0=state(); print('tracked objects',len(s0))
# run all doctests of every module as a cheap "call everything once" driver
for name,mod in M.items():
    with contextlib.redirect_stdout(io.StringIO()):
        doctest.testmod(mod,verbose=False)
    s1=state()
    ch=[k for k in s0 if s0[k]!=s1.get(k)]
    if ch: print(name,'CHANGED',ch[:10]); s0=s1
print('done')
