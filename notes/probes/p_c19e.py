import warnings
warnings.filterwarnings("ignore")
from pymeeus.Epoch import Epoch
from collections import Counter
EPOCH=1948439.5
def ileap(h): return (11*h+14)%30<11
def mlen(h,m): return 30 if (m%2==1 or (m==12 and ileap(h))) else 29
jd=EPOCH; end=Epoch(3000,12,31).jde()
h,m,d=1,1,1; exs=[]
while jd<=end:
    y,mo,da=Epoch(jd).get_date(); da=int(da)
    got=Epoch.gregorian2moslem(y,mo,da)
    if tuple(got)!=(h,m,d): exs.append(((y,mo,da),tuple(got),(h,m,d)))
    jd+=1; d+=1
    if d>mlen(h,m):
        d=1; m+=1
        if m>12: m=1; h+=1
print(len(exs))
for e in exs[:40]: print(e)
print(Counter((e[2][1],e[2][2]) for e in exs).most_common(10))
print(Counter((e[0][1],e[0][2]) for e in exs).most_common(10))
