import warnings, math, re
warnings.filterwarnings("ignore")
from pymeeus.Angle import Angle
from fractions import Fraction as F
from collections import Counter
bad=Counter(); ex={}
def nb(x,k=2):
    out=[x]; a=b=x
    for _ in range(k):
        a=math.nextafter(a,math.inf); b=math.nextafter(b,-math.inf); out+=[a,b]
    return out
vals=set()
for d in (0,1,12,59,89,90,179,180,359):
    for m in (0,1,29,59):
        for s in (0,1,30,59):
            base=d+m/60+s/3600
            for eps in (0,1e-12,-1e-12,1e-9/3600,-1e-9/3600, 0.4999e-3/3600, -0.4999e-3/3600, 0.5/3600,-0.5/3600,0.9999999/3600):
                for sg in (1,-1):
                    v=sg*(base+eps)
                    if -360<v<360: vals.update(nb(v,1))
vals=sorted(vals)
print(len(vals))
def parse(sx, fancy, ra):
    # returns (sign, d, m, s) fields parsed from the string, or raise
    if fancy:
        unit='h' if ra else 'd'
        mt=re.fullmatch(r"(?:(-?\d+)%s )?(?:(-?\d+)' )?(-?[\d.e+-]+)''"%unit, sx)
        if not mt: raise ValueError(sx)
        d,m,s=mt.groups()
    else:
        d,m,s=sx.split(':')
    return d,m,s
for v in vals:
    a=Angle(v)
    for ra in (False,True):
        tup = a.ra_tuple() if ra else a.dms_tuple()
        d,m,s,sg=tup
        full=360 if not ra else 24
        val = v/15.0 if ra else v
        if not (isinstance(d,int) and isinstance(m,int) and 0<=d<full and 0<=m<60 and 0<=s<60 and sg in (1.0,-1.0)):
            bad['tuple_range']+=1; ex.setdefault('tuple_range',(v,ra,tup))
        rec=sg*(d+m/60+s/3600)
        if abs(rec-val)>1e-9/(15 if ra else 1): bad['tuple_rt']+=1; ex.setdefault('tuple_rt',(v,ra,tup,rec))
        for fancy in (True,False):
            for nd in range(-1,13):
                sx = a.ra_str(fancy,nd) if ra else a.dms_str(fancy,nd)
                try: ds,ms,ss=parse(sx,fancy,ra)
                except Exception as x:
                    bad['parse']+=1; ex.setdefault('parse',(v,ra,fancy,nd,sx)); continue
                # no 60
                if (ms is not None and abs(int(ms))==60) or abs(float(ss))>=60: bad['sixty']+=1; ex.setdefault('sixty',(v,ra,fancy,nd,sx))
                # sign once on leading nonzero
                nneg=sx.count('-') - sx.count('e-')
                dv=int(ds) if ds is not None else 0; mv=int(ms) if ms is not None else 0; sv=float(ss)
                value=abs(dv)+abs(mv)/60+abs(sv)/3600
                neg=nneg>0
                if nneg>1: bad['sign_multi']+=1; ex.setdefault('sign_multi',(v,ra,fancy,nd,sx))
                rb=-value if neg else value
                # expected: value rounded at requested decimal, modulo full
                tot=F(val)*3600
                if nd>=0:
                    q=F(1,10**nd)
                    # python round of seconds field only; emulate tolerance: half unit
                    tolr=q/2+F(1,10**9)
                else: tolr=F(1,10**6)
                diff=(F(rb)*3600-tot)%(full*3600)
                diff=min(diff,full*3600-diff)
                if diff>tolr: bad['readback']+=1; ex.setdefault('readback',(v,ra,fancy,nd,sx,float(diff)))
print(bad)
for k,v in ex.items(): print(k,v)
