---- MODULE Cal ----
EXTENDS Integers
CONSTANTS Y0, Y1
VARIABLES y, m, d, jdn, dow, doy
Div(a,b) == a \div b
IsJulian(yy,mm,dd) == yy < 1582 \/ (yy = 1582 /\ (mm < 10 \/ (mm = 10 /\ dd < 5)))
Leap(yy) == IF yy < 1582 THEN yy % 4 = 0
            ELSE (yy % 4 = 0 /\ yy % 100 # 0) \/ yy % 400 = 0
MLen(yy,mm) == IF mm = 2 THEN (IF Leap(yy) THEN 29 ELSE 28)
               ELSE IF mm \in {4,6,9,11} THEN 30 ELSE 31
Init == /\ y = Y0 /\ m = 1 /\ d = 1 /\ jdn = 0 /\ dow = 0 /\ doy = 1
Next == /\ ~(y = Y1 /\ m = 12 /\ d = 31)
        /\ jdn' = jdn + 1
        /\ dow' = (dow + 1) % 7
        /\ IF y = 1582 /\ m = 10 /\ d = 4
             THEN y' = y /\ m' = m /\ d' = 15 /\ doy' = doy + 1
           ELSE IF d < MLen(y,m)
             THEN y' = y /\ m' = m /\ d' = d + 1 /\ doy' = doy + 1
           ELSE IF m < 12
             THEN y' = y /\ m' = m + 1 /\ d' = 1 /\ doy' = doy + 1
           ELSE y' = y + 1 /\ m' = 1 /\ d' = 1 /\ doy' = 1
Spec == Init /\ [][Next]_<<y,m,d,jdn,dow,doy>>
TypeOK == m \in 1..12 /\ d \in 1..31 /\ dow \in 0..6 /\ doy \in 1..366
====
