import warnings, math, importlib, time
warnings.filterwarnings("ignore")
from multiprocessing import Pool
from pymeeus.Epoch import Epoch
from pymeeus.Earth import Earth
from pymeeus.Sun import Sun
syn={'Mercury':115.8774771,'Venus':583.921361,'Mars':779.936104,'Jupiter':398.884046,'Saturn':378.091904,'Uranus':369.656035,'Neptune':367.486703}
orb={'Mercury':87.969,'Venus':224.701,'Earth':365.2596,'Mars':686.98,'Jupiter':4332.59,'Saturn':10759.2,'Uranus':30688.5}
F={'Mercury':['inferior_conjunction','superior_conjunction','western_elongation','eastern_elongation','station_longitude_1','station_longitude_2'],
'Venus':['inferior_conjunction','superior_conjunction','western_elongation','eastern_elongation','station_longitude_1','station_longitude_2'],
'Mars':['conjunction','opposition','station_longitude_1','station_longitude_2'],'Jupiter':['conjunction','opposition','station_longitude_1','station_longitude_2'],
'Saturn':['conjunction','opposition','station_longitude_1','station_longitude_2'],'Uranus':['conjunction','opposition'],'Neptune':['conjunction','opposition']}
def geo(P,t):
    e=Epoch(t)
    l0,b0,r0=Earth.geometric_heliocentric_position(e,tofk5=False)
    E0=(r0*math.cos(b0.rad())*math.cos(l0.rad()),r0*math.cos(b0.rad())*math.sin(l0.rad()),r0*math.sin(b0.rad()))
    tau=0.0
    for _ in range(2):
        l,b,r=P.geometric_heliocentric_position(e-tau,tofk5=False)
        d=(r*math.cos(b.rad())*math.cos(l.rad())-E0[0], r*math.cos(b.rad())*math.sin(l.rad())-E0[1], r*math.sin(b.rad())-E0[2])
        tau=0.0057755183*math.sqrt(sum(c*c for c in d))
    lam=math.degrees(math.atan2(d[1],d[0]))%360; bet=math.degrees(math.atan2(d[2],math.hypot(d[0],d[1])))
    sl=(l0()+180.0)%360
    return lam,bet,sl
def wrap(x): return (x+180)%360-180
def bisect(f,a,b,n=40):
    fa=f(a); fb=f(b)
    if fa*fb>0: return None
    for _ in range(n):
        m=(a+b)/2; fm=f(m)
        if fa*fm<=0: b=m; fb=fm
        else: a=m; fa=fm
    return (a+b)/2
def job(a):
    nm,fn,kw,per=a
    P=getattr(importlib.import_module('pymeeus.'+nm),nm); f=getattr(P,fn)
    J0=Epoch(-1999,1,2).jde(); J1=Epoch(3998,12,30).jde()
    nev=int((J1-J0)/per); stride=max(1,nev//50)
    worst=0; worst2=0; nob=0; wq=None; n=0
    for i in range(0,nev,stride):
        q=J0+i*per+0.37*per
        try: r=f(Epoch(q),**kw)
        except Exception as x: continue
        re=(r[0] if isinstance(r,tuple) else r).jde(); n+=1
        W=6.0 if nm in('Jupiter','Saturn','Uranus','Neptune') else 3.0
        h=1e-3 if nm in ('Mercury','Venus','Mars') else 1e-2
        if 'conjunction' in fn or fn=='opposition':
            tgt=180.0 if fn=='opposition' else 0.0
            g=lambda t:(lambda x:wrap(x[0]-x[2]-tgt))(geo(P,t))
        elif 'elongation' in fn:
            def el(t):
                lam,bet,sl=geo(P,t); return math.degrees(math.acos(math.cos(math.radians(bet))*math.cos(math.radians(lam-sl))))
            g=lambda t:(el(t+h)-el(t-h))/(2*h)
        elif 'station' in fn:
            g=lambda t: wrap(geo(P,t+h)[0]-geo(P,t-h)[0])/(2*h)
        elif fn=='perihelion_aphelion':
            W=0.02*per if per>2000 else 3.0
            R=lambda t:P.geometric_heliocentric_position(Epoch(t))[2]
            g=lambda t:(R(t+h)-R(t-h))/(2*h)
        elif fn=='passage_nodes':
            W=0.01*per if per>2000 else 3.0
            g=lambda t:P.geometric_heliocentric_position(Epoch(t))[1]()
        x=bisect(g,re-W,re+W)
        if x is None: nob+=1; 
        else:
            if abs(x-re)>worst: worst=abs(x-re); wq=q
            if 'elongation' in fn:
                worst2=max(worst2,abs(el(x)-r[1]()))
    return nm,fn,str(kw),n,nob,worst,worst2,wq
if __name__=='__main__':
    jobs=[]
    for nm,fl in F.items():
        for fn in fl: jobs.append((nm,fn,{},syn[nm]))
    for nm,per in orb.items():
        for pe in (True,False): jobs.append((nm,'perihelion_aphelion',{'perihelion':pe},per))
        for asc in (True,False): jobs.append((nm,'passage_nodes',{'ascending':asc},per))
    t0=time.time()
    with Pool(6) as p:
        for r in p.imap_unordered(job,jobs): print(*r,flush=True)
    print('wall',time.time()-t0)
