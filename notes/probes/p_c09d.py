import warnings, math
warnings.filterwarnings("ignore")
from pymeeus.Epoch import Epoch
from pymeeus.Neptune import Neptune
from pymeeus.Sun import Sun
from pymeeus.Coordinates import true_obliquity, ecliptical2equatorial
def vec(a,d): return (math.cos(d)*math.cos(a),math.cos(d)*math.sin(a),math.sin(d))
def sepv(u,v):
    cx=(u[1]*v[2]-u[2]*v[1], u[2]*v[0]-u[0]*v[2], u[0]*v[1]-u[1]*v[0])
    return math.degrees(math.atan2(math.sqrt(sum(c*c for c in cx)), sum(a*b for a,b in zip(u,v))))
w=0
for y in range(-2000,4001,100):
    for off in (0.0,91.3,200.7):
        e=Epoch(2451545.0+(y-2000)*365.25+off)
        ra,dec,elon=Neptune.geocentric_position(e)
        sl,sb,sr=Sun.apparent_geocentric_position(e); sra,sdec=ecliptical2equatorial(sl,sb,true_obliquity(e))
        w=max(w,abs(elon()-sepv(vec(ra.rad(),dec.rad()),vec(sra.rad(),sdec.rad()))))
print('neptune elon max dev',w)
