import warnings, math, itertools
warnings.filterwarnings("ignore")
from pymeeus.CurveFitting import CurveFitting
from fractions import Fraction as F
from collections import Counter
bad=Counter(); ex={}
def solve(A,b):
    n=len(A); M=[[F(x) for x in row]+[F(bb)] for row,bb in zip(A,b)]
    for i in range(n):
        p=next((r for r in range(i,n) if M[r][i]!=0),None)
        if p is None: return None
        M[i],M[p]=M[p],M[i]
        for r in range(n):
            if r!=i and M[r][i]!=0:
                fct=M[r][i]/M[i][i]; M[r]=[a-fct*c for a,c in zip(M[r],M[i])]
    return [M[i][n]/M[i][i] for i in range(n)]
def lsq(xs,ys,basis):
    B=[[F(f(x)) for f in basis] for x in xs]
    A=[[sum(B[k][i]*B[k][j] for k in range(len(xs))) for j in range(len(basis))] for i in range(len(basis))]
    b=[sum(B[k][i]*F(ys[k]) for k in range(len(xs))) for i in range(len(basis))]
    return solve(A,b)
datasets=[([0,1,2,3],[1,3,5,7]),([0,1,2,3,4],[1,0,1,4,9]),([-2,-1,0,1,2,3],[4.5,1.25,0.0,0.75,3.5,8.25]),([1,2,3,4,5,6,7],[2.1,3.9,6.2,7.8,10.1,12.2,13.8]),([-1000,-500,0,500,1000],[3,1,0,1,3.5]),([0.1,0.2,0.3,0.4],[1,2,1,2]),([10,10.5,11,11.5,12],[5,4,3.5,4.2,5.1])]
for xs,ys in datasets:
    cf=CurveFitting(xs,ys)
    for name,basis,call in (('lin',[lambda x:x,lambda x:1],lambda c:c.linear_fitting()),('quad',[lambda x:x*x,lambda x:x,lambda x:1],lambda c:c.quadratic_fitting()),
                            ('gen3',[lambda x:x*x,lambda x:x,lambda x:1],lambda c:c.general_fitting(lambda x:x*x,lambda x:x,lambda x:1.0)),
                            ('gen2',[lambda x:x,lambda x:1],lambda c:c.general_fitting(lambda x:x,lambda x:1.0)),
                            ('gen1',[lambda x:x],lambda c:c.general_fitting(lambda x:x))):
        ref=lsq(xs,ys,basis)
        try: got=call(cf)
        except Exception as x:
            bad[name+'_exc']+=1; ex.setdefault(name+'_exc',(xs,ys,repr(x))); continue
        if ref is None: bad[name+'_nodeg']+=1; continue
        for g,r in zip(got,ref):
            if abs(g-float(r))>1e-6*max(1,abs(float(r))): bad[name+'_coef']+=1; ex.setdefault(name+'_coef',(xs,ys,got,[float(r) for r in ref])); break
    r=cf.correlation_coeff()
    if not -1-1e-12<=r<=1+1e-12: bad['corr_range']+=1
print(bad); 
for k,v in ex.items(): print(k,v)
# degenerate
for xs,ys in (([1,1,1],[1,2,3]),([0.1,0.1,0.1],[1,2,3]),([1,2,3],[5,5,5]),([0.1,0.2,0.3],[0.7,0.7,0.7]),([1/3,1/3,1/3,1/3],[1,2,3,4])):
    cf=CurveFitting(xs,ys)
    for nm,f in (('corr',cf.correlation_coeff),('lin',cf.linear_fitting),('quad',cf.quadratic_fitting)):
        try: print(xs,ys,nm,f())
        except Exception as x: print(xs,ys,nm,repr(x))
