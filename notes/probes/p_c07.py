import warnings, math, itertools, importlib
warnings.filterwarnings("ignore")
from pymeeus.Angle import Angle
from pymeeus.Epoch import Epoch, JDE2000
from pymeeus.Coordinates import *
from collections import defaultdict
names="Mercury Venus Earth Mars Jupiter Saturn Uranus Neptune".split()
worst=defaultdict(float); ex={}
def y2jde(y): return 2451545.0+(y-2000.0)*365.25
for nm in names:
    M=importlib.import_module("pymeeus."+nm); P=getattr(M,nm)
    for y in range(-2000,4001,40):
        e=Epoch(y2jde(y)+17.3)
        L,B,R=P.geometric_heliocentric_position(e,tofk5=False)
        l,a,ecc,i,om,arg=P.orbital_elements_mean_equinox(e)
        if not (0<=L()<360): ex.setdefault((nm,'lonrange'),(y,L()))
        worst[(nm,'lat-inc')]=max(worst[(nm,'lat-inc')],abs(B())-i())
        q=a*(1-ecc); Q=a*(1+ecc)
        worst[(nm,'r<q')]=max(worst[(nm,'r<q')],(q-R)/q); worst[(nm,'r>Q')]=max(worst[(nm,'r>Q')],(R-Q)/Q)
        # kepler position
        Mn=l-arg-om  # mean anomaly = L - pi ; pi = arg+om
        E,v=kepler_equation(ecc,Mn)
        r_k=a*(1-ecc*math.cos(E.rad()))
        u=(v+arg).rad(); ir=i.rad(); omr=om.rad()
        x=r_k*(math.cos(omr)*math.cos(u)-math.sin(omr)*math.sin(u)*math.cos(ir))
        yy=r_k*(math.sin(omr)*math.cos(u)+math.cos(omr)*math.sin(u)*math.cos(ir))
        lonk=math.degrees(math.atan2(yy,x))%360
        dl=abs((L()-lonk+180)%360-180)
        k=(nm,'kepler_dlon'); 
        if dl>worst[k]: worst[k]=dl; ex[k]=y
        worst[(nm,'kepler_dr')]=max(worst[(nm,'kepler_dr')],abs(R-r_k)/r_k)
        # daily rate
        L2,_,_=P.geometric_heliocentric_position(e+1.0,tofk5=False)
        rate=((L2()-L()+180)%360)-180
        n=0.9856076686/(a*math.sqrt(a))
        rmin=n*math.sqrt(1-ecc*ecc)/(1+ecc)**2; rmax=n*math.sqrt(1-ecc*ecc)/(1-ecc)**2
        worst[(nm,'rate_lo')]=max(worst[(nm,'rate_lo')],(rmin-rate)/rmin); worst[(nm,'rate_hi')]=max(worst[(nm,'rate_hi')],(rate-rmax)/rmax)
for k in sorted(worst): print(k,'%.4g'%worst[k], ex.get(k,''))
print({k:v for k,v in ex.items() if 'range' in k[1]})
