import warnings, math
warnings.filterwarnings("ignore")
from pymeeus.Angle import Angle
from pymeeus.Epoch import Epoch, JDE2000
from pymeeus.Interpolation import Interpolation
from pymeeus.CurveFitting import CurveFitting
import pymeeus.Epoch as EM
l=[math.pi]; 
a=Angle(l, radians=True); print('list after',l, a())
try: Angle((math.pi,), radians=True)
except Exception as x: print('tuple radians',repr(x))
# JDE2000 shared constant mutation via set
j=JDE2000.jde(); e=Epoch(JDE2000); e.set(1990,1,1); print('JDE2000 intact', JDE2000.jde()==j)
# check_input_date returns the same object for Epoch input
t=Epoch(2000,1,1); r=Epoch.check_input_date(t); print('check_input_date aliases', r is t)
# Interpolation copy shares lists
i=Interpolation([1,2,3],[4,5,7]); k=Interpolation(i); print('interp share', k._x is i._x, k._table is i._table)
k.set([0,1],[0,1]); print(i._x, i(1.5))
c=CurveFitting([1,2,3],[4,5,7]); d=CurveFitting(c); print('cf share', d._x is c._x)
# Earth default ellipsoid shared
from pymeeus.Earth import Earth, WGS84
e1=Earth(); print('earth shares WGS84', e1._ellip is WGS84)
# types: Sun.geometric_geocentric_position(epoch, tofk5='x')
from pymeeus.Sun import Sun
try: print(Sun.geometric_geocentric_position(Epoch(2000,1,1), tofk5="x")[0]())
except Exception as x: print(repr(x))
try: print(Sun.geometric_geocentric_position(None))
except Exception as x: print(repr(x))
from pymeeus.Coordinates import *
for f,args in ((kepler_equation,(1.0,Angle(10))),(kepler_equation,(1.5,Angle(10))),(velocity,(0.0,1.0)),(phase_angle,(1.0,1.0,3.0)),(length_orbit,(1.0,1.0)),(illuminated_fraction,(0.0,1.0,1.0)),(diurnal_path_horizon,(Angle(80),Angle(80))),(equatorial2horizontal,(Angle(0),Angle(45.0),Angle(45.0))),(angular_separation,(Angle(0),Angle(0),Angle(180),Angle(0)))):
    try: print(f.__name__,args,f(*args))
    except Exception as x: print(f.__name__,args,repr(x))
