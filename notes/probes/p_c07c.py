import warnings, math, importlib
warnings.filterwarnings("ignore")
from fractions import Fraction as F
from pymeeus.Epoch import Epoch
from pymeeus.Coordinates import vsop_pos
names="Mercury Venus Earth Mars Jupiter Saturn Uranus Neptune".split()
for nm in names:
    M=importlib.import_module("pymeeus."+nm)
    w=[0,0,0]; wf=[0,0,0]
    for y in range(-2000,4001,250):
        e=Epoch(2451545.0+(y-2000)*365.25+11.1)
        t=(e.jde()-2451545.0)/365250.0
        def naive(tab):
            tot=0.0
            for i,ser in enumerate(tab):
                s=0.0
                for A,B,C in ser: s+=A*math.cos(B+C*t)
                tot+=s*t**i
            return tot/1e8
        def exact(tab):
            return math.fsum(math.fsum(A*math.cos(B+C*t) for A,B,C in ser)*t**i for i,ser in enumerate(tab))/1e8
        l,b,r=vsop_pos(e,M.VSOP87_L,M.VSOP87_B,M.VSOP87_R)
        for k,(fun,store) in enumerate(((naive,w),(exact,wf))):
            dl=fun(M.VSOP87_L)
            # compare in degrees mod 360 using Fractions
            dd=(F(l())-F(math.degrees(dl)))%360
            dd=float(min(dd,360-dd))*math.pi/180
            store[0]=max(store[0],dd); store[1]=max(store[1],abs(b.rad()-fun(M.VSOP87_B))); store[2]=max(store[2],abs(r-fun(M.VSOP87_R)))
    print(nm,'naive L %.1e B %.1e R %.1e | fsum L %.1e B %.1e R %.1e'%(*w,*wf))
