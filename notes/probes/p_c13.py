import warnings, math, itertools, time, importlib
warnings.filterwarnings("ignore")
from pymeeus.Sun import Sun
from pymeeus.Earth import Earth
from pymeeus.Epoch import Epoch
from pymeeus.Angle import Angle
from collections import Counter, defaultdict
bad=Counter(); ex={}; worst=defaultdict(float)
t0=time.time()
syn={'Mercury':115.8774771,'Venus':583.921361,'Mars':779.936104,'Jupiter':398.884046,'Saturn':378.091904,'Uranus':369.656035,'Neptune':367.486703}
finders={'Mercury':['inferior_conjunction','superior_conjunction','western_elongation','eastern_elongation','station_longitude_1','station_longitude_2'],
'Venus':['inferior_conjunction','superior_conjunction','western_elongation','eastern_elongation','station_longitude_1','station_longitude_2'],
'Mars':['conjunction','opposition','station_longitude_1','station_longitude_2'],'Jupiter':['conjunction','opposition','station_longitude_1','station_longitude_2'],
'Saturn':['conjunction','opposition','station_longitude_1','station_longitude_2'],'Uranus':['conjunction','opposition'],'Neptune':['conjunction','opposition']}
def geolon(P,e):
    # geometric geocentric ecliptic longitude from library's heliocentric vectors (no light time)
    l,b,r=P.geometric_heliocentric_position(e,tofk5=False); l0,b0,r0=Earth.geometric_heliocentric_position(e,tofk5=False)
    x=r*math.cos(b.rad())*math.cos(l.rad())-r0*math.cos(b0.rad())*math.cos(l0.rad())
    y=r*math.cos(b.rad())*math.sin(l.rad())-r0*math.cos(b0.rad())*math.sin(l0.rad())
    return math.degrees(math.atan2(y,x))%360, (l0()+180)%360
for nm,fl in finders.items():
    P=getattr(importlib.import_module('pymeeus.'+nm),nm); per=syn[nm]
    for fn in fl:
        f=getattr(P,fn)
        for era in (-2000,0,1582,2000,3990):
            prev=None; start=Epoch(era,1,2).jde()
            for i in range(0,120):
                q=Epoch(start+i*per/20.0)
                if q.year()>4000: break
                try: r=f(q)
                except Exception as x:
                    bad[nm+'.'+fn+':exc']+=1; ex.setdefault(nm+'.'+fn+':exc',(q.get_date(),repr(x))); continue
                re=r[0] if isinstance(r,tuple) else r
                worst[nm+'.'+fn+':dist/per']=max(worst[nm+'.'+fn+':dist/per'],abs(re-q)/per)
                if prev is not None:
                    d=re-prev
                    if d<-1e-6: bad[nm+'.'+fn+':back']+=1; ex.setdefault(nm+'.'+fn+':back',(q.get_date(),d))
                    elif d>1e-6:
                        worst[nm+'.'+fn+':gapdev']=max(worst[nm+'.'+fn+':gapdev'],abs(d/per-1))
                prev=re
                if i%10==0 and 'conjunction' in fn or fn=='opposition':
                    gl,sl=geolon(P,re)
                    target=180.0 if fn=='opposition' else 0.0
                    dv=abs((gl-sl-target+180)%360-180)
                    # convert to days using relative synodic rate approx 360/per
                    worst[nm+'.'+fn+':dlon_deg']=max(worst[nm+'.'+fn+':dlon_deg'],dv)
for k in sorted(worst): print(k,'%.4g'%worst[k])
print(bad)
for k,v in ex.items(): print(k,v)
print(time.time()-t0)
