import warnings, time
warnings.filterwarnings("ignore")
from pymeeus.Epoch import Epoch
# independent day walk
def jleap(y): return y % 4 == 0
def gleap(y): return (y%4==0 and y%100!=0) or y%400==0
ml=[31,28,31,30,31,30,31,31,30,31,30,31]
t0=time.time()
jd=-0.5  # -4712-01-01 0h
bad=[];n=0
first=True
for y in range(-4712, 6001):
    for m in range(1,13):
        leap = jleap(y) if y<1582 or (y==1582) else gleap(y)
        if y<1582: leap=jleap(y)
        elif y==1582: leap=False
        else: leap=gleap(y)
        L = ml[m-1] + (1 if (m==2 and leap) else 0)
        for d in range(1, L+1):
            if y==1582 and m==10 and 5<=d<=14: continue
            try:
                e=Epoch(y,m,d)
                j=e.jde()
                got=e.get_date()
            except Exception as ex:
                bad.append((y,m,d,'EXC',repr(ex))); jd+=1; continue
            if j!=jd: bad.append((y,m,d,'JDE',j,jd))
            if got!=(y,m,float(d)): bad.append((y,m,d,'RT',got))
            jd+=1; n+=1
        # day past month end
        for dd in (0, L+1):
            try:
                Epoch(y,m,dd); bad.append((y,m,dd,'NOERR'))
            except ValueError: pass
            except Exception as ex: bad.append((y,m,dd,'WRONGEXC',repr(ex)))
print(n, len(bad), time.time()-t0)
print(bad[:20])
print(Epoch(-4712,1,1.5).jde(), Epoch(1858,11,17).mjd(), Epoch(2000,1,1.5).jde())
