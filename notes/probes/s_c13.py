import warnings, math, importlib, time, sys, json
warnings.filterwarnings("ignore")
from multiprocessing import Pool
from pymeeus.Epoch import Epoch
from pymeeus.Earth import Earth
syn={'Mercury':115.8774771,'Venus':583.921361,'Mars':779.936104,'Jupiter':398.884046,'Saturn':378.091904,'Uranus':369.656035,'Neptune':367.486703}
orb={'Mercury':87.969,'Venus':224.701,'Earth':365.2596,'Mars':686.98,'Jupiter':4332.59,'Saturn':10759.2,'Uranus':30688.5}
F={'Mercury':['inferior_conjunction','superior_conjunction','western_elongation','eastern_elongation','station_longitude_1','station_longitude_2'],
'Venus':['inferior_conjunction','superior_conjunction','western_elongation','eastern_elongation','station_longitude_1','station_longitude_2'],
'Mars':['conjunction','opposition','station_longitude_1','station_longitude_2'],'Jupiter':['conjunction','opposition','station_longitude_1','station_longitude_2'],
'Saturn':['conjunction','opposition','station_longitude_1','station_longitude_2'],'Uranus':['conjunction','opposition'],'Neptune':['conjunction','opposition']}
J0=Epoch(-2000,1,2).jde(); J1=Epoch(3999,12,30).jde()
def job(a):
    nm,fn,kw,per=a
    P=getattr(importlib.import_module('pymeeus.'+nm),nm); f=getattr(P,fn)
    prev=None; q=J0; st={'n':0,'back':0,'gaplo':9,'gaphi':0,'far':0,'exc':0,'distinct':0,'ex':[]}
    step=per/20.0
    while q<=J1:
        e=Epoch(q)
        try: r=f(e,**kw)
        except Exception as x:
            st['exc']+=1
            if len(st['ex'])<3: st['ex'].append((q,repr(x)))
            q+=step; continue
        re=(r[0] if isinstance(r,tuple) else r).jde()
        st['n']+=1
        st['far']=max(st['far'],abs(re-q)/per)
        if prev is not None:
            d=re-prev
            if d<-1e-6:
                st['back']+=1
                if len(st['ex'])<3: st['ex'].append((q,'back',d))
            elif d>1e-6:
                st['distinct']+=1
                g=d/per; st['gaplo']=min(st['gaplo'],g); st['gaphi']=max(st['gaphi'],g)
        prev=re; q+=step
    return (nm,fn,str(kw),st)
if __name__=='__main__':
    jobs=[]
    for nm,fl in F.items():
        for fn in fl: jobs.append((nm,fn,{},syn[nm]))
    for nm,per in orb.items():
        for pe in (True,False): jobs.append((nm,'perihelion_aphelion',{'perihelion':pe},per))
        for asc in (True,False): jobs.append((nm,'passage_nodes',{'ascending':asc},per))
    t0=time.time()
    with Pool(16) as p:
        for r in p.imap_unordered(job,jobs):
            nm,fn,kw,st=r
            print(nm,fn,kw,'n=%d distinct=%d back=%d exc=%d gap=[%.3f,%.3f] far=%.3f'%(st['n'],st['distinct'],st['back'],st['exc'],st['gaplo'],st['gaphi'],st['far']),st['ex'],flush=True)
    print('wall',time.time()-t0)
