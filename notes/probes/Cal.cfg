CONSTANTS Y0 = 1570 Y1 = 1610
SPECIFICATION Spec
INVARIANT TypeOK
