import warnings, math, itertools
warnings.filterwarnings("ignore")
from pymeeus.Angle import Angle
from pymeeus.Coordinates import *
from collections import Counter
bad=Counter(); ex={}
def vec(lon,lat):
    lo=math.radians(lon); la=math.radians(lat)
    return (math.cos(la)*math.cos(lo), math.cos(la)*math.sin(lo), math.sin(la))
def sep(u,v):
    cx=(u[1]*v[2]-u[2]*v[1], u[2]*v[0]-u[0]*v[2], u[0]*v[1]-u[1]*v[0])
    return math.degrees(math.atan2(math.sqrt(sum(c*c for c in cx)), sum(a*b for a,b in zip(u,v))))
lons=[0.0,1e-9,1e-6,45.0,89.999999,90.0,135.0,179.999999,180.0,180.000001,225.0,270.0,315.0,359.999999,359.999999999]
lats=[-90.0,-89.9999,-89.99,-85.0,-45.0,-1e-6,0.0,1e-9,23.44,45.0,66.56,85.0,89.0,89.99,89.9999,90.0]
eps=[0.0,1e-6,10.0,23.4392911,30.0]
n=0
for lo,la in itertools.product(lons,lats):
    for e in eps:
        n+=1
        try:
            l,b=equatorial2ecliptical(Angle(lo),Angle(la),Angle(e))
            r,d=ecliptical2equatorial(l,b,Angle(e))
        except Exception as x:
            bad['ecl_exc']+=1; ex.setdefault('ecl_exc',(lo,la,e,repr(x))); continue
        if not (0<=l()<360): bad['ecl_lonrange']+=1; ex.setdefault('ecl_lonrange',(lo,la,e,l()))
        if not (0<=r()<360): bad['ecl_rarange']+=1; ex.setdefault('ecl_rarange',(lo,la,e,r()))
        if not (-90<=b()<=90): bad['ecl_latrange']+=1
        s=sep(vec(lo,la),vec(r(),d()))
        if s>1e-9: bad['ecl_rt']+=1; ex.setdefault('ecl_rt',(lo,la,e,s))
    # galactic
    try:
        l,b=equatorial2galactic(Angle(lo),Angle(la)); r,d=galactic2equatorial(l,b)
        if not (0<=l()<360): bad['gal_lonrange']+=1; ex.setdefault('gal_lonrange',(lo,la,l()))
        if not (0<=r()<360): bad['gal_rarange']+=1; ex.setdefault('gal_rarange',(lo,la,r()))
        s=sep(vec(lo,la),vec(r(),d()))
        if s>1e-9: bad['gal_rt']+=1; ex.setdefault('gal_rt',(lo,la,s))
    except Exception as x:
        bad['gal_exc']+=1; ex.setdefault('gal_exc',(lo,la,repr(x)))
    for phi in (-90.0,-66.5,-23.0,0.0,1e-7,38.92,45.0,89.9,90.0):
        try:
            az,el=equatorial2horizontal(Angle(lo),Angle(la),Angle(phi)); h,d=horizontal2equatorial(az,el,Angle(phi))
            s=sep(vec(lo,la),vec(h(),d()))
            if s>1e-9: bad['hor_rt']+=1; ex.setdefault('hor_rt',(lo,la,phi,s))
            if not (-90<=el()<=90): bad['hor_elrange']+=1
        except Exception as x:
            bad['hor_exc']+=1; ex.setdefault('hor_exc',(lo,la,phi,repr(x)))
print(n,bad)
for k,v in ex.items(): print(k,v)
# separation
bad=Counter(); ex={}
for lo,la in itertools.product([0.0,10.0,123.0,359.9],[-89.0,-30.0,0.0,45.0,88.0]):
    for s0 in (1e-7,1e-6,1e-5,1e-4,1e-3,0.01,1.0,30.0,90.0,150.0,179.0,179.9,179.99,179.999):
        for pa in (0.0,37.0,90.0,200.0):
            # construct second point at separation s0 and position angle pa
            la1=math.radians(la); s=math.radians(s0); p=math.radians(pa)
            sl2=math.sin(la1)*math.cos(s)+math.cos(la1)*math.sin(s)*math.cos(p)
            la2=math.asin(max(-1,min(1,sl2)))
            dlo=math.atan2(math.sin(p)*math.sin(s)*math.cos(la1), math.cos(s)-math.sin(la1)*sl2)
            lo2=(lo+math.degrees(dlo))%360; la2=math.degrees(la2)
            a1,d1,a2,d2=Angle(lo),Angle(la),Angle(lo2),Angle(la2)
            ref=sep(vec(a1(),d1()),vec(a2(),d2()))
            try:
                g=angular_separation(a1,d1,a2,d2)(); g2=angular_separation(a2,d2,a1,d1)()
            except Exception as x:
                bad['sep_exc']+=1; ex.setdefault('sep_exc',(lo,la,s0,pa,repr(x))); continue
            if abs(g-ref)>1e-9: bad['sep']+=1; ex.setdefault('sep%g'%s0,(lo,la,s0,pa,g,ref))
            if abs(g-g2)>1e-9: bad['sep_sym']+=1
print(bad)
for k,v in sorted(ex.items()): print(k,v)
