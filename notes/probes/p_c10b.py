import warnings, calendar
warnings.filterwarnings("ignore")
from pymeeus.Epoch import Epoch
from collections import Counter
bad=[];n=0
for y in range(1950,2101):
    for m in range(1,13):
        last=calendar.monthrange(y,m)[1]
        for d in (1,15,last):
            for (h,mi,s) in ((0,0,0),(12,0,0),(23,59,59)):
                e=Epoch(y,m,d,h,mi,s,utc=True)
                n+=1
                try:
                    yy,mm,dd,hh,mmi,ss=e.get_full_date(utc=True)
                except Exception as ex:
                    bad.append((y,m,d,h,'EXC',repr(ex))); continue
                def tosec(Y,M,D,H,MI,S): return Epoch(Y,M,D).jde()*86400+H*3600+MI*60+S
                diff=tosec(yy,mm,dd,hh,mmi,ss)-tosec(y,m,d,h,mi,s)
                if abs(diff)>1e-3: bad.append((y,m,d,h,round(diff,3)))
print(n,len(bad)); print(bad[:40])
print(Counter(round(b[4]) if not isinstance(b[4],str) else b[4] for b in bad))
# override
bad=[]
for ls in range(0,61):
    for (y,m,d) in ((1980,3,5),(2020,6,15),(1972,1,1),(1960,5,5)):
        a=Epoch(y,m,d,12,0,0,leap_seconds=ls).jde(); b=Epoch(y,m,d,12,0,0).jde()
        got=(a-b)*86400
        exp=(42.184+ls) if y>=1972 else 0
        if abs(got-exp)>1e-3: bad.append((y,m,d,ls,round(got,3),exp))
print(len(bad),bad[:20])
