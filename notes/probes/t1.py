import time, warnings
warnings.filterwarnings("ignore")
from pymeeus.Epoch import Epoch
from pymeeus.Angle import Angle
from pymeeus.Sun import Sun
from pymeeus.Moon import Moon
from pymeeus.Earth import Earth
from pymeeus.Venus import Venus
from pymeeus.Jupiter import Jupiter
from pymeeus.Neptune import Neptune
from pymeeus.Mercury import Mercury
from pymeeus.Coordinates import *
def tm(f, n=200):
    t=time.perf_counter()
    for _ in range(n): f()
    return (time.perf_counter()-t)/n*1e6
e=Epoch(2000,1,1.5)
print("Epoch(y,m,d) us", tm(lambda: Epoch(1987,6,19.5),20000))
print("Epoch(jde) us", tm(lambda: Epoch(2446966.0),20000))
print("get_date us", tm(lambda: e.get_date(),20000))
print("Angle() us", tm(lambda: Angle(123.4),20000))
print("Angle add us", tm(lambda: Angle(123.4)+Angle(300.0),20000))
print("dms_str us", tm(lambda: Angle(123.4).dms_str(n_dec=3),20000))
print("Earth helio us", tm(lambda: Earth.geometric_heliocentric_position(e)))
print("Venus helio us", tm(lambda: Venus.geometric_heliocentric_position(e)))
print("Jupiter helio us", tm(lambda: Jupiter.geometric_heliocentric_position(e)))
print("Neptune helio us", tm(lambda: Neptune.geometric_heliocentric_position(e)))
print("Mercury helio us", tm(lambda: Mercury.geometric_heliocentric_position(e)))
print("Sun apparent us", tm(lambda: Sun.apparent_geocentric_position(e)))
print("nutation us", tm(lambda: nutation_longitude(e)))
print("Moon pos us", tm(lambda: Moon.geocentric_ecliptical_pos(e)))
print("Moon phase us", tm(lambda: Moon.moon_phase(e)))
print("Venus geocentric us", tm(lambda: Venus.geocentric_position(e),50))
print("Venus inf conj us", tm(lambda: Venus.inferior_conjunction(e)))
print("Venus perihelion us", tm(lambda: Venus.perihelion_aphelion(e),50))
print("equinox us", tm(lambda: Sun.get_equinox_solstice(2000,"spring"),20))
print("eot us", tm(lambda: Sun.equation_of_time(e),50))
print("kepler us", tm(lambda: kepler_equation(0.5, Angle(40.0)),2000))
print("eq2ecl us", tm(lambda: equatorial2ecliptical(Angle(10.0),Angle(20.0),Angle(23.4)),20000))
print("prec us", tm(lambda: precession_equatorial(e, Epoch(2451545.0+3000), Angle(10.0),Angle(20.0)),5000))
print("easter us", tm(lambda: Epoch.easter(2000),20000))
print("moslem us", tm(lambda: Epoch.moslem2gregorian(1421,1,1),20000))
print("dow us", tm(lambda: e.dow(),20000))
