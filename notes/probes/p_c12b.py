import warnings, math
warnings.filterwarnings("ignore")
from pymeeus.Angle import Angle
from pymeeus.Coordinates import planetary_conjunction, planet_star_conjunction, planet_stars_in_line, minimum_angular_separation
from collections import Counter
bad=Counter(); ex={}
for n0 in (-1.7,-0.37,0.0,0.2379,1.9):
    for rate1,rate2 in ((0.30,-0.25),(1.2,0.4),(-0.5,-0.9)):
        for curv in (0.0,0.01,-0.02):
            for a0 in (156.0,359.95,0.02):   # include seam
                ns=[-2,-1,0,1,2]
                # dalpha(n) = (rate1-rate2)*(n-n0) + curv*(n-n0)*(n+5)  -> root at n0 (other root at -5 outside)
                a2=[a0+rate2*n for n in ns]
                a1=[a0+rate2*n+(rate1-rate2)*(n-n0)+curv*(n-n0)*(n+5) for n in ns]
                d1=[6.0-0.2*n+0.01*n*n for n in ns]; d2=[4.0-0.1*n for n in ns]
                try:
                    r=planetary_conjunction([Angle(x) for x in a1],[Angle(x) for x in d1],[Angle(x) for x in a2],[Angle(x) for x in d2])
                except Exception as x:
                    bad['pc_exc']+=1; ex.setdefault('pc_exc',(n0,rate1,rate2,curv,a0,repr(x))); continue
                if abs(r[0]-n0)>1e-6: bad['pc_root']+=1; ex.setdefault('pc_root',(n0,rate1,rate2,curv,a0,r[0]))
                dd=(6.0-0.2*n0+0.01*n0*n0)-(4.0-0.1*n0)
                if abs(float(r[1])-dd)>1e-6: bad['pc_dd']+=1; ex.setdefault('pc_dd',(n0,curv,a0,float(r[1]),dd))
                # star
                try:
                    r=planet_star_conjunction([Angle(x) for x in a1],[Angle(x) for x in d1],Angle(a0+rate2*0+ (a1[2]- (rate1-rate2)*(0-n0) - curv*(0-n0)*5 - a0)),Angle(4.0))
                except Exception as x:
                    bad['ps_exc']+=1; ex.setdefault('ps_exc',(n0,rate1,rate2,curv,a0,repr(x)))
print(bad); print(ex)
