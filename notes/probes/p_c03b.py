import warnings, math, itertools, operator
warnings.filterwarnings("ignore")
from pymeeus.Angle import Angle
from fractions import Fraction as F
from collections import Counter
bad=Counter(); ex={}
def cong(a,b,tol):
    d=(a-b)%360
    return min(d,360-d)<=tol
# sexagesimal inputs
D=[0,1,-1,23,-23,359,360,361,-743,0.5,-0.5,12.999999]
M=[0,1,-1,26,59,60,61,-26,59.999999,0.5,125]
S=[0,0.0,1,-1,48.999,59.9999999,60,61,-48.9,3600,1e-9]
n=0
for d,m,s in itertools.product(D,M,S):
    neg = d<0 or m<0 or s<0
    exact=(abs(F(d))+abs(F(m))/60+abs(F(s))/3600)*(-1 if neg else 1)
    for form,mk in (('args',lambda: Angle(d,m,s)),('tuple',lambda: Angle((d,m,s))),('list',lambda: Angle([d,m,s]))):
        n+=1
        try: v=mk()()
        except Exception as x:
            bad['exc']+=1; ex.setdefault('exc',(d,m,s,repr(x))); continue
        if not (-360<v<360): bad['range']+=1; ex.setdefault('range',(d,m,s,v))
        if not cong(F(v),exact,F(1,10**9)*max(1,abs(exact))): bad['cong']+=1; ex.setdefault('cong',(d,m,s,v,float(exact)))
        if exact%360!=0 and v!=0 and (v<0)!=neg: bad['sign']+=1; ex.setdefault('sign',(d,m,s,v))
    # 4-arg form with sign
    for sg in (1,-1):
        try: v=Angle(abs(d),abs(m),abs(s),sg)()
        except Exception as x: bad['exc4']+=1; ex.setdefault('exc4',(d,m,s,sg,repr(x))); continue
        e4=(abs(F(d))+abs(F(m))/60+abs(F(s))/3600)*sg
        if not cong(F(v),e4,F(1,10**9)*max(1,abs(e4))): bad['cong4']+=1; ex.setdefault('cong4',(d,m,s,sg,v,float(e4)))
print(n,bad)
for k,v in ex.items(): print(k,v)
# operators
bad=Counter(); ex={}
A=[0.0,-0.0,1e-20,-1e-20,1.0,-1.0,90.0,180.0,-180.0,359.999999999,-359.999999999,math.nextafter(360,0),123.456,-271.5,0.1]
B=[0,1,-1,2,0.5,360,-360,720.5,1e-3,3,-2.5,1e6,7]
ops=[('add',operator.add,lambda a,b:a+b),('sub',operator.sub,lambda a,b:a-b),('mul',operator.mul,lambda a,b:a*b),('div',operator.truediv,lambda a,b:a/b),('pow',operator.pow,None),('mod',operator.mod,None)]
def refmod(a,b):
    s=1 if a>=0 else -1
    return s*(abs(a)%b)
for a in A:
    for b in B:
        for kind in ('AA','Af','Ai','fA'):
            for name,op,ref in ops:
                x=Angle(a); 
                if kind=='AA': y=Angle(b); bv=F(y())
                elif kind=='Af': y=float(b); bv=F(y)
                elif kind=='Ai':
                    if b!=int(b): continue
                    y=int(b); bv=F(y)
                else: y=float(b); bv=F(y)
                av=F(x())
                try:
                    if kind=='fA': r=op(y,x); l,rr=bv,av
                    else: r=op(x,y); l,rr=av,bv
                except ZeroDivisionError:
                    if name in('div','mod') and rr==0: continue
                    if kind=='fA' and name in ('div','mod') and av==0: continue
                    bad[name+'_zde']+=1; ex.setdefault(name+'_zde',(kind,a,b)); continue
                except Exception as e:
                    bad[name+'_exc']+=1; ex.setdefault(name+'_exc',(kind,a,b,repr(e))); continue
                if name in ('div','mod') and rr==0: bad[name+'_nozde']+=1; ex.setdefault(name+'_nozde',(kind,a,b,r)); continue
                if not isinstance(r,Angle): bad[name+'_type']+=1; ex.setdefault(name+'_type',(kind,a,b,type(r))); continue
                if name=='pow':
                    try: exact=F(float(l)**float(rr)) 
                    except Exception: continue
                elif name=='mod': exact=refmod(l,rr)
                else: exact=ref(l,rr)
                v=r()
                if not (-360<v<360): bad[name+'_range']+=1; ex.setdefault(name+'_range',(kind,a,b,v))
                tol=F(1,10**9)*max(1,abs(exact))
                if not cong(F(v),exact,tol): bad[name+'_cong']+=1; ex.setdefault(name+'_cong',(kind,a,b,v,float(exact)))
                if x()!=Angle(a)(): bad['mutated']+=1
print(bad)
for k,v in ex.items(): print(k,v)
