import warnings, math, itertools
warnings.filterwarnings("ignore")
from pymeeus.Angle import Angle
from pymeeus.Epoch import Epoch, JDE2000
from pymeeus.Coordinates import *
from collections import Counter, defaultdict
def vec(lon,lat):
    lo=math.radians(lon); la=math.radians(lat)
    return (math.cos(la)*math.cos(lo), math.cos(la)*math.sin(lo), math.sin(la))
def sep(u,v):
    cx=(u[1]*v[2]-u[2]*v[1], u[2]*v[0]-u[0]*v[2], u[0]*v[1]-u[1]*v[0])
    return math.degrees(math.atan2(math.sqrt(sum(c*c for c in cx)), sum(a*b for a,b in zip(u,v))))
worst=defaultdict(float); ex={}
eps_=[Epoch(2451545.0+36525.0*c) for c in (-5,-2,-1,-0.5,0,0.2884,1,2,5)]
ras=[0.0,41.0,123.4,200.0,359.9]
decs=[-90.0,-89.0,-86.0,-85.0,-60.0,0.0,30.0,49.2,84.9,85.0,85.1,86.0,89.0,89.9,90.0]
for e0,e1 in itertools.product(eps_,eps_):
    for ra,dec in itertools.product(ras,decs):
        try:
            a1,d1=precession_equatorial(e0,e1,Angle(ra),Angle(dec))
            a2,d2=precession_equatorial(e1,e0,a1,d1)
        except Exception as x:
            ex.setdefault('exc',(e0(),e1(),ra,dec,repr(x))); continue
        s=sep(vec(ra,dec),vec(a2(),d2()))
        k=('eq_rt',dec); worst[k]=max(worst[k],s)
        if e0() == e1():
            s0=sep(vec(ra,dec),vec(a1(),d1())); worst[('eq_id',dec)]=max(worst[('eq_id',dec)],s0)
        # rigidity: with second star
        b1,c1=precession_equatorial(e0,e1,Angle(ra+10),Angle(max(-90,dec-7)))
        s_before=sep(vec(ra,dec),vec(ra+10,max(-90,dec-7))); s_after=sep(vec(a1(),d1()),vec(b1(),c1()))
        worst[('eq_rigid',dec)]=max(worst[('eq_rigid',dec)],abs(s_before-s_after))
        # ecliptical rt
        if abs(dec)<=89.0:
            l1,b1=precession_ecliptical(e0,e1,Angle(ra),Angle(dec)); l2,b2=precession_ecliptical(e1,e0,l1,b1)
            s=sep(vec(ra,dec),vec(l2(),b2())); worst[('ecl_rt',round((e1()-e0())/36525,1))]=max(worst[('ecl_rt',round((e1()-e0())/36525,1))],s)
            # route consistency
            ob0=mean_obliquity(e0); ob1=mean_obliquity(e1)
            lo,la=equatorial2ecliptical(Angle(ra),Angle(dec),ob0)
            lo1,la1=precession_ecliptical(e0,e1,lo,la)
            ra_b,dec_b=ecliptical2equatorial(lo1,la1,ob1)
            s=sep(vec(a1(),d1()),vec(ra_b(),dec_b()))
            worst[('route',dec)]=max(worst[('route',dec)],s)
        # newcomb
        try: n1,m1=precession_newcomb(e0,e1,Angle(ra),Angle(dec))
        except TypeError as x: ex.setdefault("newcomb_exc",repr(x)); continue
        if 2378496<=e0()<=2488070 and 2378496<=e1()<=2488070:
            s=sep(vec(a1(),d1()),vec(n1(),m1())); worst[('newcomb',dec)]=max(worst[('newcomb',dec)],s)
for k in sorted(worst,key=str): print(k, '%.3g'%worst[k])
print(ex)
