import warnings, math, itertools
warnings.filterwarnings("ignore")
from pymeeus.Interpolation import Interpolation
from fractions import Fraction as F
from collections import Counter
bad=Counter(); ex={}
# polynomial reproduction
polys=[[1],[2,-3],[1,0,-1],[0.5,-2,0,1],[3,1,-2,0.5,-0.1],[1,1,1,1,1,1]]
def pv(c,x): return sum(ci*x**i for i,ci in enumerate(c))
def pd(c,x): return sum(i*ci*x**(i-1) for i,ci in enumerate(c) if i>0)
grids=[[0,1],[0,1,2],[-1,0,1],[1,2,4,8],[-3,-1,0,2,5],[0,0.5,1.5,2,3,4.5],[7,8,9,10,11,12,13],[0,1,2,3,4,5,6,7],[-4,-3,-2,-1,0,1,2,3,4]]
for g in grids:
    for c in polys:
        if len(c)>len(g): continue
        ys=[pv(c,x) for x in g]
        for perm in (list(range(len(g))), list(reversed(range(len(g)))), sorted(range(len(g)),key=lambda i:(i*7)%len(g))):
            xs=[g[i] for i in perm]; yy=[ys[i] for i in perm]
            it=Interpolation(xs,yy)
            for x in [g[0]+ (g[-1]-g[0])*k/7 for k in range(8)]:
                v=it(x); d=it.derivative(x)
                if abs(v-pv(c,x))>1e-9*max(1,abs(pv(c,x))): bad['val']+=1; ex.setdefault('val',(g,c,x,v,pv(c,x)))
                if abs(d-pd(c,x))>1e-9*max(1,abs(pd(c,x))): bad['der']+=1; ex.setdefault('der',(g,c,x,d,pd(c,x)))
            for xo in (g[0]-1e-6,g[-1]+1e-6,g[0]-5,g[-1]+5):
                try: it(xo); bad['noerr_out']+=1; ex.setdefault('noerr_out',(g,xo))
                except ValueError: pass
print(bad,ex)
# duplicates
for xs in ([0,1,1],[1,2,1+1e-12],[0,0]):
    try: Interpolation(xs,[1,2,3][:len(xs)]); print('dup no error',xs)
    except ValueError: pass
# roots: cubic with 3 roots on table -3..3
bad=Counter(); ex={}
def f(x): return (x+2)*(x-0.5)*(x-2.2)
xs=[-3,-2.5,-1,0,1,2,3]; it=Interpolation(xs,[f(x) for x in xs])
pts=[-3,-2.5,-2.1,-1.0,0.0,0.4,0.6,1.0,2.0,2.1,2.3,3.0]
for xl,xh in itertools.permutations(pts,2):
    lo,hi=min(xl,xh),max(xl,xh)
    sign_change = f(lo)*f(hi)<0
    try:
        r=it.root(xl,xh)
    except ValueError as x:
        if sign_change: bad['root_raises']+=1; ex.setdefault('root_raises',(xl,xh,str(x)))
        continue
    except Exception as x:
        bad['root_exc']+=1; ex.setdefault('root_exc',(xl,xh,repr(x))); continue
    if not (lo-1e-9<=r<=hi+1e-9): bad['root_outside']+=1; ex.setdefault('root_outside',(xl,xh,r))
    if abs(it(r))>1e-8: bad['root_notzero']+=1; ex.setdefault('root_notzero',(xl,xh,r,it(r)))
print(bad,ex)
# out-of-table limits
for xl,xh in ((-10,10),(-10,0),(0,10),(1,-10)):
    try: print((xl,xh),it.root(xl,xh))
    except Exception as x: print((xl,xh),repr(x))
# minmax
bad=Counter(); ex={}
def fp(x): h=1e-6; return (it(x+h)-it(x-h))/(2*h) if -3+h<=x<=3-h else None
for xl,xh in itertools.combinations(pts,2):
    dl=it.derivative(xl); dh=it.derivative(xh)
    try: r=it.minmax(xl,xh)
    except ValueError as x:
        if dl*dh<0: bad['mm_raises']+=1; ex.setdefault('mm_raises',(xl,xh,str(x)))
        continue
    if not (xl-1e-9<=r<=xh+1e-9): bad['mm_outside']+=1; ex.setdefault('mm_outside',(xl,xh,r))
    if abs(it.derivative(r))>1e-7: bad['mm_notext']+=1; ex.setdefault('mm_notext',(xl,xh,r,it.derivative(r)))
print(bad,ex)
