import warnings, math, itertools
warnings.filterwarnings("ignore")
from pymeeus.Angle import Angle
from pymeeus.Coordinates import times_rise_transit_set, equatorial2horizontal
from collections import Counter, defaultdict
bad=Counter(); ex={}; worst=defaultdict(float)
# synthetic body: alpha(t)=a0+ra_rate*t, delta(t)=d0+dec_rate*t (t in days from 0h TT of current day), quadratic term small
def body(a0,d0,ar,dr,t): return (a0+ar*t)%360, d0+dr*t
for lon_w in (71.0833,0.0,-120.0):
  for lat in (42.3333,0.0,-42.3333,70.0,-70.0):
    for a0 in (41.73,359.9,180.0):
      for d0 in (-60.0,-18.0,0.0,18.44,60.0,85.0):
        for ar,dr in ((0.0,0.0),(1.05,0.39),(-1.5,-1.0),(1.5,1.5),(0.3,-1.5)):
          for h0 in (-0.5667,-0.8333,0.125):
            theta0=177.74208; dT=56.0
            A=[body(a0,d0,ar,dr,t) for t in (-1,0,1)]
            r=times_rise_transit_set(Angle(lon_w),Angle(lat),Angle(A[0][0]),Angle(A[0][1]),Angle(A[1][0]),Angle(A[1][1]),Angle(A[2][0]),Angle(A[2][1]),Angle(h0),dT,Angle(theta0))
            cosH=(math.sin(math.radians(h0))-math.sin(math.radians(lat))*math.sin(math.radians(d0)))/(math.cos(math.radians(lat))*math.cos(math.radians(d0)))
            if r==(None,None,None):
                if abs(cosH)<=1: bad['none_but_crosses']+=1; ex.setdefault('none_but_crosses',(lon_w,lat,a0,d0,ar,dr,h0,cosH))
                continue
            if abs(cosH)>1: bad['times_but_never']+=1; ex.setdefault('times_but_never',(lon_w,lat,d0,h0,cosH,r)); continue
            rise,transit,sett=r
            def alt_ha(ut_h):
                m=ut_h/24.0; n=m+dT/86400.0
                a,d=body(a0,d0,ar,dr,n)
                th=theta0+360.985647*m
                H=(th-lon_w-a)
                az,el=equatorial2horizontal(Angle(H),Angle(d),Angle(lat))
                return el(),(H+180)%360-180
            er,_=alt_ha(rise); es,_=alt_ha(sett); _,Ht=alt_ha(transit)
            graz=abs(cosH)>0.9
            wrapflag = not (0<=transit<=24 and 0<=rise<=24 and 0<=sett<=24)
            k=('graz' if graz else 'normal')+('_wrap' if wrapflag else '')
            for nm,v in (('rise',abs(er-h0)),('set',abs(es-h0)),('transit',abs(Ht))):
                if v>worst[(k,nm,ar)]: worst[(k,nm,ar)]=v; ex[(k,nm,ar)]=(lon_w,lat,a0,d0,ar,dr,h0,round(cosH,4))
for k in sorted(worst,key=str): print(k,'%.3g'%worst[k],ex[k])
print(bad); print({k:v for k,v in ex.items() if isinstance(k,str)})
