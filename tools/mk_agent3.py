import glob
import json
import sys

i = sys.argv[1]
t = open('/verif/tools/agent_prompt.tmpl').read()
t = (t.replace('PROPTEXT', open('/tmp/prop_C%s.txt' % i).read()).replace('WT', '/tmp/wt_c%s' % i)
     .replace('/tmp/out_ID', '/tmp/out3_CXX').replace('ID', 'C%s' % i).replace('/tmp/out3_CXX', '/tmp/out3_C%s' % i))
prev = []
for d in sorted(glob.glob('/verif/seeded/C%s-*' % i)):
    try:
        m = json.load(open(d + '/meta.json'))
        prev.append('- ' + (m.get('summary') or m.get('what') or '')[:260])
    except Exception:
        pass
t += ("\n\nThis is a THIRD round. Earlier rounds already produced the changes listed below; yours must differ from "
      "all of them in mechanism AND location (do not re-use these ideas). Read the property statement clause by clause "
      "and aim at clauses, functions, argument forms and input regions that NONE of the earlier changes touched. Prefer "
      "defects that are hard to notice: a narrow set of inputs (a single date, a thin band of values, one branch of a "
      "rarely taken path, one argument form such as tuple/list/keyword/string spelling), an interaction between two "
      "public functions, a dependence on the order or number of earlier calls, or two edits that each look harmless "
      "alone. Do not use 'git stash' in the worktree (use 'git diff > somefile', 'git checkout -- .', 'git apply').\n"
      "Earlier changes:\n" + "\n".join(prev) + "\n")
open('/tmp/agent3_C%s.txt' % i, 'w').write(t)
