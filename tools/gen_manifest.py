#!/usr/bin/env python3
"""Regenerates /verif/MANIFEST.json from the table below (keeps it valid)."""
import json
import os

ROOT = os.path.dirname(os.path.dirname(os.path.abspath(__file__)))

MC = "model_checking"
EX = "exploration"

# id: (level, technique, text, note, design_ref)
CHECKS = {
 "C01": (MC, "explicit-state enumeration of a calendar successor machine (Python model; TLA+/TLC second model in the thorough tier) with every model state replayed on Epoch",
         "All 3 912 881 reachable states of the civil-calendar successor machine (-4712..6000) are enumerated and each is replayed on the implementation (JDE, read-back, unit step), plus every rejected transition (day 0 / day L+1 of every month) and every month spelling; the quantifier domain is finite and covered completely.",
         "Trusts the 60-line reference model of the calendar rules (cross-checked by an independently written TLA+ model in the thorough tier) and float equality on half-integers.",
         "DESIGN.md 3/C01"),
 "C02": (MC, "breadth-first search over operator histories on real Epoch objects against exact-rational reference (depth 3-4), plus full product of boundary-instant lattice x input forms",
         "Every operator/operand event sequence up to depth 3 (4 with the reduced operand set) from 6 initial epochs is executed on real Epoch objects and compared with exact Fractions on every transition; all ordered pairs of reached states are compared; the JDE lattice (every month start of the boundary years x second offsets x +-2 ulp) and the instant x form product are covered completely.",
         "Real-valued quantifier: verdict holds on the stated lattice (every constant and seam of the anchored code has points on both sides at +-1..2 ulp); calendar reference model of C01.",
         "DESIGN.md 3/C02"),
 "C16": (MC, "explicit-state enumeration of the calendar successor machine with weekday and day-of-year counters, every state replayed on Epoch; exhaustive JDE lattice for sidereal time; TLC second model in the thorough tier",
         "All 3 912 881 states (y,m,d,n,w,doy) are replayed on dow/get_doy/doy/doy2date/year/leap with fractional days; the integer-valued part of the property is covered completely; sidereal time is compared with the IAU 1982 expression in exact rationals at every lattice point.",
         "Trusts the reference calendar model (cross-checked by TLA+/TLC) and the rational evaluation of Meeus (12.4); sidereal clauses hold on the lattice, not on all reals.",
         "DESIGN.md 3/C16"),
 "C19": (MC, "explicit-state enumeration of arithmetic calendars (tabular Islamic calendar as a successor machine, tabular Computus, molad/dehiyyot Hebrew calendar), every state replayed on the conversion functions",
         "The quantifier domains are finite and are covered completely in both tiers: 14 713 Easter years, 3 000 Pesach years, all 885 917 Moslem dates of 1..2500 AH (forward and round trip) and all 868 713 civil days 622-07-16..3000-12-31 (backward), each against an independently written arithmetic calendar.",
         "Trusts the three reference calendars (written from their defining rules, not from Meeus' closed forms) and the civil calendar model of C01.",
         "DESIGN.md 3/C19"),
 "C10": (MC, "explicit-state enumeration of the leap-second step automaton over months, every state replayed on the table lookup, the UTC constructor, the read-back and all overrides",
         "All 1 812 states (year, month, count) 1950-01..2100-12 of the IERS automaton are replayed: table value, utc=True offset and read-back at 9 instants per state, overrides 0..60 per state, and Delta-T for all 60 012 months -2000..3000; the quantifier domain of the property is finite and covered completely.",
         "Trusts the IERS list of 27 insertion dates typed into the reference model.",
         "DESIGN.md 3/C10"),
 "C03": (MC, "breadth-first search over operator histories on real Angle objects against exact-rational arithmetic (depth 2 full event set, depth 3 reduced), plus full Cartesian constructor lattices",
         "Every (operator, plain/reflected/in-place form, operand type, operand) event sequence up to depth 2 from 15 initial angles (about 650 000 transitions, 59 000 distinct states) is executed on real Angle objects; each transition is compared with the exact rational result modulo 360 and both operands are checked bit-for-bit unchanged; all constructor forms over the magnitude and D x M x S lattices are covered completely.",
         "Real-valued quantifier: holds on the stated alphabets (every constant/seam of the anchored code with +-1 ulp neighbours); exact arithmetic via fractions/decimal (80 digits for radians and non-integer powers).",
         "DESIGN.md 3/C03"),
 "C04": (EX, "exhaustive enumeration of a boundary lattice of values x {angle, RA} x {fancy, colon} x n_dec, strings parsed by an independent grammar; thorough adds every state of the C03 operator BFS",
         "All ~8 400 lattice values (every whole second/minute/degree seam with +-1e-12 deg, +-1e-9 arcsec, +-half-unit offsets and +-1 ulp, both signs) are pushed through both tuple decompositions and all 56 string variants; the thorough tier repeats this on all ~59 000 states reachable by the C03 BFS.",
         "Real-valued quantifier: lattice, not all floats; the string grammar and the rounding tolerance (half a unit of the requested decimal) are the harness's reading of the statement.",
         "DESIGN.md 3/C04"),
 "C12": (EX, "exhaustive enumeration: all permutations/input forms of small tables against exact rational polynomials; every ordered limit pair for roots/extrema against the exact interpolant; copy-independence histories of length <= 2",
         "Every permutation (n <= 5) and input form of 9 abscissa sets x every degree below n is evaluated at every node and 8 abscissae against exact rational arithmetic; root() and minmax() are called on every ordered pair of a 12-14 point limit set (reversed, equal, out-of-table included) on 6 tables and judged by the sign of the exact interpolant; the conjunction helpers on 720 synthetic motions incl. the 0h seam.",
         "Real-valued quantifier: finite alphabets of tables and limits; tolerance 1e-9 relative as stated.",
         "DESIGN.md 3/C12"),
 "C17": (EX, "exhaustive enumeration: all permutations of small data sets x input forms x fit kinds (all ordered pairs/triples of a 7-function basis menu) against an exact rational least-squares solver",
         "15 data sets x every permutation (<= 6 points) x 6 input forms x linear/quadratic/general fits are compared with the exact rational solution of the normal equations (coefficients 1e-6 relative, residual orthogonality), plus the fit-to-fit relations, the correlation identities and the degenerate sets.",
         "Real-valued quantifier: finite alphabet of data sets; 'well-conditioned' is fixed as det(A)/prod(diag A) >= 1e-6 of the exact normal matrix.",
         "DESIGN.md 3/C17"),
 "C05": (EX, "exhaustive Cartesian lattice of directions x obliquities / observer latitudes per conversion pair, each conversion compared with an independent rotation-matrix image, its inverse and pairwise angle preservation; separation lattice 1e-7..179.999 deg",
         "Full product of 63 longitudes (seam values + grid) x 25 latitudes (poles and 1e-6..1 deg from them) x 5 obliquities / 12 observer latitudes / galactic, both directions of each pair, against vector algebra on the sphere (1e-9 deg); all ordered pairs of a 40-direction subset for rigidity; 1 120 constructed pairs for the separation / position-angle metric and 400 triples for the enclosing circle.",
         "Real-valued quantifier: verdict holds on the lattice (poles, seam, code constants +- small offsets); oracle arithmetic is double precision vector algebra (error ~1e-13 deg).",
         "DESIGN.md 3/C05"),
 "C06": (EX, "exhaustive enumeration of all ordered epoch pairs and triples x a pole-dense direction lattice; chains of depth 2-3 (there-and-back, A->B->C vs A->C) judged by vector algebra",
         "All 225 ordered pairs of 15 epochs (J2000 +- 0..20 centuries) x 110 directions (poles, both sides of the 85-degree branch) for identity, rigidity, there-and-back, route agreement and the Newcomb variant; all 125 ordered epoch triples x 20 directions for composition; proper motions {0, +-1, +-10 arcsec/yr}^2; orbital elements incl. retrograde and nearly ecliptic orbits.",
         "Real-valued quantifier: finite lattice of epochs and directions; tolerances are those of the statement.",
         "DESIGN.md 3/C06"),
 "C11": (EX, "exhaustive Cartesian lattice eccentricity x mean anomaly (seam values +-1 ulp, multiples of 180 +-1e-9, many turns, both signs) with residual/half-revolution/true-anomaly oracles; node passages fed back through Kepler/Barker (depth-2 chain)",
         "13 eccentricities (0..0.999999) x ~850 mean anomalies (thorough ~7 400) for Kepler's equation; vis-viva and orbit-length identities on 13 x 4 (e, a) incl. both sides of the 0.95 switch; all triangle-feasible distance triples for the phase relations; 700 node-passage cases (omega x e or q x both nodes) closed through the library's own Kepler solver or an independent Barker solver.",
         "Real-valued quantifier: finite lattice; residuals evaluated in double precision.",
         "DESIGN.md 3/C11"),
 "C18": (EX, "exhaustive Cartesian products: ellipsoids x latitudes x argument representations x heights for the ellipsoid identities; all ordered pairs of 18 surface points for the distance; distance ladder x directions x observers for the parallax bound and decay",
         "5 ellipsoids x 13 latitudes (poles, 1e-6, 0) x {int, float, Angle} x 4 heights for the identities (1e-12); all 324 ordered point pairs x 3 ellipsoids for symmetry, coincidence, equator/meridian arcs (Simpson integral of rm) and the great-circle bound; 930 parallax configurations x 6 distances 1e-3..1e3 AU for the horizontal-parallax bound and the 1/distance decay.",
         "Real-valued quantifier: finite lattice; the great-circle bound is applied as 0.6 % for the built-in ellipsoids and 2 f for user ellipsoids.",
         "DESIGN.md 3/C18"),
 "C07": (EX, "exhaustive epoch lattice x 8 planets with library-against-itself oracles (mean elements + Kepler, independent re-summation of the VSOP87 tables with exact powers of t), seam probes located by bisection, step walks over whole orbits, one-second continuity probes",
         "Quick: 453 epochs (every 40th year -2000..4000, 3 phases) x 8 planets x 10 clauses, the 0/360 longitude seam of every planet at 6 eras probed at +-1e-7..1e-3 day and at the FK5/aberration offsets, 720-step walks over one orbit at 2 eras, 185 boundary instants x 8 planets at one-second steps. Thorough: every 10 days over the whole range (219 146 epochs x 8) and daily walks over two orbits at 4 eras.",
         "Real-valued quantifier: lattice of epochs; oracles use the library's own orbital elements and kepler_equation (C11) and the module's own tables; the direct-summation allowance for Mercury's longitude is stated in DESIGN.md.",
         "DESIGN.md 3/C07"),
 "C08": (EX, "exhaustive epoch lattices with library-against-itself oracles: reflection Sun/Earth, of-date position carried to J2000/B1950/9 equinoxes by the library's own precession, IAU obliquity cubic, 18.6-year nutation term, coarse vs VSOP87 Sun, full product instant x date-argument form",
         "162 epochs 1000..3000 (all seasons) x 11 target frames for the frame clauses, every 25th year -2000..4000 x 4 seasons for reflection/obliquity/nutation, every 73 days 1800..2200 for the coarse formulas, 12 instants x 7 argument forms. Three genuine, test-pinned defects of the frame functions are known findings accepted only at the recorded epochs with the recorded deviation (findings_data/), so any other change of those functions is still reported.",
         "Real-valued quantifier: epoch lattice; precession (C06) and VSOP87 (C07) are the reference.",
         "DESIGN.md 3/C08"),
 "C09": (EX, "exhaustive epoch lattice x 7 planets and Pluto with the direction rebuilt from the library's own heliocentric vectors (light-time iterated); full Cartesian orbit lattice q x e x orientation x time for minor bodies against an independent two-body solver",
         "7 planets x 183 epochs (thorough 14 400) for direction, elongation, its bounds and the caller's Epoch; Pluto every 30 days 1885-2099 plus the range ends; minor bodies: 5 q x 11 e (0..1.0 incl. both sides of 0.98) x 4 orientations x 13 times = 2 860 cases (1e-4 deg) plus continuity across the regime switches. The test-pinned elongation defect and the near-parabolic non-convergence are known findings accepted only at the recorded inputs (with the recorded deviation).",
         "Real-valued quantifier: finite lattices; the planets' oracle uses VSOP87 positions (C07), the Sun (C08) and ecliptical2equatorial (C05) of the library itself.",
         "DESIGN.md 3/C09"),
 "C14": (EX, "exhaustive enumeration: every year x season; every day of sample years for the equation of time; full Cartesian lattices of dates x observers for sunrise/sunset and of synthetic linear motions x observers for the general rise/transit/set routine, judged by the library's own solar position and sidereal time",
         "All 16 004 (year, season) pairs -1000..3000 (apparent longitude 1e-5 deg, order, spacings, range ends); every day of 10 years (thorough: 601 + 600 years) for the equation of time; 2 520 sunrise/sunset cases (a refusal is accepted only when the Sun really does not cross the standard altitude that day); 5 670 synthetic bodies for times_rise_transit_set incl. the 0/360 right-ascension seam, circumpolar and never-rising cases.",
         "Real-valued quantifier: lattices; the Sun's altitude oracle uses Sun.apparent_geocentric_position (C08), apparent_sidereal_time (C16) and equatorial2horizontal (C05).",
         "DESIGN.md 3/C14"),
 "C13": (EX, "exhaustive query lattices (1/20 period) per finder variant with ordering clauses on every consecutive query pair and an event clause (sign change of the defining function built from the library's VSOP87 positions) on every distinct event",
         "56 finder variants (28 Meeus ch. 36 finders, perihelion/aphelion and both node passages of 7 planets). Quick: 6 eras x 6 periods each (37 664 queries, ~4 000 events, every event checked); thorough: the whole range -2000..4000 (about 7.5 million queries, every 10th event checked) plus the range clause. Test-pinned defects of passage_nodes / Uranus perihelion are known findings accepted only at the recorded queries with the recorded offset.",
         "Real-valued quantifier: query lattice at 1/20 period; the event oracle relies on VSOP87 positions (C07) and a two-iteration light-time correction.",
         "DESIGN.md 3/C13"),
 "C15": (EX, "exhaustive epoch lattice for the Moon's position identities; query lattices (1/20 period, plus every calendar day of 8 sample years in both calendars) per lunar finder and target with ordering clauses on every consecutive pair and event clauses from the library's own Moon/Sun positions",
         "Position: 4 800 epochs (thorough: every 3 days over -2000..4000). Finders: 10 (finder, target) pairs x 7 eras x 40 periods + 8 full calendar years incl. 29 February of Julian century years (85 190 queries, every distinct event checked); thorough: the whole range (15.4 million queries, every 10th event).",
         "Real-valued quantifier: lattices; event oracles use the library's own Moon and Sun positions.",
         "DESIGN.md 3/C15"),
 "C20": (MC, "explicit-state exploration of the call-history graph: every catalogued public callable is a transition on the state (digest of all module-level objects and function defaults, digest of the shared argument pool); all ordered call pairs against single calls made in fresh processes; all mutator sequences of length <= 2 on copies; all argument tuples within D deviations of the base tuple over in-domain and ill-typed alphabets",
         "The catalogue is checked against introspection (255 catalogue entries incl. argument-shape variants + 1 wall-clock function). Purity: the reachable state graph must be one state with 255 self-loops. Histories: all 65 025 ordered pairs (A, B): result of B after A equals B alone in a fresh process, argument pool unchanged. Copy constructors of 5 classes under every mutator sequence of length <= 2. Totality: 3 520 (thorough ~15 000) argument tuples within 1 (2) deviations plus wrong arity, and 93 explicit boundary / out-of-range probes; calls run under a 20 s watchdog.",
         "'Documented domain' is the hand-written alphabet in vmc/props/c20_specs.py; hidden state outside module globals / argument objects is only visible through the differential pair clause.",
         "DESIGN.md 3/C20"),
}

# sentences appended to the level text: history / sequence clauses added while testing against seeded changes
EXTRA = {
 "C01": " static_history: all operation sequences (every operation alone, all ordered pairs, triples within a group) over get_month / is_leap / is_julian / leap / constructions with every month spelling, each in a freshly forked process, judged by the reference calendar. cycle_pairs: Julian day then the Gregorian day whole 400-year cycles later (6.1 M evaluations). key_collision_pairs: 36 832 ordered month pairs whose memo keys would collide (digits without a separator, shifted month, sign of the year).",
 "C02": " Object histories: every observer/mutator sequence up to depth 3 (4) on ONE Epoch, all 16 views compared with a fresh object after each step. every_day_readback: get_date of all 5.4 million day numbers of the range at two times of day; sums and differences below JD 0.",
 "C03": " Object histories: every observer/mutator sequence up to depth 3 (4) on ONE Angle, all views compared with a fresh object after each step. sexagesimal_fractions; rounding (decimal ties that are not binary ties, 259 350 cases).",
 "C04": " Tolerance histories: the same functions on objects whose tolerance was changed by set_tolerance earlier in the history. Object histories (10 observers / in-place mutators, depth 3-4) against fresh objects. pair_history: two objects related by copying, all histories to depth 3 (4) applied to either.",
 "C05": " Shared-object histories: one obliquity / latitude object re-used over the whole alphabet and updated in place between calls. Body exactly at a pole for the position angle; observer latitudes within 1e-7 deg of the poles; call pairs whose parameter differs by 3e-9..1e-6 deg (both orders).",
 "C06": " Near-epoch histories (a call preceded by a call with epochs 1e-3..1e-2 day away); orbital elements incl. i = 0, 90, 180 judged by rotating the orbit normal and perihelion direction. Milli-arcsecond proper motions; stars carried across a pole; arguments carrying a coarse comparison tolerance. Stars arriving 1e-9..1e-6 deg from the final pole (constructed through the inverse reference).",
 "C07": " Calls one second and one minute apart (continuity and the aberration identity on consecutive calls). Every table term at its own zero crossing (+-1, +-3 ulp): quick 2 266 terms of the short series, thorough all 31 577 terms x 3 eras. fk5_zero_crossings: zero crossings of B, cos l' - sin l', cos l' + sin l' narrowed to adjacent doubles. row_coincidences (equal arguments of consecutive series rows); order_sum_zeros (zero crossings of every order sum narrowed to adjacent doubles). Horner partial sums; nutation_zeros. Thorough: double_zero_rows - all 1.2e9 row zeros enumerated (numpy, tooling interpreter), 47 709 shortlisted instants checked.",
 "C08": " Every date form with and without utc / leap_seconds keywords. The library's own equinox / solstice instants +-{0..600} min (14 years x 4 seasons); coarse RA/dec per coordinate; dense coarse lattice at the ends of 1800-2200. sun_latitude_zeros; call_pairs (all ordered pairs of 19 years x 4 functions x 3 date forms in forked processes). special_instants (R = 1 AU, longitude 90 deg from the node of the ecliptics) with an apparent-minus-geometric oracle.",
 "C09": " Close approaches down to 0.002 AU; histories of ONE Minor and ONE Epoch re-used through set() (all sequences to depth 3 / 4 over 9 operations, two-body oracle after each step); one Epoch re-set between (date, body) planet queries. Own Sun vector from the Earth's J2000 position; perihelion dates -1990..3990; bystander objects; sequences 2 s apart at 0.002 AU; planets at their conjunctions / oppositions; thorough: 5.75 M positions in the 0.90-0.98 eccentricity band. minor_polar_directions; minor_convergence_edge (edge of the near-parabolic series located by bisection, instants within 3 light times of it).",
 "C10": " Thorough: independent TLA+ model (models/LeapSeconds.tla) enumerated by TLC, all 1 812 dumped states replayed. API histories: all sequences (depth 3 / 4) over 10 operations of the leap-second API, the visible history (58 values) compared with the IERS list after each step; overrides with and without utc=True. Nine argument forms x {utc, override} per state. Overrides at civil midnight and noon with get_date read-back; bare-JDE, set(jde) and Epoch-object forms under the override.",
 "C11": " Call sequences: each (e, M) preceded by a call 6e-8..1e-4 degree away. Dense (e, M) grids: 1.68 M pairs incl. e = 0.90..0.9995 step 0.0005 x 0.01 deg; aligned triples; node eccentricities 1e-8..1e-3. kepler_latus_rectum: 2.4 M (thorough 12 M) eccentricities on the curve v = +-90 degrees.",
 "C12": " Histories incl. the caller overwriting the lists it lent to the object (depth 3). Close root pairs; spacings 0.001..36 525; minmax in the copy histories. root_tolerance (tightened object tolerance, limit a hair beyond the root); roots of multiplicity 3 and 5. 17 measured-looking tables searched between all pairs of tabulated and non-tabulated limits.",
 "C13": " Isolated spot queries over the whole range (240 / 1 200 per variant); one Epoch moved by set() through all ordered pairs (triples) of 7 dates per variant. every_event: 394 916 queries one period apart - every event of all 56 variants over the whole range. calendar_seams: every variant asked 1e-6 d before and after 0 h of every 1 January, 1 March of leap years and the 1st of every month of every 12th year (thorough every year): never backwards. switch_seams: whole minutes and hours around the bisected instant at which a finder switches to the next event.",
 "C14": " Rise/set decision on a 0.25 (0.05) degree declination grid through both 'never crosses' thresholds x 10 latitudes x 6 standard altitudes. Whole-minute seams of the equation of time located by bisection (+-1e-9..1e-4 d); transit / rise / set within seconds of 0 h = 24 h; returned Epochs moved by the caller. Bodies transiting at 0 h / 24 h of the day (both hour-angle wrap branches). rts_accelerated (changing daily motion); rts_dense_seam (0.17 s grid around 0 h UT, 72 018 cases).",
 "C15": " Every year end -2000..3998 x 10 finder/target pairs x 10 query offsets from 1.5 d down to 1e-6 d around 1 January 0h; one Epoch moved by set() between queries. every_event: 777 472 queries one period apart - every lunar event of the range. month_seams: every finder 1e-6 d before and after 0 h of the 1st of every month of every year. argument_events: zeros and coincidences of the large terms' arguments, continuity of 14 views across adjacent doubles. mean_distance_crossings; node finder asked while the Moon is on the ecliptic.",
 "C16": " First instant and 1e-8 day before the end of every civil day through Epoch(jde).dow(); Epoch object histories (shared with C02). Last representable instant of every civil day; the sidereal wrap of every day of the seam years narrowed to adjacent doubles. Within-day sidereal advance judged to 2e-11 day.",
 "C19": " Thorough: independent TLA+ model of the tabular Islamic calendar (models/Hijri.tla, 30-year cycle table) enumerated by TLC over six 40-year windows, all 85 049 dumped states replayed; Gauss's Easter algorithm as a third formulation (models/Easter.tla), all 14 713 years enumerated by TLC and replayed; the traditional molad / dehiyyot rules (models/Pesach.tla), all 3 000 years enumerated and replayed. cycle_day_pairs: conversions of days whole 30-year / 400-year / 4-year cycles apart, both converters, both orders.",
 "C17": " Input forms incl. re-used objects, a copy whose source is re-loaded, and lists overwritten by the caller, for linear, quadratic and general fits. Scale-disparate bases (exp x, x, 1 on 0..20), +-a degenerate tables, ordinates without spread, skewed abscissae; general fits on degenerate data. Contribution-based floor for small coefficients; coefficients 12 decades apart; 150-200 equal abscissae.",
 "C18": " Histories of ONE Earth object set() through all sequences of 2-3 (4) of the 5 ellipsoids, 26 views compared with a fresh object. Every call interleaved with the same call on a second Earth object; ellipsoids differing in rotation rate only. Non-rotating ellipsoid, sub-metre heights, near-pole point pairs and over-the-pole arcs. Exact antipodes and opposite hemispheres over the pole; ellipsoids with f = 1e-10 .. 1e-5.",
 "C20": " Further clauses: reused_arguments (caller changes an argument object in place between two calls), near_arguments (previous call with almost the same arguments), dense_domains (43 single-parameter sweeps on arithmetic grids with fractional steps, 95 313 calls), object_reset (construct / set histories of 4 classes against fresh objects), probes whose documented ValueError must be raised, representation_forms (number vs Angle arguments), out-of-range strings derived from the documented spellings. result_aliasing (returned objects overwritten by the caller, call repeated), argument_tolerance (Angle arguments carrying a non-default comparison tolerance). imported_domains: totality on the in-domain case families built by C14 (rise/transit/set), a dense near-parabolic minor-body sweep, gregorian2moslem of January and December of every year. interpolation_history: all observer-call sequences (depth 2-3 (4)) on ONE Interpolation object against fresh objects.",
}

NOT_YET = {}

ALL = ["C%02d" % i for i in range(1, 21)]


def main():
    checks = []
    for pid in ALL:
        if pid not in CHECKS:
            continue
        level, tech, text, note, ref = CHECKS[pid]
        checks.append({
            "property_id": pid,
            "quick_cmd": "./check %s --tier quick" % pid,
            "thorough_cmd": "./check %s --tier thorough" % pid,
            "evidence_file": "/verif/evidence/%s.json" % pid,
            "replay_cmd_template": "./check %s --replay {path}" % pid,
            "engine": "vmc",
            "level_claimed": {"category": level, "text": text + EXTRA.get(pid, ""), "design_ref": ref},
            "level_note": note,
            "technique": tech,
        })
    na = []
    for pid in ALL:
        if pid not in CHECKS:
            na.append({"property_id": pid,
                       "reason": NOT_YET.get(pid, "check not built yet (model-checking design in DESIGN.md section 3; not claimed until the check exists and is silent on the unchanged tree)")})
    man = {
        "version": 1,
        "setup_cmd": "./setup.sh",
        "hooks": {
            "guard": "PYMEEUS_VERIF",
            "enable": "no hooks: every observation is made through the public API of the working tree in /repo (imported via sys.path, VMC_SRC overrides)",
            "baseline_off_cmd": "cd /repo && /venv/bin/python -m pytest -ra -q -p no:cacheprovider --timeout=900 --continue-on-collection-errors",
            "source_commits": [],
            "add_only": True,
        },
        "engines": [{
            "name": "vmc",
            "path": "/verif/vmc",
            "serves_properties": [c["property_id"] for c in checks],
            "kind_free_text": "hand-written explicit-state / bounded-exhaustive explorer in Python (stdlib only): successor-machine models with lock-step conformance, BFS over operation histories on real objects with exact-rational reference models, full Cartesian lattices of boundary alphabets; TLC used for a second calendar model whose dumped states are all replayed",
        }],
        "checks": checks,
        "not_applicable": na,
        "notes": "Known findings (genuine defects recorded, not repaired) are in /verif/known_findings.json; seeded property-breaking changes in /verif/seeded/. Every check accepts VERIF_SEED (sample selection and shard order only; the explored set is seed-independent).",
    }
    with open(os.path.join(ROOT, "MANIFEST.json"), "w") as f:
        json.dump(man, f, indent=1)
        f.write("\n")


if __name__ == "__main__":
    main()
