#!/bin/sh
# tools/mk_agent4.sh NN  -> fifth-round prompt: asks for changes that defeat lattices / short histories
i=$1
git -C /repo worktree remove --force /tmp/wt_c$i 2>/dev/null
git -C /repo worktree add -q --detach /tmp/wt_c$i HEAD || exit 1
rm -rf /tmp/out5_C$i; mkdir -p /tmp/out5_C$i
python3 "$(dirname "$0")/mk_agent5.py" "$i"
echo ready5 $i
