import glob
import json
import sys

i = sys.argv[1]
t = open('/verif/tools/agent_prompt.tmpl').read()
t = (t.replace('PROPTEXT', open('/tmp/prop_C%s.txt' % i).read()).replace('WT', '/tmp/wt_c%s' % i)
     .replace('/tmp/out_ID', '/tmp/out7_CXX').replace('ID', 'C%s' % i).replace('/tmp/out7_CXX', '/tmp/out7_C%s' % i))
prev = []
for d in sorted(glob.glob('/verif/seeded/C%s-*' % i)):
    try:
        m = json.load(open(d + '/meta.json'))
        prev.append('- ' + (m.get('summary') or m.get('what') or '')[:200])
    except Exception:
        pass
t += ("\n\nThis is a SEVENTH round, and its purpose is different: the harness under test has already caught every change "
      "listed below. It is known to be strong at (a) documented thresholds and thin bands around them, poles, seams "
      "(0/360, 1582, year ends, table joints), (b) regular lattices of epochs, angles and orbital elements over the "
      "whole stated range, (c) short histories of calls on one object or with re-used / mutated argument objects, "
      "stale caches, (d) alternative argument forms (tuple, list, keyword, Angle vs number, month names), (e) far "
      "epochs where a mistyped high-order coefficient shows, (f) calls made right after a call with nearly equal "
      "arguments, several live objects of one class, results or arguments modified by the caller between calls, Angle "
      "arguments carrying a non-default tolerance, (g) dense grids of eccentricity x mean anomaly, every single event of "
      "the planetary / lunar finders over the whole range, zero crossings of every series term, minutes around "
      "equinoxes / solstices / UT midnight / whole minutes of the equation of time, (h) sequences of static helper calls "
      "and constructions in fresh processes, pairs of objects related by copying, ALL ordered pairs of years for "
      "calendar / nutation functions, every day number of the range read back, the last representable instant of each "
      "day, zero crossings of internal quantities (latitude, correction terms) narrowed to adjacent floating-point "
      "numbers, millions of eccentricities on special curves, 0h of the first of every month for every event finder, "
      "sub-metre heights, near-pole point pairs, arc-second separations, decimal rounding ties, (i) offsets of a few 1e-9 "
      "degree at the edge of guard windows, days whole calendar cycles (30 Moslem years, 400 / 4 years) apart in both "
      "orders, instants at which two arguments of a series coincide or an order sum vanishes, whole minutes and hours "
      "around the instant an event finder switches events, accelerated bodies, histories of observer calls on one "
      "object against fresh objects, coefficients many decades apart in fits, the edge of convergence regions of "
      "iterations. Try to DEFEAT it while staying realistic and inside the "
      "property's quantifier: e.g. a defect that shows only where two internal quantities coincide (an intermediate "
      "value that happens to land in a narrow window for scattered, unpredictable inputs - a few per thousand or fewer), "
      "a rare internal branch (iteration not converging, a quadrant fix, a wrap-around of an intermediate angle) whose "
      "trigger is not a round number in the inputs, a loss of precision only in a scattered set of inputs, an "
      "interaction between two public functions that only shows when they are combined. Say in meta.json roughly what "
      "fraction of the input space is affected. Do not use 'git stash' in the worktree (use 'git diff > somefile', "
      "'git checkout -- .', 'git apply').\nEarlier changes (all already caught; do not repeat them):\n"
      + "\n".join(prev) + "\n")
open('/tmp/agent7_C%s.txt' % i, 'w').write(t)
