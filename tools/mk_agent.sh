#!/bin/sh
# tools/mk_agent.sh NN  -> creates /tmp/wt_cNN worktree of /repo HEAD and /tmp/agent_CNN.txt prompt
i=$1
git -C /repo worktree remove --force /tmp/wt_c$i 2>/dev/null
git -C /repo worktree add -q --detach /tmp/wt_c$i HEAD || exit 1
rm -rf /tmp/out_C$i; mkdir -p /tmp/out_C$i
python3 - <<PY
t=open('/tmp/agent_prompt.tmpl').read()
t=t.replace('PROPTEXT',open('/tmp/prop_C$i.txt').read()).replace('WT','/tmp/wt_c$i').replace('ID','C$i')
open('/tmp/agent_C$i.txt','w').write(t)
PY
echo ready $i
