#!/usr/bin/env python3
"""print a python file (or one class/function of it) without docstrings: tools/nodoc.py file [name ...]"""
import ast, sys
src = open(sys.argv[1]).read()
tree = ast.parse(src)
names = set(sys.argv[2:])
class Strip(ast.NodeTransformer):
    def visit_FunctionDef(self, node):
        self.generic_visit(node)
        if node.body and isinstance(node.body[0], ast.Expr) and isinstance(getattr(node.body[0], 'value', None), ast.Constant) and isinstance(node.body[0].value.value, str):
            node.body = node.body[1:] or [ast.Pass()]
        return node
    visit_ClassDef = visit_FunctionDef
tree = Strip().visit(tree)
def walk(node, prefix=""):
    for n in ast.iter_child_nodes(node):
        if isinstance(n, (ast.FunctionDef, ast.ClassDef)):
            q = prefix + n.name
            if not names or n.name in names or q in names:
                print("# ---- %s (line %d)" % (q, n.lineno))
                print(ast.unparse(n))
            elif isinstance(n, ast.ClassDef):
                walk(n, q + ".")
walk(tree)
