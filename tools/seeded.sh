#!/bin/sh
# tools/seeded.sh <dir-with-patch.diff-and-demo.py> <PROP> [tier] [clause,clause..]
# Confirms a seeded change (tests green, demo passes pristine / fails changed)
# in a scratch copy of /repo HEAD under /tmp, runs the property's check against
# it with VMC_SRC, prints a one-line verdict, and removes the scratch copy.
d=$(cd "$1" && pwd); prop=$2; tier=${3:-quick}; only=$4
w=$(mktemp -d /tmp/vmc_seed_XXXXXX)
git -C /repo archive HEAD | tar -x -C "$w" || exit 2
base_demo=skip
if [ -f "$d/demo.py" ]; then
  (cd "$w" && PYTHONPATH="$w" /venv/bin/python "$d/demo.py" >/dev/null 2>&1); base_demo=$?
fi
if ! (cd "$w" && git apply --whitespace=nowarn "$d/patch.diff" 2>/dev/null || patch -s -p1 < "$d/patch.diff" >/dev/null 2>&1); then
  echo "SEEDED $prop $(basename "$d"): patch does not apply"; rm -rf "$w"; exit 2
fi
tests=$(cd "$w" && PYTHONPATH="$w" /venv/bin/python -m pytest -q -p no:cacheprovider tests 2>&1 | tail -1)
mut_demo=skip
if [ -f "$d/demo.py" ]; then
  (cd "$w" && PYTHONPATH="$w" /venv/bin/python "$d/demo.py" >/dev/null 2>&1); mut_demo=$?
fi
if [ -n "$only" ]; then
  out=$(VMC_SRC="$w" VMC_JSONSCHEMA=0 VMC_NO_EVIDENCE=1 /verif/check "$prop" --tier "$tier" --only "$only" 2>&1); rc=$?
else
  out=$(VMC_SRC="$w" VMC_JSONSCHEMA=0 VMC_NO_EVIDENCE=1 /verif/check "$prop" --tier "$tier" 2>&1); rc=$?
fi
nv=$(echo "$out" | grep -c '^VIOLATION')
echo "SEEDED $prop $(basename "$(dirname "$d")")/$(basename "$d"): demo pristine=$base_demo changed=$mut_demo | tests: $tests | check rc=$rc violations_lines=$nv"
echo "$out" | grep -E '^  violation' | head -3
rm -rf "$w"
