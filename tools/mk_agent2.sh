#!/bin/sh
# tools/mk_agent2.sh NN  -> second-round prompt: lists the first-round changes so that new ones differ
i=$1
git -C /repo worktree remove --force /tmp/wt_c$i 2>/dev/null
git -C /repo worktree add -q --detach /tmp/wt_c$i HEAD || exit 1
rm -rf /tmp/out2_C$i; mkdir -p /tmp/out2_C$i
python3 - <<PY
import json,glob
t=open('/verif/tools/agent_prompt.tmpl').read()
t=t.replace('PROPTEXT',open('/tmp/prop_C$i.txt').read()).replace('WT','/tmp/wt_c$i').replace('/tmp/out_ID','/tmp/out2_CXX').replace('ID','C$i').replace('/tmp/out2_CXX','/tmp/out2_C$i')
prev=[]
for d in sorted(glob.glob('/verif/seeded/C$i-*')):
    try: prev.append('- '+json.load(open(d+'/meta.json')).get('summary','')[:300])
    except Exception: pass
t+="\n\nThis is a SECOND round. An earlier round already produced the following changes; yours must be different in mechanism and location (do not re-use these ideas), and should be harder to notice: prefer defects that only show for a narrow set of inputs (a single date, a thin band of values, one branch of a rarely taken path), that depend on a sequence of calls, or that need two edits which each look harmless alone:\n"+"\n".join(prev)+"\n"
open('/tmp/agent2_C$i.txt','w').write(t)
PY
echo ready2 $i
