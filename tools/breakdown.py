#!/usr/bin/env python3
"""tools/breakdown.py PROP [tier] keys... - run a property's clauses in-process (parallel) and print
violation counts / max dev grouped by (clause, site, <case keys>).  Debugging aid."""
import sys, os, collections, multiprocessing as mp
sys.path.insert(0, os.path.dirname(os.path.dirname(os.path.abspath(__file__))))
import vmc
from vmc import engine, findings
prop = sys.argv[1]; tier = sys.argv[2] if len(sys.argv) > 2 else "quick"; keys = sys.argv[3:]
import importlib
mod = importlib.import_module("vmc.props." + prop.lower())
clauses = mod.clauses(tier)
use_known = os.environ.get("BREAKDOWN_KNOWN") == "1"
def work(t):
    ci, si = t
    cl = clauses[ci]
    agg = collections.defaultdict(lambda: [0, 0.0])
    ctx = engine.Ctx(prop, cl.name, findings.for_property(prop) if use_known else [])
    orig = ctx.viol
    def viol(case, detail, dev=None, site=None):
        c = engine.jsonable(case)
        if use_known and findings.match(ctx.known, cl.name, site, c, dev) is not None:
            return
        k = (cl.name, site) + tuple(str(c.get(x)) if isinstance(c, dict) else "" for x in keys)
        agg[k][0] += 1
        if dev is not None: agg[k][1] = max(agg[k][1], abs(dev))
    ctx.viol = viol
    cl.run(cl.shards[si], ctx)
    return dict(agg)
tasks = [(ci, si) for ci, cl in enumerate(clauses) for si in range(len(cl.shards))]
tot = collections.defaultdict(lambda: [0, 0.0])
with mp.get_context("fork").Pool(16) as pool:
    for d in pool.imap_unordered(work, tasks):
        for k, v in d.items():
            tot[k][0] += v[0]; tot[k][1] = max(tot[k][1], v[1])
for k in sorted(tot):
    print("%-90s n=%-7d maxdev=%.6g" % (" ".join(k), tot[k][0], tot[k][1]))
