#!/usr/bin/env python3
"""tools/keep_seeded.py <agent-out-dir> <PROP> [tier]  - for each k in the
agent's output directory: confirm it with tools/seeded.sh, and if confirmed
(tests unchanged, demo passes pristine and fails changed) store it as
/verif/seeded/<PROP>-<k>/ with what was run and whether the check caught it."""
import json
import os
import re
import shutil
import subprocess
import sys

ROOT = os.path.dirname(os.path.dirname(os.path.abspath(__file__)))
out, prop = sys.argv[1], sys.argv[2]
tier = sys.argv[3] if len(sys.argv) > 3 else "quick"
for k in sorted(os.listdir(out)):
    d = os.path.join(out, k)
    if not os.path.exists(os.path.join(d, "patch.diff")):
        continue
    r = subprocess.run([os.path.join(ROOT, "tools", "seeded.sh"), d, prop, tier],
                       capture_output=True, text=True)
    line = [l for l in r.stdout.splitlines() if l.startswith("SEEDED")]
    print(r.stdout.strip())
    if not line:
        continue
    line = line[0]
    m = re.search(r"demo pristine=(\S+) changed=(\S+) \| tests: (.*?) \| check rc=(\d+) violations_lines=(\d+)", line)
    if not m:
        continue
    ok = m.group(1) == "0" and m.group(2) not in ("0", "skip") and "250 passed" in m.group(3) and "1 failed" in m.group(3)
    if not ok:
        print("  -> NOT kept (not confirmed)")
        continue
    off = int(os.environ.get("SEED_OFFSET", "0"))
    name = "%s-%s" % (prop, (int(k) + off) if (off and k.isdigit()) else k)
    # avoid clobbering an existing different entry
    dst = os.path.join(ROOT, "seeded", name)
    os.makedirs(dst, exist_ok=True)
    for f in ("patch.diff", "demo.py"):
        shutil.copy(os.path.join(d, f), os.path.join(dst, f))
    meta = {}
    try:
        meta = json.load(open(os.path.join(d, "meta.json")))
    except Exception:
        pass
    meta["property"] = prop
    meta["confirmed"] = {
        "ran": "tools/seeded.sh (scratch copy of /repo HEAD under /tmp: demo on pristine, apply patch, test-suite, demo, ./check %s --tier %s with VMC_SRC)" % (prop, tier),
        "demo_exit_pristine": int(m.group(1)), "demo_exit_changed": int(m.group(2)),
        "tests_with_change": m.group(3),
        "check_exit": int(m.group(4)), "violation_lines": int(m.group(5)),
        "detected": int(m.group(4)) == 1 and int(m.group(5)) > 0,
        "first_violations": [l.strip() for l in r.stdout.splitlines() if l.startswith("  violation")][:3],
    }
    json.dump(meta, open(os.path.join(dst, "meta.json"), "w"), indent=1)
    print("  -> kept as seeded/%s detected=%s" % (name, meta["confirmed"]["detected"]))
