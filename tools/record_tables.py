#!/usr/bin/env python3
"""tools/record_tables.py <PROP> [tier] - (maintainer action, never run by a check)
records, for every known finding of the property that has a "dev_table", the
deviation observed at each matching input on the CURRENT /repo tree into
/verif/findings_data/<finding id>.json.  Afterwards the check accepts the
finding only when the same input shows the same deviation (within the table's
tolerance), so any other wrong value at a listed input, or a violation at an
input that is not listed, is reported as a VIOLATION."""
import json
import os
import subprocess
import sys

ROOT = os.path.dirname(os.path.dirname(os.path.abspath(__file__)))
prop = sys.argv[1]
tier = sys.argv[2] if len(sys.argv) > 2 else "thorough"
tmp = "/tmp/vmc_tables_%s.json" % prop
env = dict(os.environ, VMC_RECORD_TABLES=tmp, VMC_NO_EVIDENCE="1")
subprocess.run([os.path.join(ROOT, "check"), prop, "--tier", tier], env=env, check=True)
tables = json.load(open(tmp))
kf = json.load(open(os.path.join(ROOT, "known_findings.json")))
os.makedirs(os.path.join(ROOT, "findings_data"), exist_ok=True)
for f in kf["findings"]:
    spec = f.get("dev_table") or f.get("input_list")
    if f["property"] == prop and spec:
        vals = tables.get(f["id"], {})
        path = os.path.join(ROOT, spec["file"])
        old = {}
        if os.path.exists(path) and "--merge" in sys.argv:
            old = json.load(open(path))
        old.update(vals)
        json.dump(old, open(path, "w"), indent=0, sort_keys=True)
        print(f["id"], len(vals), "entries ->", spec["file"])
os.remove(tmp)
