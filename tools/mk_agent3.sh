#!/bin/sh
# tools/mk_agent3.sh NN  -> third-round prompt: lists the changes of rounds 1 and 2 so that new ones differ
i=$1
git -C /repo worktree remove --force /tmp/wt_c$i 2>/dev/null
git -C /repo worktree add -q --detach /tmp/wt_c$i HEAD || exit 1
rm -rf /tmp/out3_C$i; mkdir -p /tmp/out3_C$i
python3 "$(dirname "$0")/mk_agent3.py" "$i"
echo ready3 $i
