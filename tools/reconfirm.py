#!/venv/bin/python
"""tools/reconfirm.py <seed-id> [note]: re-run tools/seeded.sh for a kept seed and rewrite the 'confirmed' block
(and optionally the 'note') of its meta.json from what the run printed."""
import json, re, subprocess, sys
sid = sys.argv[1]
note = sys.argv[2] if len(sys.argv) > 2 else None
prop = sid.split("-")[0]
d = "/verif/seeded/" + sid
out = subprocess.run(["/verif/tools/seeded.sh", d, prop], capture_output=True, text=True).stdout
m = re.search(r"demo pristine=(\S+) changed=(\S+) \| tests: (.*?) \| check rc=(\d+) violations_lines=(\d+)", out)
meta = json.load(open(d + "/meta.json"))
c = meta.setdefault("confirmed", {})
was = c.get("detected")
c.update({"demo_exit_pristine": int(m.group(1)) if m.group(1).isdigit() else m.group(1),
          "demo_exit_changed": int(m.group(2)) if m.group(2).isdigit() else m.group(2),
          "tests_with_change": m.group(3), "check_exit": int(m.group(4)), "violation_lines": int(m.group(5)),
          "detected": int(m.group(4)) == 1 and int(m.group(5)) > 0,
          "first_violations": [l.strip()[:300] for l in out.splitlines() if l.startswith("  violation")][:3]})
if (was is False and c["detected"]) or note:
    c["note"] = note or "missed by the check as first built; detected after strengthening (notes/strengthening.log)"
json.dump(meta, open(d + "/meta.json", "w"), indent=1)
print(sid, "detected" if c["detected"] else "NOT DETECTED", "| tests:", c["tests_with_change"])
