#!/bin/sh
# tools/mk_agent7.sh NN  -> seventh-round prompt: asks for changes that defeat lattices / short histories
i=$1
git -C /repo worktree remove --force /tmp/wt_c$i 2>/dev/null
git -C /repo worktree add -q --detach /tmp/wt_c$i HEAD || exit 1
rm -rf /tmp/out7_C$i; mkdir -p /tmp/out7_C$i
python3 "$(dirname "$0")/mk_agent7.py" "$i"
echo ready5 $i
