#!/usr/bin/env python3
"""tools/seeded_table.py LO HI  - markdown rows (for DESIGN.md section 7) for the kept seeded changes whose
number k satisfies LO <= k <= HI, from their meta.json."""
import glob
import json
import re
import sys

lo, hi = int(sys.argv[1]), int(sys.argv[2])
ds = [d for d in glob.glob('/verif/seeded/C*-*') if lo <= int(d.rsplit('-', 1)[1]) <= hi]
for d in sorted(ds, key=lambda p: (p.split('/')[-1].split('-')[0], int(p.rsplit('-', 1)[1]))):
    m = json.load(open(d + '/meta.json'))
    name = d.split('/')[-1]
    c = m.get('confirmed', {})
    fv = (c.get('first_violations') or [''])[0]
    cl = re.search(r"clause=(\S+)", fv)
    summ = (m.get('summary') or m.get('what') or '').replace('|', '/').replace('\n', ' ')
    if len(summ) > 150:
        summ = summ[:147].rsplit(' ', 1)[0] + ' ...'
    print("| %s | %s | %s %s | %s |" % (name, summ, name.split('-')[0], cl.group(1) if cl else '?',
                                       ('**thorough tier only**' if m.get('detected_thorough') else '**not detected**' if m.get('undetected') else '**missed at first**' if 'note' in c else '')))
