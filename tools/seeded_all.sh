#!/bin/sh
# tools/seeded_all.sh [PROP ...] - regression over every kept seeded change: each must still apply to /repo HEAD,
# pass the test-suite, fail its demo, and be reported by its property's quick check.  One line per change.
cd "$(dirname "$0")/.."
props="$*"
for d in seeded/*/; do
  if grep -q "\"superseded\"" "$d/meta.json" 2>/dev/null; then continue; fi
  n=$(basename "$d"); p=${n%%-*}
  if [ -n "$props" ]; then case " $props " in *" $p "*) ;; *) continue;; esac; fi
  tools/seeded.sh "$d" "$p" 2>&1 | grep '^SEEDED'
done
