#!/bin/sh
# tools/seeded_all.sh [PROP ...] - regression over every kept seeded change: each must still apply to /repo HEAD,
# pass the test-suite, fail its demo, and be reported by its property's quick check.  One line per change.
cd "$(dirname "$0")/.."
props="$*"
for d in seeded/*/; do
  if grep -q "\"superseded\"\|\"undetected\"" "$d/meta.json" 2>/dev/null; then continue; fi
  n=$(basename "$d"); p=${n%%-*}
  if [ -n "$props" ]; then case " $props " in *" $p "*) ;; *) continue;; esac; fi
  if grep -q '"detected_thorough"' "$d/meta.json" 2>/dev/null; then
    # reported by the thorough tier only: run it there when SEEDED_THOROUGH=1, otherwise say so
    if [ "$SEEDED_THOROUGH" = 1 ]; then tools/seeded.sh "$d" "$p" thorough 2>&1 | grep '^SEEDED'
    else echo "SEEDED $p $n: thorough tier only (set SEEDED_THOROUGH=1 to run it)"; fi
    continue
  fi
  # SEEDED_FAST=1: run only the clause that reported the change when it was confirmed (from meta.json); the whole
  # quick check is run when that clause alone does not report it
  cl=""
  if [ "$SEEDED_FAST" = 1 ]; then
    cl=$(grep -o 'clause=[A-Za-z0-9_]*' "$d/meta.json" | head -1 | cut -d= -f2)
  fi
  if [ -n "$cl" ]; then
    r=$(tools/seeded.sh "$d" "$p" quick "$cl" 2>&1 | grep '^SEEDED')
    case "$r" in *"check rc=1"*) echo "$r [clause $cl]"; continue;; esac
  fi
  tools/seeded.sh "$d" "$p" 2>&1 | grep '^SEEDED'
done
